"""ddpmodel: typed AST of DDP's core language, a printer to DDP source text and an independent
reference evaluator (the oracle of C01/C05/C06/C08/C11/C19). Shares no code with the compiler.

Values: Zahl = int (wrapped to int64), Kommazahl = float, Byte = int 0..255, Wahrheitswert = bool,
Buchstabe = Char(code point), Text = str, lists = list, Kombination = Struct(name, dict),
Variable = Any(type, value)."""
import math
import struct as _struct

Z, K, B, W, C, T, V = "Zahl", "Kommazahl", "Byte", "Wahrheitswert", "Buchstabe", "Text", "Variable"
NICHTS = "nichts"
PRIMS = (Z, K, B, W, C, T)
NUM = (Z, K, B)


def L(t):
    return ("Liste", t)


def S(name):
    return ("Komb", name)


def is_list(t):
    return isinstance(t, tuple) and t[0] == "Liste"


def is_struct(t):
    return isinstance(t, tuple) and t[0] == "Komb"


def is_prim_value(t):
    """types whose values live in registers (no heap ownership)"""
    return t in (Z, K, B, W, C)


# ---------------------------------------------------------------- German surface forms of types

def type_name(t):
    """name as used in declarations: 'Zahl', 'Zahlen Liste', 'Punkt'"""
    if is_list(t):
        e = t[1]
        plural = {Z: "Zahlen", K: "Kommazahlen", B: "Byte", W: "Wahrheitswert", C: "Buchstaben", T: "Text", V: "Variablen"}
        if e in plural:
            return plural[e] + " Liste"
        if is_struct(e):
            return e[1] + " Liste"
        raise ValueError("no surface syntax for nested list %r" % (t,))
    if is_struct(t):
        return t[1]
    return t


def ref_type_name(t):
    """parameter type with Referenz"""
    if is_list(t):
        return type_name(t) + "n Referenz"  # Zahlen Listen Referenz
    return {Z: "Zahlen Referenz", K: "Kommazahlen Referenz", B: "Byte Referenz", W: "Wahrheitswert Referenz", C: "Buchstaben Referenz",
            T: "Text Referenz", V: "Variablen Referenz"}.get(t) or (t[1] + " Referenz")


def gender(t):
    if is_list(t):
        return "f"
    if is_struct(t):
        return "m"
    return {Z: "f", K: "f", B: "m", W: "m", C: "m", T: "m", V: "f"}[t]


def art_nom(t):   # Der/Die/Das in declarations
    return {"m": "Der", "f": "Die", "n": "Das"}[gender(t)]


def art_field(t):  # dem/der in Kombination fields
    return {"m": "dem", "f": "der", "n": "dem"}[gender(t)]


def art_akk(t):   # einen/eine/ein (return types)
    return {"m": "einen", "f": "eine", "n": "ein"}[gender(t)]


def art_dat(t):   # einem/einer (Standardwert von)
    return {"m": "einem", "f": "einer", "n": "einem"}[gender(t)]


def art_jede(t):  # jeden/jede/jedes
    return {"m": "jeden", "f": "jede", "n": "jedes"}[gender(t)]


def ret_type_name(t):
    if t == C:
        return "einen Buchstaben"
    return art_akk(t) + " " + type_name(t)


def for_type_name(t):
    if t == C:
        return "jeden Buchstaben"
    return art_jede(t) + " " + type_name(t)


# ---------------------------------------------------------------- values

class Char:
    __slots__ = ("cp",)

    def __init__(self, cp):
        self.cp = cp if isinstance(cp, int) else ord(cp)

    def __eq__(self, o):
        return isinstance(o, Char) and o.cp == self.cp

    def __hash__(self):
        return hash(("c", self.cp))

    def __repr__(self):
        return "Char(%r)" % chr(self.cp)


class Struct:
    __slots__ = ("name", "f")

    def __init__(self, name, fields):
        self.name, self.f = name, fields

    def __eq__(self, o):
        return isinstance(o, Struct) and o.name == self.name and o.f == self.f

    def __repr__(self):
        return "Struct(%s,%r)" % (self.name, self.f)


class Any:
    __slots__ = ("ty", "v")

    def __init__(self, ty, v):
        self.ty, self.v = ty, v

    def __eq__(self, o):
        return isinstance(o, Any) and o.ty == self.ty and o.v == self.v

    def __repr__(self):
        return "Any(%r,%r)" % (self.ty, self.v)


def wrap64(n):
    n &= (1 << 64) - 1
    return n - (1 << 64) if n >= (1 << 63) else n


def deep(v):
    """value semantics: every store copies"""
    if isinstance(v, list):
        return [deep(x) for x in v]
    if isinstance(v, Struct):
        return Struct(v.name, {k: deep(x) for k, x in v.f.items()})
    if isinstance(v, Any):
        return Any(v.ty, deep(v.v))
    return v


def fmt_float(x):
    if math.isinf(x):
        return "Unendlich" if x > 0 else "-Unendlich"
    if math.isnan(x):
        return "Keine Zahl (NaN)"
    return ("%.16g" % x).replace(".", ",")


def fmt_float_cast(x):
    """`x als Text` uses printf %.16g directly (inf -> 'inf')"""
    if math.isinf(x):
        return "inf" if x > 0 else "-inf"
    if math.isnan(x):
        return "nan"
    return ("%.16g" % x).replace(".", ",")


def show(v, ty):
    """what `Schreibe v` prints"""
    if ty == Z or ty == B:
        return str(v)
    if ty == K:
        return fmt_float(v)
    if ty == W:
        return "wahr" if v else "falsch"
    if ty == C:
        if v.cp == 0:      # texts are NUL-terminated: U+0000 cannot be printed or stored in a Text
            raise ModelDomain("U+0000 is outside the representable domain of texts")
        return chr(v.cp)
    if ty == T:
        return v
    if is_list(ty):
        return ", ".join(show(x, ty[1]) for x in v)
    raise ValueError("cannot show %r" % (ty,))


class RuntimeErr(Exception):
    """a DDP Laufzeitfehler: stdout so far, then exit status 1"""

    def __init__(self, kind):
        super().__init__(kind)
        self.kind = kind


class ModelDomain(Exception):
    """the program left the domain in which the model is authoritative (generator bug or contested rule)"""


# ---------------------------------------------------------------- AST

class Node:
    __slots__ = ()


class Lit(Node):
    __slots__ = ("ty", "v")

    def __init__(self, ty, v):
        self.ty, self.v = ty, v


class ListLit(Node):
    __slots__ = ("ty", "elems")

    def __init__(self, ty, elems):
        self.ty, self.elems = ty, elems  # elems == [] -> `eine leere T Liste`


class Var(Node):
    __slots__ = ("ty", "name")

    def __init__(self, name, ty):
        self.name, self.ty = name, ty


class Un(Node):
    __slots__ = ("ty", "op", "e")

    def __init__(self, op, e, ty):
        self.op, self.e, self.ty = op, e, ty


class Bin(Node):
    __slots__ = ("ty", "op", "a", "b")

    def __init__(self, op, a, b, ty):
        self.op, self.a, self.b, self.ty = op, a, b, ty


class Ter(Node):
    __slots__ = ("ty", "op", "a", "b", "c")

    def __init__(self, op, a, b, c, ty):
        self.op, self.a, self.b, self.c, self.ty = op, a, b, c, ty


class Cast(Node):
    __slots__ = ("ty", "e")

    def __init__(self, e, ty):
        self.e, self.ty = e, ty


class Field(Node):
    __slots__ = ("ty", "e", "name")

    def __init__(self, e, name, ty):
        self.e, self.name, self.ty = e, name, ty


class Call(Node):
    __slots__ = ("ty", "fn", "args")

    def __init__(self, fn, args, ty):
        self.fn, self.args, self.ty = fn, args, ty  # fn: FuncDecl; args: list of expr (Var/Index/Field for Referenz params)


class StructLit(Node):
    __slots__ = ("ty", "args")

    def __init__(self, ty, args):
        self.ty, self.args = ty, args  # args: list in field order


class Default(Node):
    __slots__ = ("ty",)

    def __init__(self, ty):
        self.ty = ty


class TypeCheck(Node):
    __slots__ = ("ty", "e", "check", "neg")

    def __init__(self, e, check, neg=False):
        self.e, self.check, self.neg, self.ty = e, check, neg, W


# statements
class Decl(Node):
    __slots__ = ("name", "ty", "init", "repeat")

    def __init__(self, name, ty, init, repeat=None):
        self.name, self.ty, self.init, self.repeat = name, ty, init, repeat  # repeat=(count_expr, value_expr) for `n Mal x`


class Assign(Node):
    __slots__ = ("target", "e", "form")

    def __init__(self, target, e, form="speichere"):
        self.target, self.e, self.form = target, e, form   # target: Var | Bin('index') | Field chains


class Compound(Node):
    __slots__ = ("op", "target", "e")

    def __init__(self, op, target, e=None):
        self.op, self.target, self.e = op, target, e    # op: erhoehe verringere vervielfache teile links rechts negiere


class If(Node):
    __slots__ = ("arms", "els", "inline")

    def __init__(self, arms, els=None, inline=False):
        self.arms, self.els, self.inline = arms, els, inline  # arms: [(cond, [stmts])]


class While(Node):
    __slots__ = ("cond", "body")

    def __init__(self, cond, body):
        self.cond, self.body = cond, body


class DoWhile(Node):
    __slots__ = ("cond", "body")

    def __init__(self, cond, body):
        self.cond, self.body = cond, body


class Repeat(Node):
    __slots__ = ("count", "body")

    def __init__(self, count, body):
        self.count, self.body = count, body


class ForCount(Node):
    __slots__ = ("var", "ty", "frm", "to", "step", "body")

    def __init__(self, var, ty, frm, to, step, body):
        self.var, self.ty, self.frm, self.to, self.step, self.body = var, ty, frm, to, step, body


class ForEach(Node):
    __slots__ = ("var", "ty", "index", "coll", "body")

    def __init__(self, var, ty, coll, body, index=None):
        self.var, self.ty, self.coll, self.body, self.index = var, ty, coll, body, index


class Break(Node):
    __slots__ = ()


class Continue(Node):
    __slots__ = ()


class Return(Node):
    __slots__ = ("e",)

    def __init__(self, e=None):
        self.e = e


class ExprStmt(Node):
    __slots__ = ("e",)

    def __init__(self, e):
        self.e = e


class Print(Node):
    """Schreibe e [auf eine Zeile]"""
    __slots__ = ("e", "nl")

    def __init__(self, e, nl=True):
        self.e, self.nl = e, nl


class Todo(Node):
    __slots__ = ()


class Raw(Node):
    """verbatim source lines with a Python effect (used for special probes)"""
    __slots__ = ("text", "effect")

    def __init__(self, text, effect=None):
        self.text, self.effect = text, effect


class Param:
    __slots__ = ("name", "ty", "ref")

    def __init__(self, name, ty, ref=False):
        self.name, self.ty, self.ref = name, ty, ref


class FuncDecl(Node):
    """form: how the (same) function is written:
         None                 plain declaration
         "forward"            'wird später definiert' at the declaration, 'Die Funktion f macht:' at the end of the program
         ("generic", ty)      every parameter / return of type ty is written as the type parameter T
         ("operator", name)   'Und überlädt den "name" Operator.' (unary; a call is written with the operator)"""
    __slots__ = ("name", "params", "ret", "body", "alias_words", "form")

    def __init__(self, name, params, ret, body, form=None):
        self.name, self.params, self.ret, self.body = name, params, ret, body
        self.form = form


class StructDecl(Node):
    __slots__ = ("name", "fields")

    def __init__(self, name, fields):
        self.name, self.fields = name, fields  # [(fname, ty, default_expr)]


class Program:
    """top-level items in source order: StructDecl, FuncDecl and statements"""

    def __init__(self):
        self.items = []

    @property
    def structs(self):
        return [i for i in self.items if isinstance(i, StructDecl)]

    @property
    def funcs(self):
        return [i for i in self.items if isinstance(i, FuncDecl)]

    @property
    def main(self):
        return [i for i in self.items if not isinstance(i, (StructDecl, FuncDecl))]

    def struct(self, name):
        for s in self.items:
            if isinstance(s, StructDecl) and s.name == name:
                return s
        raise KeyError(name)


# ---------------------------------------------------------------- printer

ESC = {"\n": "\\n", "\t": "\\t", "\r": "\\r", "\a": "\\a", "\b": "\\b", "\\": "\\\\"}


def text_lit(s):
    return '"' + "".join('\\"' if ch == '"' else ESC.get(ch, ch) for ch in s) + '"'


def char_lit(cp):
    ch = chr(cp)
    return "'" + ("\\'" if ch == "'" else ESC.get(ch, ch)) + "'"


def float_lit(x):
    r = repr(float(x))
    if "e" in r or "E" in r or "inf" in r or "nan" in r:
        raise ModelDomain("float literal not writable: %r" % x)
    if "." not in r:
        r += ".0"
    return r.replace(".", ",")


BIN_WORDS = {"plus": "plus", "minus": "minus", "mal": "mal", "durch": "durch", "modulo": "modulo", "hoch": "hoch", "und": "und", "oder": "oder",
             "lund": "logisch und", "loder": "logisch oder", "lkontra": "logisch kontra", "verkettet": "verkettet mit"}
CMP_WORDS = {"gleich": "gleich", "ungleich": "ungleich", "kleiner": "kleiner als", "groesser": "größer als", "kleinergleich": "kleiner als, oder",
             "groessergleich": "größer als, oder"}


class Printer:
    def __init__(self, prog):
        self.prog = prog

    # --- expressions; atom=True means the result must be usable as a call argument / operand without further wrapping
    def ex(self, e, atom=False):
        s, is_atom = self._ex(e)
        if atom and not is_atom:
            return "(" + s + ")"
        return s

    def _ex(self, e):
        P = lambda x: self.ex(x, True)
        if isinstance(e, Lit):
            if e.ty == Z:
                if e.v == -(1 << 63):   # the most negative Zahl has no literal: -9223372036854775808 does not scan
                    return "-9223372036854775807 minus 1", False
                return (str(e.v), True) if e.v >= 0 else ("-" + str(-e.v), False)
            if e.ty == K:
                return (float_lit(e.v), True) if (e.v > 0 or (e.v == 0 and math.copysign(1, e.v) > 0)) else ("-" + float_lit(-e.v), False)
            if e.ty == B:
                return "%d als Byte" % e.v, False
            if e.ty == W:
                return ("wahr" if e.v else "falsch"), True
            if e.ty == C:
                return char_lit(e.v.cp), True
            if e.ty == T:
                return text_lit(e.v), True
            raise ValueError(e.ty)
        if isinstance(e, ListLit):
            if not e.elems:
                return "eine leere " + type_name(e.ty), False
            return "eine Liste, die aus " + ", ".join(P(x) for x in e.elems) + " besteht", False
        if isinstance(e, Var):
            return e.name, True
        if isinstance(e, Un):
            w = {"neg": "-", "betrag": "der Betrag von ", "nicht": "nicht ", "lnicht": "logisch nicht ", "laenge": "die Länge von "}[e.op]
            return w + P(e.e), False
        if isinstance(e, Bin):
            a, b = P(e.a), P(e.b)
            if e.op in BIN_WORDS:
                return "%s %s %s" % (a, BIN_WORDS[e.op], b), False
            if e.op in CMP_WORDS:
                return "%s %s %s ist" % (a, CMP_WORDS[e.op], b), False
            if e.op == "xor":
                return "entweder %s, oder %s" % (a, b), False
            if e.op == "links":
                return "%s um %s Bit nach links verschoben" % (a, b), False
            if e.op == "rechts":
                return "%s um %s Bit nach rechts verschoben" % (a, b), False
            if e.op == "index":
                return "%s an der Stelle %s" % (a, b), False
            if e.op == "ab":
                return "%s ab dem %s. Element" % (a, b), False
            if e.op == "biszum":
                return "%s bis zum %s. Element" % (a, b), False
            if e.op == "wurzel":   # a-te Wurzel von b  (Bin('wurzel', n, x))
                return "die %s. Wurzel von %s" % (a, b), False
            if e.op == "log":      # Logarithmus von a zur Basis b
                return "der Logarithmus von %s zur Basis %s" % (a, b), False
            raise ValueError(e.op)
        if isinstance(e, Ter):
            a, b, c = P(e.a), P(e.b), P(e.c)
            if e.op == "slice":
                return "%s im Bereich von %s bis %s" % (a, b, c), False
            if e.op == "zwischen":
                return "%s zwischen %s und %s ist" % (a, b, c), False
            if e.op == "falls":
                return "%s, falls %s, ansonsten %s" % (a, b, c), False
            raise ValueError(e.op)
        if isinstance(e, Cast):
            return "%s als %s" % (P(e.e), type_name(e.ty)), False
        if isinstance(e, Field):
            return "%s von %s" % (e.name, P(e.e)), False
        if isinstance(e, Call):
            return self.call(e), False
        if isinstance(e, StructLit):
            sd = self.prog.struct(e.ty[1])
            return ("ein %s aus %s" % (sd.name, " und ".join(P(a) for a in e.args)) if e.args else ("Standard_%s" % sd.name)), False
        if isinstance(e, Default):
            return "der Standardwert von %s %s" % (art_dat(e.ty), type_name(e.ty)), False
        if isinstance(e, TypeCheck):
            art = {"m": "ein", "f": "eine", "n": "ein"}[gender(e.check)]
            if e.neg:
                art = "k" + art
            return "%s %s %s ist" % (P(e.e), art, type_name(e.check)), False
        raise ValueError(type(e))

    OPERATOR_SYNTAX = {"Betrag": "der Betrag von %s", "logisch nicht": "logisch nicht %s", "unäres minus": "-%s", "Länge": "die Länge von %s"}

    def call(self, c):
        form = getattr(c.fn, "form", None)
        if isinstance(form, tuple) and form[0] == "operator":
            a = c.args[0]
            return self.OPERATOR_SYNTAX[form[1]] % (a.name if isinstance(a, Var) else "(" + self.target(a) + ")")
        parts = [c.fn.name + "_a"]
        for p, a in zip(c.fn.params, c.args):
            if p.ref and not isinstance(a, Var):
                parts.append("(" + self.target(a) + ")")   # Referenz arguments use the assignable syntax
            else:
                parts.append(self.ex(a, True))
        return " ".join(parts)

    def target(self, t):
        """assignable syntax: x | x an der Stelle i | f von x ..."""
        if isinstance(t, Var):
            return t.name
        if isinstance(t, Bin) and t.op == "index":
            if isinstance(t.a, Bin) and t.a.op == "index":   # nested indexing is written with a comma
                return "%s, an der Stelle %s" % (self.target(t.a), self.ex(t.b, True))
            return "%s an der Stelle %s" % (self.target(t.a), self.ex(t.b, True))
        if isinstance(t, Field):
            inner = self.target(t.e)
            if not isinstance(t.e, (Var, Field)):
                inner = "(" + inner + ")"
            return "%s von %s" % (t.name, inner)
        raise ValueError(type(t))

    # --- statements
    def stmts(self, body, ind):
        out = []
        for s in body:
            out += self.stmt(s, ind)
        return out

    def stmt(self, s, ind):
        I = "\t" * ind
        ex = self.ex
        if isinstance(s, Decl):
            if s.repeat is not None:
                return ["%s%s %s %s ist %s Mal %s." % (I, art_nom(s.ty), type_name(s.ty), s.name, ex(s.repeat[0], True), ex(s.repeat[1], True))]
            return ["%s%s %s %s ist %s." % (I, art_nom(s.ty), type_name(s.ty), s.name, self.rhs(s.init, s.ty))]
        if isinstance(s, Assign):
            return ["%sSpeichere %s in %s." % (I, ex(s.e, True), self.target(s.target))]
        if isinstance(s, Compound):
            t = self.target(s.target)
            if s.op == "negiere":
                return ["%sNegiere %s." % (I, t)]
            if s.op == "teile":
                return ["%sTeile %s durch %s." % (I, t, ex(s.e, True))]
            if s.op in ("links", "rechts"):
                return ["%sVerschiebe %s um %s Bit nach %s." % (I, t, ex(s.e, True), "Links" if s.op == "links" else "Rechts")]
            w = {"erhoehe": "Erhöhe", "verringere": "Verringere", "vervielfache": "Vervielfache"}[s.op]
            return ["%s%s %s um %s." % (I, w, t, ex(s.e, True))]
        if isinstance(s, If):
            out = []
            for k, (cond, body) in enumerate(s.arms):
                head = "Wenn" if k == 0 else "Wenn aber"
                if s.inline and len(body) == 1 and self.inlineable(body[0]):
                    out.append("%s%s %s, %s" % (I, head, ex(cond, True), self.stmt(body[0], 0)[0]))
                else:
                    out.append("%s%s %s, dann:" % (I, head, ex(cond, True)))
                    out += self.stmts(body, ind + 1)
            if s.els is not None:
                if s.inline and len(s.els) == 1 and self.inlineable(s.els[0]):
                    out.append("%sSonst %s" % (I, self.stmt(s.els[0], 0)[0]))
                else:
                    out.append("%sSonst:" % I)
                    out += self.stmts(s.els, ind + 1)
            return out
        if isinstance(s, While):
            return ["%sSolange %s, mache:" % (I, ex(s.cond, True))] + self.stmts(s.body, ind + 1)
        if isinstance(s, DoWhile):
            return ["%sMache:" % I] + self.stmts(s.body, ind + 1) + ["%sSolange %s." % (I, ex(s.cond, True))]
        if isinstance(s, Repeat):
            return ["%sWiederhole:" % I] + self.stmts(s.body, ind + 1) + ["%s%s Mal." % (I, ex(s.count, True))]
        if isinstance(s, ForCount):
            step = "" if s.step is None else " mit Schrittgröße %s" % ex(s.step, True)
            return ["%sFür %s %s von %s bis %s%s, mache:" % (I, for_type_name(s.ty), s.var, ex(s.frm, True), ex(s.to, True), step)] + self.stmts(s.body, ind + 1)
        if isinstance(s, ForEach):
            idx = "" if s.index is None else " mit Index %s" % s.index
            return ["%sFür %s %s%s in %s, mache:" % (I, for_type_name(s.ty), s.var, idx, ex(s.coll, True))] + self.stmts(s.body, ind + 1)
        if isinstance(s, Break):
            return [I + "Verlasse die Schleife."]
        if isinstance(s, Continue):
            return [I + "Fahre mit der Schleife fort."]
        if isinstance(s, Return):
            if s.e is None:
                return [I + "Verlasse die Funktion."]
            return ["%sGib %s zurück." % (I, ex(s.e, True))]
        if isinstance(s, ExprStmt):
            return ["%s%s." % (I, ex(s.e))]
        if isinstance(s, Print):
            return ["%sSchreibe %s%s." % (I, ex(s.e, True), " auf eine Zeile" if s.nl else "")]
        if isinstance(s, Todo):
            return [I + "..."]
        if isinstance(s, Raw):
            return [I + l for l in s.text.split("\n")]
        raise ValueError(type(s))

    def inlineable(self, s):
        return isinstance(s, (Print, Assign, Compound, Break, Continue, Return, ExprStmt))

    def rhs(self, e, ty):
        # initialisers: list types take a plain expression; everything else too - always fully parenthesised where not atomic
        if isinstance(e, (ListLit, Default, StructLit)):
            return self.ex(e)
        return self.ex(e, True)

    def func(self, f):
        form = getattr(f, "form", None)
        gty = form[1] if isinstance(form, tuple) and form[0] == "generic" else None
        pty = lambda p: ("T Referenz" if p.ref else "T") if (gty is not None and p.ty == gty) else (ref_type_name(p.ty) if p.ref else type_name(p.ty))
        head = "Die %sFunktion %s" % ("generische " if gty is not None else "", f.name)
        if len(f.params) == 1:
            p = f.params[0]
            head += " mit dem Parameter %s vom Typ %s" % (p.name, pty(p))
        elif f.params:
            names = [p.name for p in f.params]
            tys = [pty(p) for p in f.params]
            join = lambda xs: ", ".join(xs[:-1]) + " und " + xs[-1]
            head += " mit den Parametern %s vom Typ %s" % (join(names), join(tys))
        rt = "nichts" if f.ret == NICHTS else ("ein T" if (gty is not None and f.ret == gty) else ret_type_name(f.ret))
        alias = '\t"' + " ".join([f.name + "_a"] + ["<%s>" % p.name for p in f.params]) + '"'
        if form == "forward":
            return [head + "%s gibt %s zurück," % ("," if f.params else "", rt), "wird später definiert", "und kann so benutzt werden:", alias]
        head += "%s gibt %s zurück, macht:" % ("," if f.params else "", rt)
        out = [head] + self.stmts(f.body, 1)
        if isinstance(form, tuple) and form[0] == "operator":
            out.append('Und überlädt den "%s" Operator.' % form[1])
            return out
        out.append("Und kann so benutzt werden:")
        out.append(alias)
        return out

    def funcdef(self, f):
        """the definition of a forward declared function"""
        return ["Die Funktion %s macht:" % f.name] + self.stmts(f.body, 1)

    def structdecl(self, sd):
        out = ["Wir nennen die Kombination aus"]
        for (n, ty, d) in sd.fields:
            out.append("\t%s %s %s mit Standardwert %s," % (art_field(ty), type_name(ty), n, self.rhs(d, ty)))
        out.append("einen %s, und erstellen sie so:" % sd.name)
        out.append('\t"ein %s aus %s" oder' % (sd.name, " und ".join("<%s>" % n for n, _, _ in sd.fields)))
        out.append('\t"Standard_%s"' % sd.name)
        return out

    def program(self, prelude=True):
        """prelude: True = import Duden/Ausgabe; "self" = self-contained print functions (no imports); False = nothing"""
        out = ['Binde "Duden/Ausgabe" ein.'] if prelude is True else ([self_prelude()] if prelude == "self" else [])
        for it in self.prog.items:
            if isinstance(it, StructDecl):
                out += self.structdecl(it)
            elif isinstance(it, FuncDecl):
                out += self.func(it)
            else:
                out += self.stmt(it, 0)
        for it in self.prog.items:
            if isinstance(it, FuncDecl) and getattr(it, "form", None) == "forward":
                out += self.funcdef(it)
        return "\n".join(out) + "\n"



def self_prelude():
    """replacement for `Binde "Duden/Ausgabe" ein.`: the same print functions declared in the main module itself
    (extern ones from libddpstdlib.a), so that a program has no imports and can be compiled with --module-linken=false"""
    out = []
    names = {Z: ("Zahl", "Zahl"), K: ("Kommazahl", "Kommazahl"), B: ("Byte", "Byte"), W: ("Wahrheitswert", "Wahrheitswert"), C: ("Buchstabe", "Buchstabe"), T: ("Text", "Text")}
    for t, (fn, tn) in names.items():
        out.append('Die Funktion Schreibe_%s mit dem Parameter p1 vom Typ %s, gibt nichts zurück,\nist in "libddpstdlib.a" definiert\nund kann so benutzt werden:\n\t"Schreibe <p1>"' % (fn, tn))
    for t, (fn, tn) in names.items():
        out.append('Die Funktion Schreibe_Zeile_%s mit dem Parameter p1 vom Typ %s, gibt nichts zurück, macht:\n\tSchreibe p1.\n\tSchreibe \'\\n\'.\nUnd kann so benutzt werden:\n\t"Schreibe <p1> auf eine Zeile"' % (fn, tn))
    for t, (fn, tn) in names.items():
        ln = type_name(L(t))
        lf = ln.replace(" ", "_")
        out.append('Die Funktion Schreibe_%s mit dem Parameter p1 vom Typ %s, gibt nichts zurück, macht:\n\tFür jede Zahl i von 1 bis (die Länge von p1), mache:\n\t\tWenn i größer als 1 ist, Schreibe ", ".\n\t\tSchreibe (p1 an der Stelle i).\nUnd kann so benutzt werden:\n\t"Schreibe <p1>"' % (lf, ln))
        out.append('Die Funktion Schreibe_%s_Zeile mit dem Parameter p1 vom Typ %s, gibt nichts zurück, macht:\n\tSchreibe p1.\n\tSchreibe \'\\n\'.\nUnd kann so benutzt werden:\n\t"Schreibe <p1> auf eine Zeile"' % (lf, ln))
    return "\n".join(out) + "\n"

# ---------------------------------------------------------------- evaluator

class _Break(Exception):
    pass


class _Continue(Exception):
    pass


class _Return(Exception):
    def __init__(self, v):
        self.v = v


class Loc:
    """a storage location: variable, list element, text character, struct field"""
    __slots__ = ("get", "set")

    def __init__(self, get, set_):
        self.get, self.set = get, set_


def default_value(ty, prog):
    if ty == Z or ty == B:
        return 0
    if ty == K:
        return 0.0
    if ty == W:
        return False
    if ty == C:
        return Char(0)
    if ty == T:
        return ""
    if ty == V:
        return Any(None, None)
    if is_list(ty):
        return []
    if is_struct(ty):
        sd = prog.struct(ty[1])
        ev = Evaluator(prog)
        return Struct(sd.name, {n: deep(ev.conv(ev.eval(d, {}), d.ty, t)) for n, t, d in sd.fields})
    raise ValueError(ty)


def trunc_to_int64(x):
    if math.isnan(x) or math.isinf(x) or not (-9.2e18 < x < 9.2e18):
        raise ModelDomain("float->int conversion out of range")
    return int(x)


class Evaluator:
    MAX_STEPS = 300000

    def __init__(self, prog):
        self.prog = prog
        self.out = []
        self.steps = 0
        self.globals = {}
        self.depth = 0

    # ---- numeric conversion on initialisation / assignment / argument passing / return
    def conv(self, v, src, dst):
        if src == dst or dst == V and False:
            return v
        if dst == V:
            return v if isinstance(v, Any) else Any(src, v)
        if src in NUM and dst in NUM:
            if dst == K:
                return float(v)
            if dst == Z:
                return trunc_to_int64(v) if src == K else v
            if dst == B:
                if src == K:
                    t = trunc_to_int64(v)
                    if not (0 <= t <= 255):
                        raise ModelDomain("float->byte out of range")
                    return t
                return v & 0xFF
        raise ModelDomain("conversion %r -> %r" % (src, dst))

    def tick(self):
        self.steps += 1
        if self.steps > self.MAX_STEPS:
            raise ModelDomain("step budget exceeded")

    # ---- locations
    def loc(self, t, env):
        if isinstance(t, Var):
            scope = self.find_scope(t.name, env)
            cell = scope[t.name]
            if isinstance(cell, Loc):
                return cell
            return Loc(lambda: scope[t.name], lambda v: scope.__setitem__(t.name, v))
        if isinstance(t, Bin) and t.op == "index":
            base = self.loc(t.a, env)
            idx = self.eval(t.b, env)

            def get():
                return self.index(base.get(), idx, t.a.ty)

            def set_(v):
                cont = base.get()
                if t.a.ty == T:
                    if not (1 <= idx <= len(cont)):
                        raise RuntimeErr("index")
                    if v.cp == 0:
                        raise ModelDomain("U+0000 cannot be stored in a Text")
                    base.set(cont[:idx - 1] + chr(v.cp) + cont[idx:])
                else:
                    if not (1 <= idx <= len(cont)):
                        raise RuntimeErr("index")
                    cont[idx - 1] = v
            # bounds are checked when the location is formed (the generated code checks before use)
            cont = base.get()
            if not (1 <= idx <= len(cont)):
                raise RuntimeErr("index")
            return Loc(get, set_)
        if isinstance(t, Field):
            base = self.loc(t.e, env)
            return Loc(lambda: base.get().f[t.name], lambda v: base.get().f.__setitem__(t.name, v))
        raise ModelDomain("not assignable: %r" % type(t))

    def find_scope(self, name, env):
        e = env
        while e is not None:
            if name in e:
                return e
            e = e.get("__parent__")
        if name in self.globals:
            return self.globals
        raise ModelDomain("unbound variable " + name)

    def index(self, cont, idx, cty):
        if not (1 <= idx <= len(cont)):
            raise RuntimeErr("index")
        if cty == T:
            return Char(ord(cont[idx - 1]))
        return cont[idx - 1]

    # ---- expressions
    def eval(self, e, env):
        self.tick()
        if isinstance(e, Lit):
            return e.v
        if isinstance(e, ListLit):
            return [deep(self.eval(x, env)) for x in e.elems]
        if isinstance(e, Var):
            cell = self.find_scope(e.name, env)[e.name]
            return cell.get() if isinstance(cell, Loc) else cell
        if isinstance(e, Un):
            v = self.eval(e.e, env)
            t = e.e.ty
            if e.op == "neg":
                if t == K:
                    return -v
                if t == Z:
                    return wrap64(-v)
                raise ModelDomain("neg of " + str(t))
            if e.op == "betrag":
                if t == K:
                    return abs(v)
                if t == Z:
                    if v == -(1 << 63):
                        raise ModelDomain("abs(int64 min)")
                    return abs(v)
                raise ModelDomain("betrag of " + str(t))
            if e.op == "nicht":
                return not v
            if e.op == "lnicht":
                return wrap64(~v) if t == Z else (~v) & 0xFF
            if e.op == "laenge":
                return len(v)
            raise ValueError(e.op)
        if isinstance(e, Bin):
            return self.binop(e, env)
        if isinstance(e, Ter):
            if e.op == "falls":
                return self.eval(e.a, env) if self.eval(e.b, env) else self.eval(e.c, env)
            if e.op == "zwischen":
                x, a, b = self.eval(e.a, env), self.eval(e.b, env), self.eval(e.c, env)
                lo, hi = (a, b) if a <= b else (b, a)
                return lo < x < hi
            if e.op == "slice":
                cont, a, b = self.eval(e.a, env), self.eval(e.b, env), self.eval(e.c, env)
                return self.slice(cont, a, b)
            raise ValueError(e.op)
        if isinstance(e, Cast):
            return self.cast(self.eval(e.e, env), e.e.ty, e.ty)
        if isinstance(e, Field):
            return self.eval(e.e, env).f[e.name]
        if isinstance(e, Call):
            return self.call(e, env)
        if isinstance(e, StructLit):
            sd = self.prog.struct(e.ty[1])
            if not e.args:
                return default_value(e.ty, self.prog)
            vals = [self.eval(a, env) for a in e.args]
            return Struct(sd.name, {n: deep(self.conv(v, a.ty, t)) for (n, t, _), v, a in zip(sd.fields, vals, e.args)})
        if isinstance(e, Default):
            return default_value(e.ty, self.prog)
        if isinstance(e, TypeCheck):
            v = self.eval(e.e, env)
            r = isinstance(v, Any) and v.ty == e.check
            return (not r) if e.neg else r
        raise ValueError(type(e))

    def slice(self, cont, a, b):
        n = len(cont)
        if n == 0:
            return cont[:0]
        a = max(1, min(a, n))
        b = max(1, min(b, n))
        if b < a:
            raise RuntimeErr("slice")
        return deep(cont[a - 1:b])

    def binop(self, e, env):
        op = e.op
        if op == "und":
            return bool(self.eval(e.a, env)) and bool(self.eval(e.b, env))
        if op == "oder":
            return bool(self.eval(e.a, env)) or bool(self.eval(e.b, env))
        a = self.eval(e.a, env)
        b = self.eval(e.b, env)
        ta, tb = e.a.ty, e.b.ty
        if op == "xor":
            return bool(a) != bool(b)
        if op in ("plus", "minus", "mal"):
            if K in (ta, tb):
                x, y = float(a), float(b)
                return x + y if op == "plus" else x - y if op == "minus" else x * y
            r = a + b if op == "plus" else a - b if op == "minus" else a * b
            if ta == B and tb == B:
                return r & 0xFF
            return wrap64(r)   # Zahl with Zahl or with a (zero-extended) Byte
        if op == "durch":
            x, y = float(a), float(b)
            if y == 0.0:
                if x == 0.0 or math.isnan(x):
                    return float("nan")
                return math.copysign(float("inf"), x) * (1.0 if math.copysign(1.0, y) > 0 else -1.0)
            return x / y
        if op == "modulo":
            if b == 0 or (a == -(1 << 63) and b == -1):
                raise ModelDomain("modulo domain")
            r = abs(a) % abs(b)
            return -r if a < 0 else r
        if op == "hoch":
            try:
                return math.pow(float(a), float(b))
            except (OverflowError, ValueError):
                raise ModelDomain("pow domain")
        if op == "wurzel":   # a-th root of b
            raise ModelDomain("roots are only used in differential checks")
        if op == "log":
            raise ModelDomain("log only in differential checks")
        if op in ("lund", "loder", "lkontra"):
            r = a & b if op == "lund" else a | b if op == "loder" else a ^ b
            return r & 0xFF if (ta == B and tb == B) else wrap64(r)
        if op in ("links", "rechts"):
            width = 64 if ta == Z else 8
            if not (0 <= b < width):
                raise ModelDomain("shift domain")
            if ta == Z:
                u = a & ((1 << 64) - 1)
                return wrap64(u << b) if op == "links" else wrap64(u >> b)
            return (a << b) & 0xFF if op == "links" else (a >> b)
        if op in ("gleich", "ungleich"):
            if ta == K and (math.isnan(a) or math.isnan(b)):
                raise ModelDomain("NaN comparison")
            r = (a == b)
            return r if op == "gleich" else not r
        if op in ("kleiner", "groesser", "kleinergleich", "groessergleich"):
            if (ta == K and math.isnan(a)) or (tb == K and math.isnan(b)):
                raise ModelDomain("NaN comparison")
            if K in (ta, tb):      # a Zahl/Byte operand is converted to Kommazahl first (rounding to nearest), not compared exactly
                a, b = float(a), float(b)
            return {"kleiner": a < b, "groesser": a > b, "kleinergleich": a <= b, "groessergleich": a >= b}[op]
        if op == "verkettet":
            if (isinstance(a, (str, list)) and len(a) > 4000) or (isinstance(b, (str, list)) and len(b) > 4000):
                raise ModelDomain("value size budget exceeded")   # keeps generated programs (and this model) small
            if e.ty == T:
                if (ta == C and a.cp == 0) or (tb == C and b.cp == 0):
                    raise ModelDomain("U+0000 cannot be stored in a Text")
                sa = chr(a.cp) if ta == C else a
                sb = chr(b.cp) if tb == C else b
                return sa + sb
            la = deep(a) if is_list(ta) else [deep(a)]
            lb = deep(b) if is_list(tb) else [deep(b)]
            return la + lb
        if op == "index":
            return deep(self.index(a, b, ta))
        if op == "ab":
            return self.slice(a, b, len(a))
        if op == "biszum":
            return self.slice(a, 1, b)
        raise ValueError(op)

    def cast(self, v, src, dst):
        if dst == V:
            return v if src == V else Any(src, deep(v))
        if src == V:
            if not isinstance(v, Any) or v.ty != dst:
                raise RuntimeErr("cast")
            return deep(v.v)
        if is_list(dst):
            if src == dst:
                return deep(v)
            return [deep(v)]
        if src == dst:
            return v
        if dst == Z:
            if src == K:
                return trunc_to_int64(v)
            if src == B:
                return v
            if src == W:
                return 1 if v else 0
            if src == C:
                return v.cp
            if src == T:
                s = v
                import re
                if not re.fullmatch(r"-?[0-9]{1,18}", s):
                    raise ModelDomain("text->int outside canonical form")
                return int(s)
        if dst == K:
            if src in (Z, B):
                return float(v)
            if src == T:
                import re
                if not re.fullmatch(r"-?[0-9]{1,15}(,[0-9]{1,15})?", v):
                    raise ModelDomain("text->float outside canonical form")
                return float(v.replace(",", "."))
        if dst == B:
            if src == Z:
                return v & 0xFF
            if src == K:
                t = trunc_to_int64(v)
                if not (0 <= t <= 255):
                    raise ModelDomain("float->byte out of range")
                return t
            if src == W:
                return 1 if v else 0
            if src == C:
                return v.cp & 0xFF
        if dst == W:
            if src in (Z, B):
                return v != 0
        if dst == C:
            if src == Z:
                if not (0 <= v < 0x110000) or 0xD800 <= v <= 0xDFFF:
                    raise ModelDomain("int->char not a scalar value")
                return Char(v)
            if src == B:
                return Char(v)
        if dst == T:
            if src == Z or src == B:
                return str(v)
            if src == K:
                return fmt_float_cast(v)
            if src == W:
                return "wahr" if v else "falsch"
            if src == C:
                if v.cp == 0:
                    raise ModelDomain("U+0000 cannot be stored in a Text")
                return chr(v.cp)
        raise ModelDomain("cast %r -> %r" % (src, dst))

    def call(self, c, env):
        f = c.fn
        self.depth += 1
        if self.depth > 200:
            raise ModelDomain("recursion too deep")
        frame = {"__parent__": None}
        # arguments are evaluated left to right; value parameters are copied, Referenz parameters alias the location
        for p, a in zip(f.params, c.args):
            if p.ref:
                frame[p.name] = self.loc(a, env)
            else:
                frame[p.name] = deep(self.conv(self.eval(a, env), a.ty, p.ty))
        ret = None
        try:
            self.block(f.body, frame, new_scope=False)
        except _Return as r:
            ret = r.v
        self.depth -= 1
        if f.ret != NICHTS and ret is None:
            raise ModelDomain("function fell off its end")
        return ret

    # ---- statements
    def block(self, body, env, new_scope=True):
        scope = {"__parent__": env} if new_scope else env
        for s in body:
            self.exec(s, scope)

    def exec(self, s, env):
        self.tick()
        if isinstance(s, Decl):
            if s.repeat is not None:
                n = self.eval(s.repeat[0], env)
                v = self.eval(s.repeat[1], env)
                if n < 0 or n > 2000:
                    raise ModelDomain("list repeat count")
                val = [deep(v) for _ in range(n)]
            else:
                val = deep(self.conv(self.eval(s.init, env), s.init.ty, s.ty))
            env[s.name] = val
            return
        if isinstance(s, Assign):
            v = self.eval(s.e, env)
            loc = self.loc(s.target, env)
            loc.set(deep(self.conv(v, s.e.ty, s.target.ty)))
            return
        if isinstance(s, Compound):
            tt = s.target.ty
            opmap = {"erhoehe": "plus", "verringere": "minus", "vervielfache": "mal", "teile": "durch", "links": "links", "rechts": "rechts"}
            if s.op == "negiere":
                loc = self.loc(s.target, env)
                cur = loc.get()
                if tt == W:
                    loc.set(not cur)
                elif tt == K:
                    loc.set(-cur)
                elif tt == Z:
                    loc.set(wrap64(-cur))
                else:
                    raise ModelDomain("negiere " + str(tt))
                return
            # x = x op e ; result converted back to the target's type
            be = Bin(opmap[s.op], s.target, s.e, None)
            rt = self.result_type(opmap[s.op], tt, s.e.ty)
            be.ty = rt
            v = self.binop(be, env)
            loc = self.loc(s.target, env)
            loc.set(self.conv(v, rt, tt))
            return
        if isinstance(s, If):
            for cond, body in s.arms:
                if self.eval(cond, env):
                    self.block(body, env)
                    return
            if s.els is not None:
                self.block(s.els, env)
            return
        if isinstance(s, While):
            while self.eval(s.cond, env):
                try:
                    self.block(s.body, env)
                except _Break:
                    break
                except _Continue:
                    continue
            return
        if isinstance(s, DoWhile):
            while True:
                try:
                    self.block(s.body, env)
                except _Break:
                    break
                except _Continue:
                    pass
                if not self.eval(s.cond, env):
                    break
            return
        if isinstance(s, Repeat):
            n = self.eval(s.count, env)
            if n < 0:
                raise ModelDomain("negative repeat count")
            for _ in range(n):
                try:
                    self.block(s.body, env)
                except _Break:
                    break
                except _Continue:
                    continue
            return
        if isinstance(s, ForCount):
            frm = self.conv(self.eval(s.frm, env), s.frm.ty, s.ty)
            scope = {"__parent__": env, s.var: frm}
            while True:
                self.tick()
                step = 1 if s.step is None else self.eval(s.step, scope)
                to = self.eval(s.to, scope)
                i = scope[s.var]
                if (step > 0 and not i <= to) or (step < 0 and not i >= to) or step == 0:
                    if step == 0:
                        raise ModelDomain("step 0")
                    break
                try:
                    self.block(s.body, scope)
                except _Break:
                    break
                except _Continue:
                    pass
                i = scope[s.var]
                if s.ty == K:
                    scope[s.var] = float(i) + float(step)
                elif s.ty == Z:
                    nxt = i + step
                    if not (-(1 << 63) <= nxt < (1 << 63)):
                        raise ModelDomain("loop counter overflow")
                    scope[s.var] = nxt
                else:
                    raise ModelDomain("loop counter type")
            return
        if isinstance(s, ForEach):
            coll = self.eval(s.coll, env)
            coll = deep(coll)
            k = 0
            for item in (list(coll) if not isinstance(coll, str) else [Char(ord(ch)) for ch in coll]):
                k += 1
                scope = {"__parent__": env, s.var: deep(item)}
                if s.index:
                    scope[s.index] = k
                try:
                    self.block(s.body, scope)
                except _Break:
                    break
                except _Continue:
                    continue
            return
        if isinstance(s, Break):
            raise _Break()
        if isinstance(s, Continue):
            raise _Continue()
        if isinstance(s, Return):
            if s.e is None:
                raise _Return(None)
            raise _Return(deep(self.conv(self.eval(s.e, env), s.e.ty, self.cur_ret)))
        if isinstance(s, ExprStmt):
            self.eval(s.e, env)
            return
        if isinstance(s, Print):
            v = self.eval(s.e, env)
            self.out.append(show(v, s.e.ty) + ("\n" if s.nl else ""))
            return
        if isinstance(s, Todo):
            raise RuntimeErr("todo")
        if isinstance(s, Raw):
            if s.effect:
                s.effect(self, env)
            return
        raise ValueError(type(s))

    def result_type(self, op, ta, tb):
        if op in ("plus", "minus", "mal"):
            if K in (ta, tb):
                return K
            if ta == B and tb == B:
                return B
            return Z
        if op == "durch":
            return K
        if op in ("links", "rechts"):
            return ta
        raise ValueError(op)

    def run(self):
        """returns (stdout, exit_status, runtime_error_kind or None)"""
        self.cur_ret = None
        err = None
        # patch call to track current return type
        try:
            self.block(self.prog.main, self.globals, new_scope=False)
        except RuntimeErr as e:
            err = e.kind
        return "".join(self.out), (1 if err else 0), err


# Return needs the declared return type of the enclosing function: wrap call()
_orig_call = Evaluator.call


def _call(self, c, env):
    saved = getattr(self, "cur_ret", None)
    self.cur_ret = c.fn.ret
    try:
        return _orig_call(self, c, env)
    finally:
        self.cur_ret = saved


Evaluator.call = _call
