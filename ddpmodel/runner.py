"""compile a ddpmodel Program with the real kddp, run it, compare with the reference evaluator"""
import os
import re
import tempfile

import vlib
from ddpmodel import Printer, Evaluator, ModelDomain


def expected(prog):
    """(stdout, exit status, runtime error kind) by the reference evaluator; raises ModelDomain if outside the model"""
    return Evaluator(prog).run()


def compile_class(err):
    m = re.search(r"Unerwarteter Fehler: \w+\([^)]*\)(?:\))?: (.*)", err)
    if m:
        msg = m.group(1).split("\n")[0]
        msg = re.sub(r"0x[0-9a-f]+|\d+", "N", msg)
        return "internal: " + msg[:120]
    m = re.search(r"(\w+ Fehler) \((\d+)\)", err)
    if m:
        return "diagnostic %s" % m.group(2)
    if "Fehler beim Linken" in err:
        return "link"
    if "could not parse llvm ir" in err or "Fehler beim Parsen" in err:
        return "llvm rejects ir"
    return "other: " + err.strip().split("\n")[0][:100]


def run_real(prog, workdir, O=1, name="m", src=None, compile_extra=None, gcc_opts=None):
    os.makedirs(workdir, exist_ok=True)
    src = src if src is not None else Printer(prog).program()
    sp = os.path.join(workdir, name + ".ddp")
    with open(sp, "w") as f:
        f.write(src)
    exe = os.path.join(workdir, "%s_O%d" % (name, O))
    if os.path.exists(exe):
        os.unlink(exe)
    c = vlib.kddp_compile(sp, exe, O=O, gcc_opts=gcc_opts, extra=compile_extra)
    if c.timed_out:
        return {"status": "inconclusive", "why": "kddp wall clock"}
    if c.rc != 0 or not os.path.exists(exe):
        return {"status": "compile", "class": compile_class(c.err), "stderr": c.err[-4000:], "src": src}
    r = vlib.run_exe(exe)
    if r.timed_out:
        return {"status": "inconclusive", "why": "program wall clock"}
    return {"status": "ran", "out": r.out, "rc": r.rc, "err": r.err[:2000], "cpu_killed": r.cpu_killed, "src": src, "exe": exe}


def judge(prog, workdir, O=1, exp=None):
    """returns (cls, detail dict). cls: ok | compile:<class> | crash:<what> | diff | rterr-missing | rterr-unexpected | inconclusive"""
    if exp is None:
        exp = expected(prog)
    res = run_real(prog, workdir, O=O)
    res["expected"] = {"out": exp[0], "rc": exp[1], "rt": exp[2]}
    if res["status"] == "inconclusive":
        return "inconclusive", res
    if res["status"] == "compile":
        return "compile:" + res["class"], res
    rc, out, err = res["rc"], res["out"], res["err"]
    if rc < 0 or res.get("cpu_killed"):
        return "crash:signal %d" % -rc, res
    is_rt = "Laufzeitfehler" in err
    if is_rt and "Segmentation fault" in err:
        return "crash:segfault", res
    if is_rt and "out of memory" in err:
        return "crash:out of memory", res
    if exp[2] is None:
        if is_rt or rc != 0:
            return "rterr-unexpected", res
    else:
        if not is_rt or rc != 1:
            return "rterr-missing", res
    if out != exp[0]:
        return "diff", res
    return "ok", res
