"""Seeded, typed generators over ddpmodel's AST. Generation is 'generate and filter by the model':
every top-level statement is executed by a live reference evaluator while the program is built;
a statement that leaves the model's domain (ModelDomain) is discarded, so the emitted program
stays inside the sub-language on which the oracle is authoritative."""
import copy
import math

from ddpmodel import *

POOL = {
    Z: [0, 1, -1, 2, 3, 7, -7, 10, 100, 255, 256, 2 ** 31, -2 ** 31, 2 ** 63 - 1, -2 ** 63, 2 ** 53 + 1, 12345678901],
    K: [0.0, 0.5, 1.5, -2.5, 0.1, 3.0, 100.0, 1e15, 0.25, -1.0, 2.0, 1234.5678, 1 / 3],
    B: [0, 1, 7, 127, 128, 200, 255],
    W: [True, False],
    C: [Char(c) for c in "aZä€😀\"'\\\n0 "],
    T: ["", "a", "abc", "äöü", "a€😀b", 'q"q', "x\\y", "zwei\nzeilen", "Hallo Welt", "😀", "aaa", "abcdefghijklmnop"],
}
LIST_LENS = [0, 1, 2, 3, 5, 8, 9, 12, 13]


class Scope:
    def __init__(self, parent=None):
        self.vars = []  # (name, ty, mutable)
        self.parent = parent

    def all(self):
        s, out = self, []
        while s is not None:
            out += s.vars
            s = s.parent
        return out


class Gen:
    def __init__(self, rnd, with_struct=True, with_any=True):
        self.r = rnd
        self.prog = Program()
        self.ev = Evaluator(self.prog)
        self.scope = Scope()
        self.n = 0
        self.cells = set()
        self.obs = 0
        self.struct_ty = None
        self.types = list(PRIMS) + [L(t) for t in PRIMS]
        if with_struct:
            self.struct_ty = S("Punkt")
            self.prog.items.append(StructDecl("Punkt", [("x", Z, Lit(Z, 0)), ("name", T, Lit(T, "p")), ("werte", L(Z), ListLit(L(Z), []))]))
            self.types += [self.struct_ty, L(self.struct_ty)]
        if with_any:
            self.types.append(V)
        self.in_function = False
        self.loop_depth = 0

    # ---------------------------------------------------------- names and literals
    def fresh(self, prefix="v"):
        self.n += 1
        return "%s%d" % (prefix, self.n)

    def lit(self, ty):
        r = self.r
        if ty in POOL:
            return Lit(ty, r.choice(POOL[ty]))
        if is_list(ty):
            n = r.choice(LIST_LENS) if r.random() < 0.5 else r.randint(0, 4)
            if is_struct(ty[1]) or ty[1] == V:
                n = min(n, 3)
            return ListLit(ty, [self.lit(ty[1]) for _ in range(n)])
        if is_struct(ty):
            if r.random() < 0.2:
                return StructLit(ty, [])
            return StructLit(ty, [self.lit(Z), self.lit(T), self.lit(L(Z))])
        if ty == V:
            inner = r.choice([Z, K, W, C, T, L(Z), L(T)] + ([self.struct_ty] if self.struct_ty else []))
            return Cast(self.lit(inner), V)
        raise ValueError(ty)

    def vars_of(self, ty, mutable=False):
        return [v for v in self.scope.all() if v[1] == ty and (v[2] or not mutable)]

    def leaf(self, ty):
        vs = self.vars_of(ty)
        if vs and self.r.random() < 0.6:
            n, t, _ = self.r.choice(vs)
            return Var(n, t)
        return self.lit(ty)

    def small_index(self, hi=6):
        return Lit(Z, self.r.randint(1, hi))

    # ---------------------------------------------------------- expressions
    def expr(self, ty, d):
        """random expression of static type ty, depth <= d"""
        r = self.r
        if d <= 0 or r.random() < 0.15:
            return self.leaf(ty)
        self_expr = lambda t: self.expr(t, d - 1)
        choices = []
        if ty == Z:
            choices = ["arith", "arith", "neg", "betrag", "mod", "bit", "shift", "lnicht", "len", "cast", "falls", "index", "field", "call", "unany"]
        elif ty == K:
            choices = ["arith", "arith", "div", "neg", "betrag", "cast", "falls", "pow", "index"]
        elif ty == B:
            choices = ["arith", "bit", "shift", "lnicht", "cast", "falls", "mod"]
        elif ty == W:
            choices = ["cmp", "cmp", "eq", "eq", "logic", "logic", "nicht", "zwischen", "cast", "falls", "xor", "typecheck"]
        elif ty == C:
            choices = ["index", "cast", "falls", "index"]
        elif ty == T:
            choices = ["concat", "concat", "slice", "cast", "falls", "ab", "biszum", "index", "field", "unany"]
        elif is_list(ty):
            choices = ["concat", "concat", "slice", "cast", "falls", "ab", "biszum", "field", "lit"]
        elif is_struct(ty):
            choices = ["lit", "falls", "index", "unany"]
        elif ty == V:
            choices = ["lit", "falls"]
        c = r.choice(choices)
        self.cells.add((c, str(ty)))
        if c == "lit":
            return self.lit(ty)
        if c == "arith":
            op = r.choice(["plus", "minus", "mal"])
            if ty == K:
                ta, tb = r.choice([(K, K), (K, Z), (Z, K), (K, B), (B, K), (K, K)])
            elif ty == Z:
                ta, tb = r.choice([(Z, Z), (Z, Z), (Z, B), (B, Z)])
            else:
                ta = tb = ty
            return Bin(op, self_expr(ta), self_expr(tb), ty)
        if c == "div":
            return Bin("durch", self_expr(r.choice(NUM)), self_expr(r.choice(NUM)), K)
        if c == "pow":
            return Bin("hoch", Lit(Z, r.randint(0, 6)), Lit(Z, r.randint(0, 8)), K)
        if c == "neg":
            return Un("neg", self_expr(ty), ty)
        if c == "betrag":
            return Un("betrag", self_expr(ty), ty)
        if c == "mod":
            return Bin("modulo", self_expr(ty), self_expr(ty), ty)
        if c == "bit":
            ta, tb = (ty, ty) if ty == B else r.choice([(Z, Z), (Z, B), (B, Z)])
            return Bin(r.choice(["lund", "loder", "lkontra"]), self_expr(ta), self_expr(tb), ty)
        if c == "shift":
            amount = Lit(r.choice([Z, B]), r.randint(0, 63 if ty == Z else 7))
            return Bin(r.choice(["links", "rechts"]), self_expr(ty), amount, ty)
        if c == "lnicht":
            return Un("lnicht", self_expr(ty), ty)
        if c == "len":
            return Un("laenge", self_expr(r.choice([T, L(Z), L(T), L(K)])), Z)
        if c == "cmp":
            ta, tb = r.choice([(Z, Z), (K, K), (B, B), (Z, K), (K, Z), (B, K), (Z, B), (B, Z)])
            return Bin(r.choice(["kleiner", "groesser", "kleinergleich", "groessergleich"]), self_expr(ta), self_expr(tb), W)
        if c == "eq":
            t = r.choice(self.types)
            return Bin(r.choice(["gleich", "ungleich"]), self_expr(t), self.mutate_copy(self_expr(t), t), W) if r.random() < 0.4 else \
                Bin(r.choice(["gleich", "ungleich"]), self_expr(t), self_expr(t), W)
        if c == "logic":
            return Bin(r.choice(["und", "oder"]), self_expr(W), self_expr(W), W)
        if c == "xor":
            return Bin("xor", self_expr(W), self_expr(W), W)
        if c == "nicht":
            return Un("nicht", self_expr(W), W)
        if c == "zwischen":
            t = r.choice([Z, K])
            return Ter("zwischen", self_expr(t), self_expr(t), self_expr(t), W)
        if c == "typecheck":
            return TypeCheck(self_expr(V), r.choice([Z, K, W, C, T, L(Z)]), r.random() < 0.3)
        if c == "falls":
            return Ter("falls", self_expr(ty), self_expr(W), self_expr(ty), ty)
        if c == "index":
            if ty == C:
                return Bin("index", self_expr(T), self.small_index(4), C)
            return Bin("index", self_expr(L(ty)), self.small_index(3), ty)
        if c == "field":
            if self.struct_ty is None:
                return self.leaf(ty)
            fname = {Z: "x", T: "name", L(Z): "werte"}.get(ty)
            if fname is None:
                return self.leaf(ty)
            return Field(self_expr(self.struct_ty), fname, ty)
        if c == "unany":
            return Cast(Cast(self_expr(ty), V), ty)
        if c == "concat":
            if ty == T:
                ta, tb = r.choice([(T, T), (T, C), (C, T), (T, T)])
                return Bin("verkettet", self_expr(ta), self_expr(tb), T)
            e = ty[1]
            # Text verkettet mit Text is a Text, not a Text Liste: no element-element form for Text lists
            ta, tb = r.choice([(ty, ty), (ty, e), (e, ty)] + ([(e, e)] if e != T else []))
            return Bin("verkettet", self_expr(ta), self_expr(tb), ty)
        if c == "slice":
            return Ter("slice", self_expr(ty), Lit(Z, r.randint(-1, 5)), Lit(Z, r.randint(0, 9)), ty)
        if c == "ab":
            return Bin("ab", self_expr(ty), Lit(Z, r.randint(0, 5)), ty)
        if c == "biszum":
            return Bin("biszum", self_expr(ty), Lit(Z, r.randint(0, 9)), ty)
        if c == "cast":
            srcs = {Z: [K, B, W, C, T], K: [Z, B, T], B: [Z, K], W: [Z, B], C: [Z, B], T: [Z, K, B, W, C]}
            if is_list(ty):
                return Cast(self_expr(ty[1]), ty)
            src = r.choice(srcs[ty])
            if src == T:   # only canonical decimal texts are in the model's domain
                return Cast(Lit(T, str(r.randint(-999, 99999)) if ty == Z else ("%d,%d" % (r.randint(0, 999), r.randint(0, 99)))), ty)
            if ty == C and src == Z:
                return Cast(Lit(Z, r.choice([65, 228, 8364, 128512, 48, 10])), C)
            return Cast(self_expr(src), ty)
        if c == "call":
            fs = [f for f in self.prog.funcs if f.ret == ty and not any(p.ref for p in f.params)]
            if not fs:
                return self.leaf(ty)
            f = r.choice(fs)
            return Call(f, [self.expr(p.ty, d - 1) for p in f.params], ty)
        raise ValueError(c)

    def mutate_copy(self, e, t):
        """an expression of the same type that is 'almost' e (for equality cells): same value or one element changed"""
        r = self.r
        if is_list(t) and isinstance(e, ListLit) and e.elems:
            el = list(e.elems)
            k = r.randrange(len(el))
            how = r.random()
            if how < 0.4:
                el[k] = self.lit(t[1])
            elif how < 0.6:
                el = el[:-1]
            return ListLit(t, el)
        return copy.copy(e)

    # ---------------------------------------------------------- live execution helpers
    def snapshot(self):
        return (copy.deepcopy(self.ev.globals), len(self.ev.out), self.ev.steps)

    def restore(self, snap):
        self.ev.globals.clear()
        self.ev.globals.update(snap[0])
        del self.ev.out[snap[1]:]
        self.ev.steps = snap[2]

    def try_top(self, stmts, allow_rt=False):
        """execute statements at top level in the live evaluator; keep them only if they stay in the model's domain"""
        snap = self.snapshot()
        vars_before = list(self.scope.vars)
        try:
            for s in stmts:
                self.ev.exec(s, self.ev.globals)
        except ModelDomain:
            self.restore(snap)
            self.scope.vars = vars_before
            return False
        except RuntimeErr:
            if not allow_rt:
                self.restore(snap)
                self.scope.vars = vars_before
                return False
            self.prog.items += stmts
            return "rt"
        except (_BreakOut,):
            self.restore(snap)
            return False
        self.prog.items += stmts
        return True

    def observe(self, e, tag=None):
        """tagged observation of an expression value: `#<n>:<value>`"""
        self.obs += 1
        tag = tag or str(self.obs)
        stmts = [Print(Lit(T, "#%s:" % tag), False)] + self.print_value(e)
        return stmts

    def print_value(self, e):
        ty = e.ty
        if ty in PRIMS or (is_list(ty) and ty[1] in PRIMS):
            return [Print(e, True)]
        if is_struct(ty):
            v = self.fresh("s")
            return [Decl(v, ty, e), Print(Field(Var(v, ty), "x", Z), False), Print(Lit(T, "/"), False), Print(Field(Var(v, ty), "name", T), False),
                    Print(Lit(T, "/"), False), Print(Field(Var(v, ty), "werte", L(Z)), True)]
        if is_list(ty) and is_struct(ty[1]):
            v, it = self.fresh("sl"), self.fresh("it")
            return [Decl(v, ty, e), Print(Un("laenge", Var(v, ty), Z), False),
                    ForEach(it, ty[1], Var(v, ty), [Print(Lit(T, "["), False), Print(Field(Var(it, ty[1]), "x", Z), False), Print(Lit(T, "/"), False),
                                                    Print(Field(Var(it, ty[1]), "name", T), False), Print(Lit(T, "/"), False),
                                                    Print(Field(Var(it, ty[1]), "werte", L(Z)), False), Print(Lit(T, "]"), False)]),
                    Print(Lit(T, ""), True)]
        if ty == V:
            v = self.fresh("a")
            out = [Decl(v, V, e)]
            arms = []
            for t in [Z, K, W, C, T, L(Z), L(T)]:
                arms.append((TypeCheck(Var(v, V), t), [Print(Lit(T, type_name(t) + "="), False), Print(Cast(Var(v, V), t), True)]))
            if self.struct_ty:
                arms.append((TypeCheck(Var(v, V), self.struct_ty), [Print(Lit(T, "Punkt="), False), Print(Field(Cast(Var(v, V), self.struct_ty), "x", Z), True)]))
            out.append(If(arms, [Print(Lit(T, "anderes"), True)]))
            return out
        raise ValueError(ty)

    def declare(self, ty, init=None, mutable=True, name=None):
        name = name or self.fresh()
        init = init if init is not None else self.lit(ty)
        if self.try_top([Decl(name, ty, init)]):
            self.scope.vars.append((name, ty, mutable))
            return Var(name, ty)
        return None


class _BreakOut(Exception):
    pass


class StmtGen(Gen):
    """random statement programs: nested control flow, loops of every form, functions with value and
    Referenz parameters, early exits. Blocks are generated with their own lexical scope."""

    def mutable_targets(self, ty=None):
        out = []
        for (n, t, m) in self.scope.all():
            if m and (ty is None or t == ty):
                out.append(Var(n, t))
        return out

    def target(self):
        """a random assignable: variable, list element, text character, struct field (with its static type)"""
        r = self.r
        ts = self.mutable_targets()
        if not ts:
            return None
        v = r.choice(ts)
        roll = r.random()
        if is_list(v.ty) and roll < 0.4:
            return Bin("index", v, self.small_index(3), v.ty[1])
        if v.ty == T and roll < 0.4:
            return Bin("index", v, self.small_index(3), C)
        if is_struct(v.ty) and roll < 0.6:
            f = r.choice([("x", Z), ("name", T), ("werte", L(Z))])
            fe = Field(v, f[0], f[1])
            if f[0] == "werte" and r.random() < 0.4:
                return Bin("index", fe, self.small_index(2), Z)
            return fe
        return v

    def simple_stmt(self, d):
        r = self.r
        k = r.random()
        if k < 0.25:
            t = self.target()
            if t is not None:
                return [Assign(t, self.expr(t.ty, d))]
        if k < 0.4:
            t = self.target()
            if t is not None and t.ty in (Z, K, B):
                op = r.choice(["erhoehe", "verringere", "vervielfache"] + (["teile"] if t.ty == K else []) + (["negiere"] if t.ty in (Z, K) else []))
                if op == "negiere":
                    return [Compound(op, t)]
                operand_ty = t.ty if t.ty != K else r.choice([K, Z])
                return [Compound(op, t, self.expr(operand_ty, 1))]
            if t is not None and t.ty == W:
                return [Compound("negiere", t)]
        if k < 0.55:
            ty = r.choice(self.types)
            name = self.fresh()
            st = [Decl(name, ty, self.expr(ty, d))]
            self.scope.vars.append((name, ty, True))
            return st
        if k < 0.62:
            # numeric conversion on initialisation
            src, dst = r.choice([(Z, K), (K, Z), (Z, B), (B, Z), (B, K), (K, B)])
            name = self.fresh()
            st = [Decl(name, dst, self.expr(src, 1))]
            self.scope.vars.append((name, dst, True))
            return st
        if k < 0.76 and self.prog.funcs:
            f = r.choice(self.prog.funcs)
            args = self.call_args(f, d)
            if args is not None:
                c = Call(f, args, f.ret)
                return [ExprStmt(c)] if f.ret == NICHTS else self.observe(c)
        ty = r.choice(self.types)
        return self.observe(self.expr(ty, d))

    def call_args(self, f, d):
        args = []
        for p in f.params:
            if p.ref:
                ts = self.mutable_targets(p.ty)
                if not ts:
                    return None
                args.append(self.r.choice(ts))
            else:
                # a plain variable as by-value argument of a heap type is what copy elision looks at
                vs = [n for n, t, _ in self.scope.all() if t == p.ty] if (p.ty not in PRIMS or p.ty == T) else []
                if vs and self.r.random() < 0.5:
                    args.append(Var(self.r.choice(vs), p.ty))
                else:
                    args.append(self.expr(p.ty, max(0, d - 1)))
        return args

    def block(self, n, d, nest):
        """n statements, expression depth d, nesting budget nest"""
        saved = self.scope
        self.scope = Scope(saved)
        out = []
        for _ in range(n):
            out += self.stmt(d, nest)
        if self.in_function and self.loop_depth > 0 and self.r.random() < 0.15:
            # an unconditional return as the LAST statement of a loop body (or of a block inside one): the loop's own
            # clean-up code follows a block that has already returned
            out.append(self.ret_stmt(d))
            self.cells.add(("stmt", "return-ends-block-in-loop", self.loop_depth))
        self.scope = saved
        return out

    def stmt(self, d, nest):
        r = self.r
        if nest <= 0 or r.random() < 0.45:
            return self.simple_stmt(d)
        k = r.choice(["if", "if", "while", "dowhile", "repeat", "forcount", "forcount", "foreach", "foreach", "exit", "loopctl", "loopctl"])
        self.cells.add(("stmt", k, nest))
        if k == "loopctl":
            return self.loopctl()
        if k == "if":
            arms = [(self.expr(W, d), self.block(r.randint(1, 3), d, nest - 1)) for _ in range(r.randint(1, 3))]
            els = self.block(r.randint(1, 2), d, nest - 1) if r.random() < 0.6 else None
            return [If(arms, els, inline=r.random() < 0.25)]
        if k == "exit":
            if self.loop_depth > 0:
                return [If([(self.expr(W, 1), [r.choice([Break(), Continue()])])])]
            if self.in_function:
                return [If([(self.expr(W, 1), [self.ret_stmt(d)])])]
            return self.simple_stmt(d)
        if k in ("while", "dowhile"):
            c = self.fresh("c")
            lim = r.randint(0, 4)
            self.loop_depth += 1
            saved = self.scope
            self.scope = Scope(saved)
            self.scope.vars.append((c, Z, False))
            body = [Compound("erhoehe", Var(c, Z), Lit(Z, 1))] + self.block(r.randint(1, 3), d, nest - 1)
            self.scope = saved
            self.loop_depth -= 1
            cond = Bin("kleiner", Var(c, Z), Lit(Z, lim), W)
            if r.random() < 0.3:
                cond = Bin("und", cond, self.expr(W, 1), W)
            loop = While(cond, body) if k == "while" else DoWhile(cond, body)
            # the counter lives in an enclosing block so that the loop sees it
            return [If([(Lit(W, True), [Decl(c, Z, Lit(Z, 0)), loop])])]
        if k == "repeat":
            self.loop_depth += 1
            body = self.block(r.randint(1, 2), d, nest - 1)
            self.loop_depth -= 1
            return [Repeat(r.choice([Lit(Z, r.randint(0, 3)), Un("laenge", self.expr(L(Z), 1), Z)]), body)]
        if k == "forcount":
            v = self.fresh("i")
            ty = r.choice([Z, Z, K])
            if ty == Z:
                frm, to = r.randint(-3, 5), r.randint(-3, 8)
                step = r.choice([None, 1, 2, 3, -1, -2, 7])
                if step is not None and step < 0:
                    frm, to = max(frm, to), min(frm, to)
                mk = lambda x: Lit(Z, x)
            else:
                frm, to = r.choice([0.0, 1.0, 0.5]), r.choice([2.0, 3.5, 0.0])
                step = r.choice([None, 0.5, 1.5, 0.75])
                mk = lambda x: Lit(K, x)
            self.loop_depth += 1
            saved = self.scope
            self.scope = Scope(saved)
            self.scope.vars.append((v, ty, False))
            body = self.block(r.randint(1, 3), d, nest - 1)
            self.scope = saved
            self.loop_depth -= 1
            to_e = mk(to)
            if ty == Z and r.random() < 0.3:
                to_e = Un("laenge", self.expr(L(Z), 1), Z)
            elif ty == Z and r.random() < 0.3:
                # a Zahl counter against a Kommazahl end value that is not integral: compared as Kommazahlen (not truncated)
                to_e = Lit(K, float(to) + r.choice([0.5, -0.5, 0.25, -0.75]))
                self.cells.add(("stmt", "forcount-Zahl-counter-Kommazahl-end", 0))
            return [ForCount(v, ty, mk(frm), to_e, None if step is None else mk(step), body)]
        if k == "foreach":
            v = self.fresh("e")
            cty = r.choice([T, L(Z), L(T), L(K), L(C)] + ([L(self.struct_ty)] if self.struct_ty else []))
            ety = C if cty == T else cty[1]
            idx = self.fresh("ix") if r.random() < 0.4 else None
            self.loop_depth += 1
            saved = self.scope
            self.scope = Scope(saved)
            self.scope.vars.append((v, ety, True))
            if idx:
                self.scope.vars.append((idx, Z, False))
            body = self.block(r.randint(1, 3), d, nest - 1)
            self.scope = saved
            self.loop_depth -= 1
            return [ForEach(v, ety, self.expr(cty, 1), body, idx)]
        raise ValueError(k)

    def loopctl(self):
        """an outer loop of any kind whose body holds an inner loop of any kind, then an EXECUTED continue / break of the outer loop,
        then an observation: every visitor of a loop saves and restores the enclosing loop's continue and leave targets"""
        r = self.r
        okind = r.choice(["forcount", "while", "dowhile", "repeat", "foreach"])
        ikind = r.choice(["forcount", "while", "dowhile", "repeat", "foreach", "foreach_text"])
        ctl = r.choice(["continue", "continue", "break", "both"])
        self.cells.add(("loopctl", okind, ikind, ctl))
        pre, n = [], 4
        if okind in ("forcount", "foreach"):
            cn = self.fresh("i")
        else:
            cn = self.fresh("c")
            pre.append(Decl(cn, Z, Lit(Z, 0)))
        cnt = Var(cn, Z)
        # inner loop: prints a mark per round
        mark = [Print(Lit(T, r.choice([".", "+", "ä"])), False)]
        if ikind == "forcount":
            inner = [ForCount(self.fresh("j"), Z, Lit(Z, 1), Lit(Z, r.randint(0, 2)), None, mark)]
        elif ikind in ("while", "dowhile"):
            jn = self.fresh("c")
            body = [Compound("erhoehe", Var(jn, Z), Lit(Z, 1))] + mark
            cond = Bin("kleiner", Var(jn, Z), Lit(Z, r.randint(0, 2)), W)
            inner = [Decl(jn, Z, Lit(Z, 0)), While(cond, body) if ikind == "while" else DoWhile(cond, body)]
        elif ikind == "repeat":
            inner = [Repeat(Lit(Z, r.randint(0, 2)), mark)]
        elif ikind == "foreach":
            ety = r.choice([Z, T, K])
            inner = [ForEach(self.fresh("e"), ety, self.lit(L(ety)), mark, None)]
        else:
            inner = [ForEach(self.fresh("e"), C, Lit(T, r.choice(["ab", "äb", "", "x"])), mark, None)]
        odd = Bin("gleich", Bin("modulo", cnt, Lit(Z, 2), Z), Lit(Z, 1), W)
        stop = Bin("gleich", cnt, Lit(Z, 3), W)
        control = []
        if ctl in ("continue", "both"):
            control.append(If([(odd, [Continue()])]))
        if ctl in ("break", "both"):
            control.append(If([(stop if ctl == "break" else Bin("gleich", cnt, Lit(Z, 4), W), [Break()])]))
        tail = [Print(Lit(T, "#%d:" % (self.obs + 1)), False), Print(cnt, True)]
        self.obs += 1
        body = inner + control + tail
        if okind == "forcount":
            loop = ForCount(cn, Z, Lit(Z, 1), Lit(Z, n), None, body)
        elif okind == "foreach":
            loop = ForEach(cn, Z, ListLit(L(Z), [Lit(Z, x) for x in range(1, n + 1)]), body, None)
        elif okind == "repeat":
            loop = Repeat(Lit(Z, n), [Compound("erhoehe", cnt, Lit(Z, 1))] + body)
        else:
            cond = Bin("kleiner", cnt, Lit(Z, n), W)
            body = [Compound("erhoehe", cnt, Lit(Z, 1))] + body
            loop = While(cond, body) if okind == "while" else DoWhile(cond, body)
        return [If([(Lit(W, True), pre + [loop, Print(Lit(T, "ende"), True)])])]

    def ret_stmt(self, d):
        if self.cur_ret == NICHTS:
            return Return(None)
        return Return(self.expr(self.cur_ret, d))

    def function(self, d=2, nest=2):
        r = self.r
        name = self.fresh("f")
        nparams = r.randint(0, 3)
        params = []
        for i in range(nparams):
            pty = r.choice(self.types)
            params.append(Param("p%d_%s" % (i, name), pty, ref=r.random() < 0.35))
        ret = r.choice([NICHTS, Z, K, W, T, L(Z), L(T)] + ([self.struct_ty] if self.struct_ty else []))
        saved_scope, saved_fn, saved_loop = self.scope, self.in_function, self.loop_depth
        # a function body sees only globals declared so far (top-level scope) and its parameters
        top = self.scope
        while top.parent is not None:
            top = top.parent
        self.scope = Scope(None if getattr(self, "pure_funcs", False) else top)
        for p in params:
            self.scope.vars.append((p.name, p.ty, True))
        self.in_function, self.loop_depth, self.cur_ret = True, 0, ret
        body = self.block(r.randint(1, 4), d, nest)
        if ret != NICHTS:
            body.append(Return(self.expr(ret, d)))
        self.scope, self.in_function, self.loop_depth = saved_scope, saved_fn, saved_loop
        f = FuncDecl(name, params, ret, body)
        # the same function in another declaration form (forward declared / generic): other code paths of parser, analyses and code generator
        x = r.random()
        if x < 0.15 and params:
            f.form = "forward"
        elif x < 0.27:
            gtys = [p.ty for p in params if p.ty not in (Z, K, B)]      # numeric arguments convert implicitly: T would bind to the argument's type
            if gtys:
                f.form = ("generic", r.choice(gtys))
        if f.form is not None:
            self.cells.add(("function_form", f.form if isinstance(f.form, str) else "generic"))
        self.prog.items.append(f)
        return f

    def build(self, n_items=25, d=2, nest=2, n_funcs=2, pure_funcs=False):
        """a whole program: a few globals, functions, then top-level statements (each kept only if the model accepts it).
        pure_funcs: function bodies see their parameters only (then wrap_in_function(prog, allow_funcs=True) can turn every
        top-level variable into a local of one function while the calls stay)"""
        r = self.r
        self.pure_funcs = pure_funcs
        for ty in r.sample(self.types, min(len(self.types), 7)):
            self.declare(ty)
        for _ in range(n_funcs):
            self.function(d, nest)
            for ty in r.sample(self.types, 2):
                self.declare(ty)
        kept = 0
        tries = 0
        while kept < n_items and tries < n_items * 4:
            tries += 1
            vars_before = list(self.scope.vars)
            st = self.stmt(d, nest)
            ok = self.try_top(st)
            if ok:
                kept += 1
            else:
                self.scope.vars = vars_before
        return self.prog


def wrap_in_function(prog, name="haupt", allow_funcs=False):
    """move all top-level statements into one function (so that every variable is a LOCAL) and call it;
    only possible when the program declares no functions of its own (they could not see the variables any more)
    or when those functions were generated with pure_funcs (allow_funcs=True)"""
    if not allow_funcs and any(isinstance(it, FuncDecl) for it in prog.items):
        return False
    decls = [it for it in prog.items if isinstance(it, (StructDecl, FuncDecl) if allow_funcs else StructDecl)]
    stmts = [it for it in prog.items if not isinstance(it, (StructDecl, FuncDecl) if allow_funcs else StructDecl)]
    if not stmts:
        return False
    f = FuncDecl(name, [], NICHTS, stmts)
    prog.items[:] = decls + [f, ExprStmt(Call(f, [], NICHTS))]
    return True
