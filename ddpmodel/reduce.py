"""Greedy AST reducer: shrink a failing Program while a predicate (same failure class) keeps holding.
Used to turn a random failing program into a small witness whose shape can be named in a signature."""
import copy

from ddpmodel import *


def _blocks_of(s):
    """list of (getter, setter) for the statement lists nested in statement s"""
    out = []
    if isinstance(s, If):
        for k in range(len(s.arms)):
            out.append((lambda k=k: s.arms[k][1], lambda v, k=k: s.arms.__setitem__(k, (s.arms[k][0], v))))
        if s.els is not None:
            out.append((lambda: s.els, lambda v: setattr(s, "els", v)))
    elif isinstance(s, (While, DoWhile, Repeat, ForCount, ForEach)):
        out.append((lambda: s.body, lambda v: setattr(s, "body", v)))
    elif isinstance(s, FuncDecl):
        out.append((lambda: s.body, lambda v: setattr(s, "body", v)))
    return out


def _children(e):
    if isinstance(e, Un):
        return [e.e]
    if isinstance(e, Bin):
        return [e.a, e.b]
    if isinstance(e, Ter):
        return [e.a, e.b, e.c]
    if isinstance(e, (Cast, Field, TypeCheck)):
        return [e.e]
    if isinstance(e, (Call, StructLit)):
        return list(e.args)
    if isinstance(e, ListLit):
        return list(e.elems)
    return []


def _expr_slots(s):
    """(getter, setter) pairs for the expression slots of a statement (one level)"""
    slots = []
    def attr(o, name):
        if getattr(o, name, None) is not None and isinstance(getattr(o, name), Node):
            slots.append((lambda: getattr(o, name), lambda v: setattr(o, name, v)))
    if isinstance(s, Decl):
        attr(s, "init")
    elif isinstance(s, (Assign, Compound, ExprStmt, Print, Return)):
        attr(s, "e")
    elif isinstance(s, (While, DoWhile)):
        attr(s, "cond")
    elif isinstance(s, Repeat):
        attr(s, "count")
    elif isinstance(s, ForEach):
        attr(s, "coll")
    elif isinstance(s, If):
        for k in range(len(s.arms)):
            slots.append((lambda k=k: s.arms[k][0], lambda v, k=k: s.arms.__setitem__(k, (v, s.arms[k][1]))))
    return slots


def _sub_slots(e):
    """(getter, setter) for the direct sub-expressions of expression e"""
    out = []
    for name in ("e", "a", "b", "c"):
        if hasattr(e, name) and isinstance(getattr(e, name, None), Node):
            out.append((lambda n=name: getattr(e, n), lambda v, n=name: setattr(e, n, v)))
    if isinstance(e, (Call, StructLit)):
        for k in range(len(e.args)):
            out.append((lambda k=k: e.args[k], lambda v, k=k: e.args.__setitem__(k, v)))
    if isinstance(e, ListLit):
        for k in range(len(e.elems)):
            out.append((lambda k=k: e.elems[k], lambda v, k=k: e.elems.__setitem__(k, v)))
    return out


def reduce_program(prog, fails, max_tests=400):
    """fails(prog) -> bool. Returns a reduced deep copy for which fails() still holds."""
    prog = copy.deepcopy(prog)
    tests = [0]

    def check():
        tests[0] += 1
        if tests[0] > max_tests:
            return False
        try:
            return fails(prog)
        except Exception:
            return False

    def shrink_list(get, set_):
        """try to delete elements of a statement list, back to front, in chunks then singly"""
        changed = False
        n = len(get())
        chunk = max(1, n // 2)
        while chunk >= 1:
            i = len(get())
            while i > 0:
                lst = get()
                lo = max(0, i - chunk)
                cand = lst[:lo] + lst[i:]
                if len(cand) < len(lst):
                    set_(cand)
                    if check():
                        changed = True
                    else:
                        set_(lst)
                i = lo
            chunk //= 2
        return changed

    def hoist(get, set_):
        """replace a compound statement by the statements of one of its blocks"""
        changed = False
        i = 0
        while i < len(get()):
            lst = get()
            s = lst[i]
            done = False
            if not isinstance(s, FuncDecl):
                for bget, _ in _blocks_of(s):
                    cand = lst[:i] + list(bget()) + lst[i + 1:]
                    set_(cand)
                    if check():
                        changed = done = True
                        break
                    set_(lst)
            if not done:
                i += 1
        return changed

    def walk_blocks(get, set_, depth=0):
        changed = shrink_list(get, set_)
        if depth < 6:
            changed |= hoist(get, set_)
            for s in list(get()):
                for bget, bset in _blocks_of(s):
                    changed |= walk_blocks(bget, bset, depth + 1)
        return changed

    def shrink_expr(get, set_, depth=0):
        """replace an expression by a same-typed child, recursively"""
        changed = False
        e = get()
        for ch in _children(e):
            if getattr(ch, "ty", None) == getattr(e, "ty", None) and not isinstance(e, (Var, Lit)):
                set_(ch)
                if check():
                    return shrink_expr(get, set_, depth) or True
                set_(e)
        if depth < 8:
            for sget, sset in _sub_slots(e):
                changed |= shrink_expr(sget, sset, depth + 1)
        return changed

    def walk_exprs(get):
        changed = False
        for s in list(get()):
            for eget, eset in _expr_slots(s):
                changed |= shrink_expr(eget, eset)
            for bget, _ in _blocks_of(s):
                changed |= walk_exprs(bget)
        return changed

    top_get = lambda: prog.items
    top_set = lambda v: setattr(prog, "items", v)
    for _ in range(4):
        c = walk_blocks(top_get, top_set)
        c |= walk_exprs(top_get)
        if not c or tests[0] > max_tests:
            break
    return prog
