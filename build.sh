#!/bin/bash
# Rebuilds everything the checks need from /repo's *current working tree*:
#   build/DDP        install dir (kddp with verif hooks, runtime, stdlib, list defs, Duden)
#   build/DDP-asan   runtime+stdlib compiled with clang ASan+UBSan
#   build/locale     de_DE.UTF-8 locale shim (decimal comma)
#   build/bin/ddpprobe   Go worker linking the real front-end packages (-tags verif)
#   build/native/*   ledger.o etc.
# Incremental: keyed on a hash of the relevant source files; guarded by flock.
# usage: build.sh [--repo DIR] [--out DIR] [--no-asan] [--frontend-only]
set -euo pipefail
VERIF="$(cd "$(dirname "$0")" && pwd)"
REPO="${VERIF_REPO:-/repo}"
OUT="${VERIF_BUILD:-$VERIF/build}"
ASAN=1; FRONT=0
while [ $# -gt 0 ]; do case "$1" in
  --repo) REPO="$2"; shift 2;;
  --out) OUT="$2"; shift 2;;
  --no-asan) ASAN=0; shift;;
  --frontend-only) FRONT=1; shift;;
  *) echo "unknown arg $1" >&2; exit 2;; esac; done

export GOFLAGS=-mod=mod GOPROXY=off
unset GOSUMDB GOTOOLCHAIN || true
export GOCACHE="${GOCACHE:-$HOME/.cache/go-build}"
mkdir -p "$OUT"
exec 9>"$OUT/.lock"
flock 9

log() { echo "[build] $*" >&2; }
hash_of() { # hash of file contents of given paths (dirs recursed)
  (for p in "$@"; do if [ -d "$p" ]; then find "$p" -type f \( -name '*.go' -o -name '*.c' -o -name '*.h' -o -name '*.ddp' -o -name 'go.mod' -o -name '*.ll' \) -print0 | sort -z | xargs -0 sha1sum; elif [ -f "$p" ]; then sha1sum "$p"; fi; done) | sha1sum | cut -d' ' -f1
}
stamp_ok() { [ -f "$OUT/.stamp.$1" ] && [ "$(cat "$OUT/.stamp.$1")" = "$2" ]; }
stamp_set() { echo "$2" > "$OUT/.stamp.$1"; }

DDP="$OUT/DDP"
mkdir -p "$DDP/bin" "$DDP/lib" "$OUT/bin" "$OUT/native" "$OUT/obj"

# ---------------------------------------------------------------- probe (front end only, no cgo)
H=$(hash_of "$REPO/src" "$REPO/go.mod" "$VERIF/probe")
if ! stamp_ok probe "$H$REPO" || [ ! -x "$OUT/bin/ddpprobe" ]; then
  log "building ddpprobe"
  PM="$OUT/probe-mod"
  rm -rf "$PM"; mkdir -p "$PM"
  cp "$VERIF"/probe/*.go "$PM/"
  GOVER=$(awk '/^go /{print $2}' "$REPO/go.mod")
  cat > "$PM/go.mod" <<EOF
module ddpprobe

go $GOVER

require github.com/DDP-Projekt/Kompilierer v0.0.0

replace github.com/DDP-Projekt/Kompilierer => $REPO
EOF
  # carry over the repo's own requirements so that versions resolve offline
  awk '/^require \(/{f=1;next} f&&/^\)/{f=0} f{print "require " $0}' "$REPO/go.mod" >> "$PM/go.mod"
  cp "$REPO/go.sum" "$PM/go.sum"
  (cd "$PM" && CGO_ENABLED=0 go build -tags verif -o "$OUT/bin/ddpprobe" .)
  stamp_set probe "$H$REPO"
fi
[ "$FRONT" = 1 ] && exit 0

# ---------------------------------------------------------------- kddp
H=$(hash_of "$REPO/src" "$REPO/cmd" "$REPO/go.mod")
if ! stamp_ok kddp "$H$REPO" || [ ! -x "$DDP/bin/kddp" ]; then
  log "building kddp (-tags 'byollvm verif')"
  (cd "$REPO/cmd/kddp" && \
   CGO_CPPFLAGS="$(llvm-config-14 --cppflags)" CGO_CXXFLAGS=-std=c++14 \
   CGO_LDFLAGS="$(llvm-config-14 --ldflags --libs --system-libs all)" \
   go build -tags "byollvm verif" -o "$DDP/bin/kddp.new" . && mv -f "$DDP/bin/kddp.new" "$DDP/bin/kddp")
  stamp_set kddp "$H$REPO"
  rm -f "$OUT/.stamp.listdefs"
fi

# ---------------------------------------------------------------- runtime + stdlib (gcc, as the Makefiles do)
build_libs() { # $1 = dest dir, $2 = CC, $3.. = flags
  local dest="$1" cc="$2"; shift 2
  local obj="$OUT/obj/$(basename "$dest")"
  rm -rf "$obj"; mkdir -p "$obj/rt" "$obj/std" "$dest/lib"
  local pids=() f o
  for f in "$REPO"/lib/runtime/source/DDP/*.c "$REPO"/lib/runtime/source/DDP/*/*.c; do
    o="$obj/rt/$(basename "${f%.c}").o"
    $cc -c "$@" -std=c11 -D_POSIX_C_SOURCE=200809L -Wno-format -I"$REPO/lib/runtime/include" -o "$o" "$f" &
    pids+=($!)
  done
  $cc -c "$@" -std=c11 -D_POSIX_C_SOURCE=200809L -Wno-format -I"$REPO/lib/runtime/include" -o "$obj/main.o" "$REPO/lib/runtime/source/main.c" &
  pids+=($!)
  for f in "$REPO"/lib/stdlib/source/DDP/*.c; do
    case "$(basename "$f")" in regex.c|compression.c) continue;; esac
    o="$obj/std/$(basename "${f%.c}").o"
    $cc -c "$@" -std=c11 -D_POSIX_C_SOURCE=200809L -Wno-format -I"$REPO/lib/stdlib/include" -I"$REPO/lib/runtime/include" -o "$o" "$f" &
    pids+=($!)
  done
  local p; for p in "${pids[@]}"; do wait "$p"; done
  # archives are replaced atomically: checks may be compiling programs while a rebuild happens
  rm -f "$obj/libddpruntime.a" "$obj/libddpstdlib.a"
  ar rcs "$obj/libddpruntime.a" "$obj"/rt/*.o
  ar rcs "$obj/libddpstdlib.a" "$obj"/std/*.o
  mv -f "$obj/libddpruntime.a" "$dest/lib/libddpruntime.a"
  mv -f "$obj/libddpstdlib.a" "$dest/lib/libddpstdlib.a"
  mv -f "$obj/main.o" "$dest/lib/main.o"
  # empty stubs so that the linker's hard-coded -lpcre2-8 -larchive resolve
  [ -f "$dest/lib/libpcre2-8.a" ] || ar rcs "$dest/lib/libpcre2-8.a"
  [ -f "$dest/lib/libarchive.a" ] || ar rcs "$dest/lib/libarchive.a"
}
H=$(hash_of "$REPO/lib/runtime" "$REPO/lib/stdlib/source" "$REPO/lib/stdlib/include")
if ! stamp_ok libs "$H$REPO" || [ ! -f "$DDP/lib/libddpruntime.a" ]; then
  log "building runtime + stdlib (gcc -O2)"
  build_libs "$DDP" gcc -O2 -Wall
  stamp_set libs "$H$REPO"
fi
if [ "$ASAN" = 1 ]; then
  if ! stamp_ok libs-asan "$H$REPO" || [ ! -f "$OUT/DDP-asan/lib/libddpruntime.a" ]; then
    log "building runtime + stdlib (clang ASan+UBSan)"
    mkdir -p "$OUT/DDP-asan"
    build_libs "$OUT/DDP-asan" clang -O1 -g -fsanitize=address,undefined -fno-sanitize-recover=all -fno-omit-frame-pointer
    stamp_set libs-asan "$H$REPO"
  fi
fi

# headers + Duden
H=$(hash_of "$REPO/lib/stdlib/Duden" "$REPO/lib/runtime/include" "$REPO/lib/stdlib/include")
if ! stamp_ok duden "$H$REPO"; then
  log "copying Duden + headers"
  rm -rf "$DDP/Duden" "$DDP/lib/runtime" "$DDP/lib/stdlib"
  mkdir -p "$DDP/lib/runtime" "$DDP/lib/stdlib"
  cp -r "$REPO/lib/stdlib/Duden" "$DDP/Duden"
  cp -r "$REPO/lib/runtime/include" "$DDP/lib/runtime/include"
  cp -r "$REPO/lib/stdlib/include" "$DDP/lib/stdlib/include"
  # C sources that Duden modules may reference relative to lib/stdlib/source are not
  # needed: externs resolve against libddpstdlib.a
  stamp_set duden "$H$REPO"
fi

# list defs
if ! stamp_ok listdefs "$(cat "$OUT/.stamp.kddp")" || [ ! -f "$DDP/lib/ddp_list_types_defs.o" ]; then
  log "dumping list defs"
  rm -rf "$OUT/obj/listdefs"; mkdir -p "$OUT/obj/listdefs"
  (cd "$OUT/obj/listdefs" && DDPPATH="$DDP" "$DDP/bin/kddp" dump-list-defs -o ddp_list_types_defs --llvm-ir --object >/dev/null)
  mv -f "$OUT/obj/listdefs/ddp_list_types_defs.ll" "$DDP/lib/ddp_list_types_defs.ll"
  mv -f "$OUT/obj/listdefs/ddp_list_types_defs.o" "$DDP/lib/ddp_list_types_defs.o"
  stamp_set listdefs "$(cat "$OUT/.stamp.kddp")"
fi
if [ "$ASAN" = 1 ]; then
  for f in main.o ddp_list_types_defs.o ddp_list_types_defs.ll; do :; done
  cp -f "$DDP/lib/ddp_list_types_defs.o" "$DDP/lib/ddp_list_types_defs.ll" "$OUT/DDP-asan/lib/" 2>/dev/null || true
fi

# ---------------------------------------------------------------- locale shim
if [ ! -f "$OUT/locale/de_DE.UTF-8/LC_NUMERIC" ]; then
  log "creating locale shim"
  /usr/bin/python3 "$VERIF/lib/mklocale.py" "$OUT/locale"
fi

# ---------------------------------------------------------------- native helpers
H=$(hash_of "$VERIF/native" "$REPO/lib/runtime/include")$(cat "$OUT/.stamp.libs" 2>/dev/null)$ASAN
if ! stamp_ok native "$H$REPO"; then
  log "building native helpers"
  for f in "$VERIF"/native/*.c; do
    [ -f "$f" ] || continue
    b="$(basename "${f%.c}")"
    case "$b" in
      ledger) gcc -O1 -g -c -I"$REPO/lib/runtime/include" -o "$OUT/native/ledger.o" "$f";;
      rt_driver)
        if [ "$ASAN" = 1 ]; then
          clang -O1 -g -fsanitize=address,undefined -fno-sanitize-recover=all -fno-omit-frame-pointer \
            -I"$REPO/lib/runtime/include" -o "$OUT/native/rt_driver" "$f" "$OUT/DDP-asan/lib/libddpruntime.a" -lm
        fi
        gcc -O1 -g -I"$REPO/lib/runtime/include" -o "$OUT/native/rt_driver_plain" "$f" "$DDP/lib/libddpruntime.a" -lm;;
    esac
  done
  stamp_set native "$H$REPO"
fi
log "ok"
