// ddpprobe: worker process that exposes the real DDP front end (scanner, parser,
// resolver, typechecker, ddptypes, alias_trie) at its API boundary.
// It is always run as a sacrificial child of the Python supervisor.
package main

import (
	"bufio"
	"encoding/json"
	"fmt"
	"os"
	"runtime/debug"
)

var out = bufio.NewWriterSize(os.Stdout, 1<<16)

func emit(tag string, v any) {
	b, err := json.Marshal(v)
	if err != nil {
		b, _ = json.Marshal(map[string]string{"marshal_error": err.Error()})
	}
	fmt.Fprintf(out, "%s %s\n", tag, b)
	out.Flush()
}

func begin(id string) {
	fmt.Fprintf(out, "BEGIN %s\n", id)
	out.Flush()
}

func main() {
	// a recursion that needs more than 256 MiB of stack on inputs of a few KiB is
	// unbounded recursion; keeps stack overflows quick and clearly attributable
	debug.SetMaxStack(256 << 20)
	if len(os.Args) < 2 {
		fmt.Fprintln(os.Stderr, "usage: ddpprobe <serve|mutate|scancheck|types|trie> ...")
		os.Exit(2)
	}
	switch os.Args[1] {
	case "serve":
		serve()
	case "mutate":
		mutateMain(os.Args[2:])
	case "scancheck":
		scancheckMain(os.Args[2:])
	case "types":
		typesMain(os.Args[2:])
	case "trie":
		trieMain(os.Args[2:])
	default:
		fmt.Fprintln(os.Stderr, "unknown subcommand", os.Args[1])
		os.Exit(2)
	}
}

type request struct {
	Op      string   `json:"op"`
	ID      string   `json:"id"`
	File    string   `json:"file"`
	Mode    string   `json:"mode"`    // scan: "normal" | "alias"
	Dump    bool     `json:"dump"`    // parse: include AST dump
	N       int      `json:"n"`       // repeat: repetitions without perturbation
	Perturb []uint64 `json:"perturb"` // repeat: additional repetitions with these perturbation seeds
	CPUSec  float64  `json:"cpu_sec"` // per-case CPU budget (0 = default)
}

func serve() {
	in := bufio.NewScanner(os.Stdin)
	in.Buffer(make([]byte, 1<<20), 1<<26)
	for in.Scan() {
		var req request
		if err := json.Unmarshal(in.Bytes(), &req); err != nil {
			emit("RESULT", map[string]any{"id": "?", "bad_request": err.Error()})
			continue
		}
		begin(req.ID)
		limit := req.CPUSec
		if limit <= 0 {
			limit = 20
		}
		stop := startWatchdog(req.ID, limit, 1536<<20)
		var res any
		switch req.Op {
		case "scan":
			res = doScan(req)
		case "parse":
			src, err := os.ReadFile(req.File)
			if err != nil {
				res = map[string]any{"id": req.ID, "read_error": err.Error()}
			} else {
				r := parseOnce(req.File, src, req.Dump, true)
				r.ID = req.ID
				res = r
			}
		case "repeat":
			res = doRepeat(req)
		default:
			res = map[string]any{"id": req.ID, "bad_op": req.Op}
		}
		stop()
		emit("RESULT", res)
	}
}
