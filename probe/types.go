package main

func typesMain(args []string) {}
