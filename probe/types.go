package main

// C14 (part 1): type equivalence is lawful; aliases are transparent, definitions opaque.
// The closure of the base types under list-of / alias-of / definition-of (two sibling
// aliases and two sibling definitions per operand) is built with the real constructors of ddptypes. The oracle is a
// canonical form computed from the harness's *own* construction terms (it never looks into
// the ddptypes values and never calls GetUnderlying/TrueUnderlying): aliases are stripped
// everywhere, lists are structural, definitions and Kombinationen are nominal by identity.

import (
	"flag"
	"fmt"
	"strings"

	"github.com/DDP-Projekt/Kompilierer/src/ddptypes"
)

type tyNode struct {
	kind   byte // 'p' primitive, 'v' Variable, 'k' Kombination, 'l' list, 'a' alias, 'd' definition
	name   string
	child  int // index of the operand node, -1 for base types
	id     int // identity of k / a / d nodes
	depth  int
	typ    ddptypes.Type
	term   string // construction term (for dumps and the Python re-judge)
	canon  string // aliases stripped everywhere; d and k nominal; lists structural
	canon2 string // aliases and definitions stripped everywhere (DeepEqual's documented meaning)
	canonT string // TrueUnderlying's documented meaning: a/d stripped at the top, inside lists only aliases
}

type tyStats struct {
	Types         int            `json:"types"`
	Depth         int            `json:"depth"`
	ByKind        map[string]int `json:"types_by_kind"`
	CanonClasses  int            `json:"canon_classes"`
	Pairs         int            `json:"pairs"`
	PairsEqual    int            `json:"pairs_equal"`
	PairsDeep     int            `json:"pairs_deep_equal"`
	RealCalls     int            `json:"real_predicate_calls"`
	AliasTarget   int            `json:"alias_target_pairs"`
	DefBase       int            `json:"definition_base_pairs"`
	DefSibling    int            `json:"definition_sibling_pairs"`
	UnaryLaws     int            `json:"unary_law_evaluations"`
	Congruence    int            `json:"congruence_evaluations"`
	Triples       int            `json:"triples"`
	TriplesPrem   int            `json:"triples_with_premise"`
	TriplesPremD  int            `json:"triples_with_premise_deep"`
	Bad           int            `json:"bad"`
	BadByLaw      map[string]int `json:"bad_by_law"`
	SamplesDumped int            `json:"samples_dumped"`
}

type tyBad struct {
	Law  string `json:"law"`
	A    string `json:"a"`
	B    string `json:"b,omitempty"`
	C    string `json:"c,omitempty"`
	Got  string `json:"got"`
	Want string `json:"want"`
}

type tySample struct {
	A     string `json:"a"`
	B     string `json:"b"`
	Equal bool   `json:"equal"`
	Deep  bool   `json:"deep"`
	NumA  bool   `json:"num_a"`
	ListA bool   `json:"list_a"`
	DefA  bool   `json:"def_a"`
}

func buildClosure(depth int) []*tyNode {
	var nodes []*tyNode
	nextID := 0
	add := func(n *tyNode) {
		nodes = append(nodes, n)
	}
	prims := []ddptypes.PrimitiveType{ddptypes.ZAHL, ddptypes.KOMMAZAHL, ddptypes.BYTE, ddptypes.WAHRHEITSWERT, ddptypes.BUCHSTABE, ddptypes.TEXT}
	for _, p := range prims {
		c := "P:" + p.String()
		add(&tyNode{kind: 'p', name: p.String(), child: -1, typ: p, term: c, canon: c, canon2: c, canonT: c})
	}
	add(&tyNode{kind: 'v', name: "Variable", child: -1, typ: ddptypes.VARIABLE, term: "V", canon: "V", canon2: "V", canonT: "V"})
	// two Kombinationen with the same name and the same fields, declared twice (as two modules would)
	for i := 0; i < 2; i++ {
		nextID++
		st := &ddptypes.StructType{Name: "Punkt", GramGender: ddptypes.MASKULIN,
			Fields: []ddptypes.StructField{{Name: "x", Type: ddptypes.ZAHL}, {Name: "y", Type: ddptypes.TEXT}}}
		c := fmt.Sprintf("S#%d", nextID)
		add(&tyNode{kind: 'k', name: "Punkt", child: -1, id: nextID, typ: st, term: c, canon: c, canon2: c, canonT: c})
	}
	lo, hi := 0, len(nodes)
	genders := []ddptypes.GrammaticalGender{ddptypes.MASKULIN, ddptypes.FEMININ, ddptypes.NEUTRUM}
	for d := 1; d <= depth; d++ {
		for i := lo; i < hi; i++ {
			b := nodes[i]
			// list-of
			add(&tyNode{kind: 'l', child: i, depth: d, typ: ddptypes.ListType{ElementType: b.typ},
				term: "L(" + b.term + ")", canon: "L(" + b.canon + ")", canon2: "L(" + b.canon2 + ")", canonT: "L(" + b.canon + ")"})
			// alias-of, twice (two aliases of one target are equivalent to each other)
			for s := 0; s < 2; s++ {
				nextID++
				add(&tyNode{kind: 'a', child: i, id: nextID, depth: d,
					typ:  &ddptypes.TypeAlias{Name: fmt.Sprintf("Name%d", s), Underlying: b.typ, GramGender: genders[nextID%3]},
					term: fmt.Sprintf("A#%d(%s)", nextID, b.term), canon: b.canon, canon2: b.canon2, canonT: b.canonT})
			}
			// definition-of, twice (siblings of the same base, same printed name)
			for s := 0; s < 2; s++ {
				nextID++
				c := fmt.Sprintf("D#%d", nextID)
				add(&tyNode{kind: 'd', child: i, id: nextID, depth: d,
					typ:  &ddptypes.TypeDef{Name: "Nummer", Underlying: b.typ, GramGender: genders[nextID%3]},
					term: fmt.Sprintf("D#%d(%s)", nextID, b.term), canon: c, canon2: b.canon2, canonT: b.canonT})
			}
		}
		lo, hi = hi, len(nodes)
	}
	return nodes
}

// structural description of a ddptypes value as produced by the code under test, using the
// identity table of the closure (pointer -> id); used to judge GetUnderlying / TrueUnderlying results
func describe(t ddptypes.Type, ids map[any]string) string {
	switch v := t.(type) {
	case ddptypes.PrimitiveType:
		return "P:" + v.String()
	case ddptypes.Variable:
		return "V"
	case ddptypes.ListType:
		return "L(" + describe(v.ElementType, ids) + ")"
	case *ddptypes.StructType:
		if s, ok := ids[v]; ok {
			return s
		}
		return "S#?"
	case *ddptypes.TypeDef:
		if s, ok := ids[v]; ok {
			return s
		}
		return "D#?"
	case *ddptypes.TypeAlias:
		return "ALIAS!" // must never remain after stripping
	case nil:
		return "<nil>"
	}
	return fmt.Sprintf("<%T>", t)
}

func typesMain(args []string) {
	fs := flag.NewFlagSet("types", flag.ExitOnError)
	depth := fs.Int("depth", 2, "closure depth")
	doPairs := fs.Bool("pairs", false, "pair and unary laws")
	doTriples := fs.Bool("triples", false, "transitivity over all triples")
	part := fs.Int("part", 0, "partition of the triple sweep (first component)")
	parts := fs.Int("parts", 1, "number of partitions")
	sample := fs.Int("sample", 0, "dump this many seeded raw pair observations for the independent re-judge")
	seed := fs.Uint64("seed", 0, "seed of the sample")
	fs.Parse(args)

	begin("types")
	nodes := buildClosure(*depth)
	n := len(nodes)
	st := &tyStats{Types: n, Depth: *depth, ByKind: map[string]int{}, BadByLaw: map[string]int{}}
	classes := map[string]bool{}
	ids := map[any]string{}
	for _, nd := range nodes {
		st.ByKind[string(nd.kind)]++
		classes[nd.canon] = true
		switch nd.kind {
		case 'k', 'd':
			ids[nd.typ] = nd.canon
		}
	}
	st.CanonClasses = len(classes)
	emitted := map[string]int{}
	bad := func(law string, a, b, c *tyNode, got, want string) {
		st.Bad++
		st.BadByLaw[law]++
		emitted[law]++
		if emitted[law] <= 8 {
			r := tyBad{Law: law, A: a.term, Got: got, Want: want}
			if b != nil {
				r.B = b.term
			}
			if c != nil {
				r.C = c.term
			}
			emit("BAD", r)
		}
	}
	bs := func(b bool) string {
		if b {
			return "true"
		}
		return "false"
	}

	// the relation as the real code computes it, evaluated twice in two different orders
	// (a relation on types must not depend on evaluation history)
	eq := make([][]bool, n)
	deep := make([][]bool, n)
	for i := range eq {
		eq[i] = make([]bool, n)
		deep[i] = make([]bool, n)
		for j := 0; j < n; j++ {
			eq[i][j] = ddptypes.Equal(nodes[i].typ, nodes[j].typ)
			deep[i][j] = ddptypes.DeepEqual(nodes[i].typ, nodes[j].typ)
			st.RealCalls += 2
		}
	}

	if *doPairs {
		for j := n - 1; j >= 0; j-- {
			for i := n - 1; i >= 0; i-- {
				if e := ddptypes.Equal(nodes[i].typ, nodes[j].typ); e != eq[i][j] {
					bad("Equal is a function of its arguments (same result when re-evaluated)", nodes[i], nodes[j], nil, bs(e), bs(eq[i][j]))
				}
				st.RealCalls++
			}
		}
		for i, a := range nodes {
			// reflexivity
			if !eq[i][i] {
				bad("Equal reflexive", a, nil, nil, "false", "true")
			}
			if !deep[i][i] {
				bad("DeepEqual reflexive", a, nil, nil, "false", "true")
			}
			// unary predicates against the canonical form
			st.UnaryLaws++
			c := a.canon
			isNum := c == "P:Zahl" || c == "P:Kommazahl" || c == "P:Byte"
			chk := func(law string, got, want bool) {
				if got != want {
					bad(law, a, nil, nil, bs(got), bs(want))
				}
			}
			chk("IsNumeric iff equivalent to Zahl, Kommazahl or Byte", ddptypes.IsNumeric(a.typ), isNum)
			chk("IsList iff equivalent to a list type", ddptypes.IsList(a.typ), strings.HasPrefix(c, "L("))
			chk("IsPrimitive iff equivalent to a primitive type", ddptypes.IsPrimitive(a.typ), strings.HasPrefix(c, "P:"))
			chk("IsStruct iff equivalent to a Kombination", ddptypes.IsStruct(a.typ), strings.HasPrefix(c, "S#"))
			chk("IsAny iff equivalent to Variable", ddptypes.IsAny(a.typ), c == "V")
			chk("IsTypeDef iff equivalent to a definition", ddptypes.IsTypeDef(a.typ), strings.HasPrefix(c, "D#"))
			chk("IsTypeAlias iff declared as alias", ddptypes.IsTypeAlias(a.typ), a.kind == 'a')
			chk("IsVoid never for a value type", ddptypes.IsVoid(a.typ), false)
			u := ddptypes.GetUnderlying(a.typ)
			if d := describe(u, ids); d != c {
				bad("GetUnderlying strips exactly the aliases (everywhere)", a, nil, nil, d, c)
			}
			if d := describe(ddptypes.GetUnderlying(u), ids); d != c {
				bad("GetUnderlying idempotent", a, nil, nil, d, c)
			}
			if !ddptypes.Equal(a.typ, u) || !ddptypes.Equal(u, a.typ) {
				bad("a type is equivalent to its GetUnderlying", a, nil, nil, "false", "true")
			}
			if d := describe(ddptypes.TrueUnderlying(a.typ), ids); d != a.canonT {
				bad("TrueUnderlying strips aliases and definitions at the top (documented examples)", a, nil, nil, d, a.canonT)
			}
			// structural laws of the constructors
			if a.child >= 0 {
				b := nodes[a.child]
				switch a.kind {
				case 'a':
					st.AliasTarget++
					if !eq[i][a.child] || !eq[a.child][i] {
						bad("alias equivalent to its target", a, b, nil, "false", "true")
					}
				case 'd':
					st.DefBase++
					if eq[i][a.child] || eq[a.child][i] {
						bad("definition not equivalent to its base", a, b, nil, "true", "false")
					}
					if !deep[i][a.child] {
						bad("DeepEqual sees through definitions", a, b, nil, "false", "true")
					}
				}
			}
			for j, b := range nodes {
				st.Pairs++
				want := a.canon == b.canon
				if eq[i][j] != want {
					bad("Equal iff same canonical form", a, b, nil, bs(eq[i][j]), bs(want))
				}
				if eq[i][j] != eq[j][i] {
					bad("Equal symmetric", a, b, nil, bs(eq[i][j]), bs(eq[j][i]))
				}
				want2 := a.canon2 == b.canon2
				if deep[i][j] != want2 {
					bad("DeepEqual iff same form with aliases and definitions stripped", a, b, nil, bs(deep[i][j]), bs(want2))
				}
				if deep[i][j] != deep[j][i] {
					bad("DeepEqual symmetric", a, b, nil, bs(deep[i][j]), bs(deep[j][i]))
				}
				if eq[i][j] && !deep[i][j] {
					bad("Equal implies DeepEqual", a, b, nil, "false", "true")
				}
				if eq[i][j] {
					st.PairsEqual++
				}
				if deep[i][j] {
					st.PairsDeep++
				}
				// sibling definitions of one base / definitions of equivalent bases
				if a.kind == 'd' && b.kind == 'd' && i != j && nodes[a.child].canon == nodes[b.child].canon {
					st.DefSibling++
					if eq[i][j] {
						bad("two definitions of the same base are distinct", a, b, nil, "true", "false")
					}
				}
				// lists are structural: list(a) ~ list(b) iff a ~ b  (evaluated on the real constructors)
				if a.depth < *depth && b.depth < *depth {
					le := ddptypes.Equal(ddptypes.ListType{ElementType: a.typ}, ddptypes.ListType{ElementType: b.typ})
					st.RealCalls++
					if le != eq[i][j] {
						bad("list(a) equivalent to list(b) iff a equivalent to b", a, b, nil, bs(le), bs(eq[i][j]))
					}
				}
				// predicates that claim to respect aliases are congruent w.r.t. equivalence
				if eq[i][j] && i < j {
					st.Congruence++
					if ddptypes.IsNumeric(a.typ) != ddptypes.IsNumeric(b.typ) || ddptypes.IsList(a.typ) != ddptypes.IsList(b.typ) ||
						ddptypes.IsPrimitive(a.typ) != ddptypes.IsPrimitive(b.typ) || ddptypes.IsStruct(a.typ) != ddptypes.IsStruct(b.typ) ||
						ddptypes.IsAny(a.typ) != ddptypes.IsAny(b.typ) || ddptypes.IsTypeDef(a.typ) != ddptypes.IsTypeDef(b.typ) {
						bad("Is* predicates agree on equivalent types", a, b, nil, "differ", "agree")
					}
					if !ddptypes.Equal(ddptypes.GetListElementType(a.typ), ddptypes.GetListElementType(b.typ)) {
						bad("element types of equivalent types are equivalent", a, b, nil, "false", "true")
					}
				}
				for _, r1 := range []bool{false, true} {
					for _, r2 := range []bool{false, true} {
						pe := ddptypes.ParamTypesEqual(ddptypes.ParameterType{Type: a.typ, IsReference: r1}, ddptypes.ParameterType{Type: b.typ, IsReference: r2})
						if pe != (eq[i][j] && r1 == r2) {
							bad("ParamTypesEqual iff equivalent types and same reference-ness", a, b, nil, bs(pe), bs(eq[i][j] && r1 == r2))
						}
					}
				}
			}
		}
		if *sample > 0 {
			r := newRng(*seed, 14)
			for k := 0; k < *sample; k++ {
				i, j := r.intn(n), r.intn(n)
				if k%3 == 0 { // bias a third of the sample towards equivalent pairs
					for t := 0; t < 50 && nodes[i].canon2 != nodes[j].canon2; t++ {
						j = r.intn(n)
					}
				}
				a, b := nodes[i], nodes[j]
				emit("SAMPLE", tySample{A: a.term, B: b.term, Equal: ddptypes.Equal(a.typ, b.typ), Deep: ddptypes.DeepEqual(a.typ, b.typ),
					NumA: ddptypes.IsNumeric(a.typ), ListA: ddptypes.IsList(a.typ), DefA: ddptypes.IsTypeDef(a.typ)})
				st.SamplesDumped++
			}
		}
	}

	if *doTriples {
		for i := 0; i < n; i++ {
			if i%*parts != *part {
				continue
			}
			for j := 0; j < n; j++ {
				eij, dij := eq[i][j], deep[i][j]
				rowj, rowjd := eq[j], deep[j]
				for k := 0; k < n; k++ {
					if eij && rowj[k] {
						st.TriplesPrem++
						st.RealCalls++
						if !ddptypes.Equal(nodes[i].typ, nodes[k].typ) {
							bad("Equal transitive", nodes[i], nodes[j], nodes[k], "a~b, b~c, not a~c", "a~c")
						}
					}
					if dij && rowjd[k] {
						st.TriplesPremD++
						st.RealCalls++
						if !ddptypes.DeepEqual(nodes[i].typ, nodes[k].typ) {
							bad("DeepEqual transitive", nodes[i], nodes[j], nodes[k], "a~b, b~c, not a~c", "a~c")
						}
					}
				}
				st.Triples += n
			}
		}
	}
	emit("AGG", st)
}
