package main

func typesMain(args []string)     {}
func trieMain(args []string)      {}
