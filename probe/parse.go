package main

import (
	"fmt"
	"io"
	"os"
	"path/filepath"
	"regexp"
	"runtime"
	"sort"
	"strings"
	"syscall"
	"time"
	"unicode/utf8"

	"github.com/DDP-Projekt/Kompilierer/src/ast"
	"github.com/DDP-Projekt/Kompilierer/src/ddperror"
	"github.com/DDP-Projekt/Kompilierer/src/ddptypes"
	"github.com/DDP-Projekt/Kompilierer/src/parser"
	"github.com/DDP-Projekt/Kompilierer/src/scanner"
	"github.com/DDP-Projekt/Kompilierer/src/token"
	"github.com/DDP-Projekt/Kompilierer/src/verifhook"
)

// ---------------------------------------------------------------- watchdog (CPU time + RSS, no wall clock)

func cpuSeconds() float64 {
	var ru syscall.Rusage
	syscall.Getrusage(syscall.RUSAGE_SELF, &ru)
	return float64(ru.Utime.Sec) + float64(ru.Utime.Usec)/1e6 + float64(ru.Stime.Sec) + float64(ru.Stime.Usec)/1e6
}

func rssBytes() int64 {
	b, err := os.ReadFile("/proc/self/statm")
	if err != nil {
		return 0
	}
	var size, rss int64
	fmt.Sscanf(string(b), "%d %d", &size, &rss)
	return rss * 4096
}

// startWatchdog kills the process (exit 3 / 4 after printing a marker line) when the
// current case used more than cpuLimit seconds of CPU or the process RSS exceeds memLimit.
// The decision is on consumed CPU time, never on wall-clock time.
func startWatchdog(id string, cpuLimit float64, memLimit int64) (stop func()) {
	done := make(chan struct{})
	start := cpuSeconds()
	go func() {
		t := time.NewTicker(50 * time.Millisecond)
		defer t.Stop()
		for {
			select {
			case <-done:
				return
			case <-t.C:
				if used := cpuSeconds() - start; used > cpuLimit {
					fmt.Fprintf(os.Stdout, "\nHANG %s cpu=%.1f frame=%s\n", id, used, busyFrame())
					os.Exit(3)
				}
				if rss := rssBytes(); rss > memLimit {
					fmt.Fprintf(os.Stdout, "\nMEM %s rss=%d frame=%s\n", id, rss, busyFrame())
					os.Exit(4)
				}
			}
		}
	}()
	return func() { close(done) }
}

// innermost repository frame of the goroutine doing the work (all goroutine stacks, first repo frame)
func busyFrame() string {
	buf := make([]byte, 1<<20)
	st := string(buf[:runtime.Stack(buf, true)])
	var frames []string
	for _, l := range strings.Split(st, "\n") {
		if m := funcLine.FindStringSubmatch(l); m != nil {
			f := strings.TrimPrefix(m[1], "github.com/DDP-Projekt/Kompilierer/")
			dup := false
			for _, g := range frames {
				dup = dup || g == f
			}
			if !dup {
				frames = append(frames, f)
			}
			if len(frames) >= 4 {
				break
			}
		}
	}
	if len(frames) == 0 {
		return "?"
	}
	return strings.Join(frames, "<")
}

// ---------------------------------------------------------------- diagnostics

type Diag struct {
	Code     int    `json:"code"`
	Level    int    `json:"level"` // 1 warn, 2 error
	File     string `json:"file"`
	L1       uint   `json:"l1"`
	C1       uint   `json:"c1"`
	L2       uint   `json:"l2"`
	C2       uint   `json:"c2"`
	Msg      string `json:"msg"`
	RangeBad string `json:"range_bad,omitempty"`  // "" = the range law holds
	Render   string `json:"render_bad,omitempty"` // "" = the real advanced handler rendered it
	Wrapped  int    `json:"wrapped,omitempty"`
	Site     string `json:"site,omitempty"` // creating call site (ddperror verif hook)
	Ctx      string `json:"ctx,omitempty"`  // for bad ranges: "multiline-literal" when the start line leaves a text literal open
}

type Call struct {
	Kind   string            `json:"kind"` // call | struct | unary | binary | ternary | cast
	Name   string            `json:"name"`
	Module string            `json:"module"`
	L1     uint              `json:"l1"`
	C1     uint              `json:"c1"`
	Args   map[string]string `json:"args,omitempty"`
	Neg    bool              `json:"neg,omitempty"`
}

type ParseResult struct {
	ID       string   `json:"id"`
	Err      string   `json:"err,omitempty"`   // error value returned by parser.Parse
	Panic    string   `json:"panic,omitempty"` // panic escaping parser.Parse
	Frame    string   `json:"frame,omitempty"` // innermost frame under the repo
	Stack    string   `json:"stack,omitempty"`
	Faulty   bool     `json:"faulty"`
	NilMod   bool     `json:"nil_module"`
	Errors   int      `json:"errors"`
	Warnings int      `json:"warnings"`
	Diags    []Diag   `json:"diags"`
	Calls    []Call   `json:"calls,omitempty"`
	DumpErr  string   `json:"dump_err,omitempty"`
	Publics  []string `json:"publics,omitempty"`
	CPUms    float64  `json:"cpu_ms"`
	RSSkb    int64    `json:"rss_kb"`
}

var fileCache = map[string][]string{}

func linesOf(file string, mainFile string, mainSrc []byte) ([]string, bool) {
	if file == mainFile {
		return strings.Split(string(mainSrc), "\n"), true
	}
	if l, ok := fileCache[file]; ok {
		return l, l != nil
	}
	b, err := os.ReadFile(file)
	if err != nil {
		fileCache[file] = nil
		return nil, false
	}
	l := strings.Split(string(b), "\n")
	fileCache[file] = l
	return l, true
}

// the range law of C07: the diagnostic names a file we can read, start and end lie inside
// that file's text (1-based line, 1-based code-point column, column at most one past the
// end of the line), start is not after end.
func checkRange(d ddperror.Error, mainFile string, mainSrc []byte) string {
	if d.File == "" {
		return "empty file name"
	}
	lines, ok := linesOf(d.File, mainFile, mainSrc)
	if !ok {
		return "file is not a readable source: " + d.File
	}
	chk := func(p token.Position, what string) string {
		if p.Line < 1 || int(p.Line) > len(lines) {
			return fmt.Sprintf("%s line %d outside 1..%d", what, p.Line, len(lines))
		}
		n := utf8.RuneCountInString(lines[p.Line-1])
		if p.Column < 1 || int(p.Column) > n+1 {
			return fmt.Sprintf("%s column %d outside 1..%d (line %d)", what, p.Column, n+1, p.Line)
		}
		return ""
	}
	if s := chk(d.Range.Start, "start"); s != "" {
		return s
	}
	if s := chk(d.Range.End, "end"); s != "" {
		return s
	}
	if d.Range.End.IsBefore(d.Range.Start) {
		return fmt.Sprintf("start %d:%d after end %d:%d", d.Range.Start.Line, d.Range.Start.Column, d.Range.End.Line, d.Range.End.Column)
	}
	return ""
}

// context of a bad range: does the line it starts on leave a text literal open (odd number of unescaped quotes)?
func rangeContext(d ddperror.Error, mainFile string, mainSrc []byte) string {
	lines, ok := linesOf(d.File, mainFile, mainSrc)
	if !ok || d.Range.Start.Line < 1 || int(d.Range.Start.Line) > len(lines) {
		return "no-line"
	}
	l := lines[d.Range.Start.Line-1]
	n := 0
	for i := 0; i < len(l); i++ {
		if l[i] == '\\' {
			i++
		} else if l[i] == '"' {
			n++
		}
	}
	if n%2 == 1 {
		return "multiline-literal"
	}
	return "single-line"
}

var repoFrame = regexp.MustCompile(`(?m)^\s+(\S*/src/[^\s:]+\.go:\d+)`)
var funcLine = regexp.MustCompile(`(?m)^(github\.com/DDP-Projekt/Kompilierer/\S+?)\(`)

func innermostFrame(stack string) string {
	// first frame that belongs to the repository (skipping runtime/panic frames)
	lines := strings.Split(stack, "\n")
	for i := 0; i+1 < len(lines); i++ {
		if m := funcLine.FindStringSubmatch(lines[i]); m != nil {
			fn := m[1]
			if strings.Contains(fn, "panic_wrapper") || strings.Contains(fn, "parser.(*parser).panic") {
				continue
			}
			fn = strings.TrimPrefix(fn, "github.com/DDP-Projekt/Kompilierer/")
			return fn
		}
	}
	return ""
}

func render(d ddperror.Error, mainFile string, mainSrc []byte) (bad string) {
	defer func() {
		if r := recover(); r != nil {
			bad = fmt.Sprintf("advanced handler panicked: %v", r)
		}
	}()
	// the CLI builds the handler for the main file with the main file's text; diagnostics of
	// other files go through its basic branch.
	ddperror.MakeAdvancedHandler(mainFile, mainSrc, io.Discard)(d)
	if d.File != mainFile {
		// render it as the owner file's handler would (LSP / nested use)
		if b, err := os.ReadFile(d.File); err == nil {
			ddperror.MakeAdvancedHandler(d.File, b, io.Discard)(d)
		}
	}
	return ""
}

func parseOnce(file string, src []byte, dump bool, doRender bool) *ParseResult {
	res := &ParseResult{}
	var ms0 runtime.MemStats
	_ = ms0
	cpu0 := cpuSeconds()
	var diags []ddperror.Error
	ddperror.VerifResetSites()
	handler := func(e ddperror.Error) { diags = append(diags, e) }

	var mod *ast.Module
	func() {
		defer func() {
			if r := recover(); r != nil {
				st := ""
				if pe, ok := r.(*parser.ParserError); ok {
					res.Panic = "ParserError: " + pe.Msg
					st = string(pe.StackTrace)
				} else {
					res.Panic = fmt.Sprintf("%T: %v", r, r)
					buf := make([]byte, 1<<16)
					st = string(buf[:runtime.Stack(buf, false)])
				}
				if len(res.Panic) > 600 {
					res.Panic = res.Panic[:600]
				}
				res.Frame = innermostFrame(st)
				if len(st) > 6000 {
					st = st[:6000]
				}
				res.Stack = st
			}
		}()
		m, err := parser.Parse(parser.Options{
			FileName:     file,
			Source:       src,
			Modules:      map[string]*ast.Module{},
			ErrorHandler: handler,
		})
		mod = m
		if err != nil {
			res.Err = err.Error()
			if pe, ok := err.(*parser.ParserError); ok {
				// a panic converted into an error value by panic_wrapper: still a crash of the front end
				res.Panic = "ParserError(returned): " + pe.Msg
				res.Frame = innermostFrame(string(pe.StackTrace))
				st := string(pe.StackTrace)
				if len(st) > 6000 {
					st = st[:6000]
				}
				res.Stack = st
			}
		}
	}()
	res.CPUms = (cpuSeconds() - cpu0) * 1000
	res.RSSkb = rssBytes() / 1024
	res.NilMod = mod == nil
	if mod != nil && mod.Ast != nil {
		res.Faulty = mod.Ast.Faulty
	}
	absMain := file
	if a, err := filepath.Abs(file); err == nil {
		absMain = a
	}
	for _, d := range diags {
		dd := Diag{Code: int(d.Code), Level: int(d.Level), File: d.File,
			L1: d.Range.Start.Line, C1: d.Range.Start.Column, L2: d.Range.End.Line, C2: d.Range.End.Column,
			Msg: d.Msg, Wrapped: len(d.WrappedGenericErrors), Site: ddperror.VerifSiteOf(d)}
		if len(dd.Msg) > 300 {
			dd.Msg = dd.Msg[:300]
		}
		switch d.Level {
		case ddperror.LEVEL_ERROR:
			res.Errors++
		case ddperror.LEVEL_WARN:
			res.Warnings++
		}
		mf := file
		if d.File == absMain {
			mf = absMain
		}
		dd.RangeBad = checkRange(d, mf, src)
		if dd.RangeBad != "" {
			dd.Ctx = rangeContext(d, mf, src)
		}
		if doRender {
			dd.Render = render(d, mf, src)
			if dd.Render != "" && dd.Ctx == "" {
				dd.Ctx = rangeContext(d, mf, src)
			}
		}
		res.Diags = append(res.Diags, dd)
	}
	if dump && mod != nil && res.Panic == "" {
		func() {
			defer func() {
				if r := recover(); r != nil {
					res.DumpErr = fmt.Sprint(r)
				}
			}()
			dv := &dumpVisitor{res: res, src: strings.Split(string(src), "\n")}
			ast.VisitModule(mod, dv)
			for name := range mod.PublicDecls {
				res.Publics = append(res.Publics, name)
			}
			sort.Strings(res.Publics)
		}()
	}
	return res
}

// ---------------------------------------------------------------- AST dump (calls and their argument binding)

type dumpVisitor struct {
	res *ParseResult
	src []string
}

func (*dumpVisitor) Visitor() {}

func (d *dumpVisitor) text(r token.Range) string {
	// source text of a range (single line ranges only; good enough for call arguments)
	if r.Start.Line < 1 || int(r.Start.Line) > len(d.src) {
		return "?"
	}
	line := []rune(d.src[r.Start.Line-1])
	s, e := int(r.Start.Column)-1, int(r.End.Column)-1
	if r.End.Line != r.Start.Line || e > len(line) {
		e = len(line)
	}
	if s < 0 || s > e {
		return "?"
	}
	return string(line[s:e])
}

func modName(decl ast.Declaration) string {
	if decl == nil || decl.Module() == nil {
		return ""
	}
	return filepath.Base(decl.Module().FileName)
}

func (d *dumpVisitor) args(m map[string]ast.Expression) map[string]string {
	out := map[string]string{}
	for k, v := range m {
		if v == nil {
			out[k] = "<nil>"
		} else {
			out[k] = d.text(v.GetRange())
		}
	}
	return out
}

func (d *dumpVisitor) VisitFuncCall(c *ast.FuncCall) ast.VisitResult {
	call := Call{Kind: "call", Name: c.Name, L1: c.Range.Start.Line, C1: c.Range.Start.Column, Args: d.args(c.Args)}
	if c.Func != nil {
		call.Module = modName(c.Func)
		call.Name = c.Func.Name()
	}
	d.res.Calls = append(d.res.Calls, call)
	return ast.VisitRecurse
}

func (d *dumpVisitor) VisitStructLiteral(c *ast.StructLiteral) ast.VisitResult {
	call := Call{Kind: "struct", L1: c.Range.Start.Line, C1: c.Range.Start.Column, Args: d.args(c.Args)}
	if c.Struct != nil {
		call.Module = modName(c.Struct)
		call.Name = c.Struct.Name()
	}
	d.res.Calls = append(d.res.Calls, call)
	return ast.VisitRecurse
}

func (d *dumpVisitor) overload(kind string, r token.Range, o *ast.OperatorOverload) {
	if o == nil || o.Decl == nil {
		d.res.Calls = append(d.res.Calls, Call{Kind: kind, Name: "<builtin>", L1: r.Start.Line, C1: r.Start.Column})
		return
	}
	d.res.Calls = append(d.res.Calls, Call{Kind: kind, Name: o.Decl.Name(), Module: modName(o.Decl), L1: r.Start.Line, C1: r.Start.Column, Args: d.args(o.Args)})
}

func (d *dumpVisitor) VisitUnaryExpr(e *ast.UnaryExpr) ast.VisitResult {
	d.overload("unary:"+e.Operator.String(), e.Range, e.OverloadedBy)
	return ast.VisitRecurse
}

func (d *dumpVisitor) VisitBinaryExpr(e *ast.BinaryExpr) ast.VisitResult {
	d.overload("binary:"+e.Operator.String(), e.Range, e.OverloadedBy)
	return ast.VisitRecurse
}

func (d *dumpVisitor) VisitTernaryExpr(e *ast.TernaryExpr) ast.VisitResult {
	d.overload("ternary:"+e.Operator.String(), e.Range, e.OverloadedBy)
	return ast.VisitRecurse
}

func (d *dumpVisitor) VisitCastExpr(e *ast.CastExpr) ast.VisitResult {
	d.overload("cast", e.Range, e.OverloadedBy)
	return ast.VisitRecurse
}

// ---------------------------------------------------------------- scan

type Tok struct {
	Type   string `json:"type"`
	Lit    string `json:"lit"`
	Indent uint   `json:"indent"`
	L1     uint   `json:"l1"`
	C1     uint   `json:"c1"`
	L2     uint   `json:"l2"`
	C2     uint   `json:"c2"`
	Alias  string `json:"alias,omitempty"`
}

func tokOut(t token.Token) Tok {
	o := Tok{Type: t.Type.String(), Lit: t.Literal, Indent: t.Indent,
		L1: t.Range.Start.Line, C1: t.Range.Start.Column, L2: t.Range.End.Line, C2: t.Range.End.Column}
	if t.AliasInfo != nil {
		o.Alias = paramTypeString(*t.AliasInfo)
	}
	return o
}

func paramTypeString(p ddptypes.ParameterType) string {
	s := "<nil>"
	if p.Type != nil {
		s = p.Type.String()
	}
	if p.IsReference {
		s += " Referenz"
	}
	return s
}

func doScan(req request) any {
	src, err := os.ReadFile(req.File)
	if err != nil {
		return map[string]any{"id": req.ID, "read_error": err.Error()}
	}
	res := map[string]any{"id": req.ID}
	var diags []Diag
	handler := func(e ddperror.Error) {
		diags = append(diags, Diag{Code: int(e.Code), Level: int(e.Level), File: e.File, L1: e.Range.Start.Line, C1: e.Range.Start.Column, L2: e.Range.End.Line, C2: e.Range.End.Column, Msg: e.Msg})
	}
	func() {
		defer func() {
			if r := recover(); r != nil {
				res["panic"] = fmt.Sprint(r)
			}
		}()
		var toks []token.Token
		var err error
		if req.Mode == "alias" {
			alias := token.Token{Type: token.STRING, Literal: "\"" + string(src) + "\"",
				Range: token.Range{Start: token.Position{Line: 1, Column: 1}, End: token.Position{Line: 1, Column: 1}}}
			toks, err = scanner.ScanAlias(alias, handler)
		} else {
			toks, err = scanner.Scan(scanner.Options{FileName: req.File, Source: src, ScannerMode: scanner.ModeStrictCapitalization, ErrorHandler: handler})
		}
		if err != nil {
			res["err"] = err.Error()
			return
		}
		out := make([]Tok, len(toks))
		for i, t := range toks {
			out[i] = tokOut(t)
		}
		res["tokens"] = out
	}()
	res["diags"] = diags
	return res
}

// ---------------------------------------------------------------- repeat (C16)

type RepeatResult struct {
	ID       string         `json:"id"`
	Runs     int            `json:"runs"`
	Digests  []string       `json:"digests"`  // one digest per run (verdict + diagnostics sequence + call resolutions)
	Distinct int            `json:"distinct"` // number of distinct digests
	First    *ParseResult   `json:"first"`
	Other    *ParseResult   `json:"other,omitempty"` // first run whose digest differs from run 0
	OtherIdx int            `json:"other_idx,omitempty"`
	OtherTag string         `json:"other_tag,omitempty"`
	Sites    map[string]int `json:"sites"`
}

func digest(r *ParseResult) string {
	var b strings.Builder
	fmt.Fprintf(&b, "faulty=%v err=%q panic=%q;", r.Faulty, r.Err, r.Panic)
	for _, d := range r.Diags {
		fmt.Fprintf(&b, "%d/%d/%s/%d:%d-%d:%d/%s;", d.Code, d.Level, d.File, d.L1, d.C1, d.L2, d.C2, d.Msg)
	}
	// the dump visits call arguments in map order: compare the set of resolutions, not the visiting order
	calls := make([]string, 0, len(r.Calls))
	for _, c := range r.Calls {
		keys := make([]string, 0, len(c.Args))
		for k := range c.Args {
			keys = append(keys, k)
		}
		sort.Strings(keys)
		var cb strings.Builder
		fmt.Fprintf(&cb, "%s/%s/%s/%d:%d", c.Kind, c.Name, c.Module, c.L1, c.C1)
		for _, k := range keys {
			fmt.Fprintf(&cb, "/%s=%s", k, c.Args[k])
		}
		calls = append(calls, cb.String())
	}
	sort.Strings(calls)
	b.WriteString(strings.Join(calls, ";"))
	return b.String()
}

func doRepeat(req request) any {
	src, err := os.ReadFile(req.File)
	if err != nil {
		return map[string]any{"id": req.ID, "read_error": err.Error()}
	}
	rr := &RepeatResult{ID: req.ID}
	seen := map[string]bool{}
	run := func(tag string) {
		r := parseOnce(req.File, src, true, false)
		dg := digest(r)
		if rr.First == nil {
			rr.First = r
		} else if rr.Other == nil && dg != rr.Digests[0] {
			rr.Other, rr.OtherIdx, rr.OtherTag = r, rr.Runs, tag
		}
		rr.Digests = append(rr.Digests, dg)
		seen[dg] = true
		rr.Runs++
	}
	verifhook.Disable()
	for i := 0; i < req.N; i++ {
		run("natural")
	}
	for _, s := range req.Perturb {
		verifhook.SetSeed(s)
		run(fmt.Sprintf("perturb=%d", s))
	}
	verifhook.Disable()
	rr.Distinct = len(seen)
	rr.Sites = verifhook.Calls()
	// digests can be long; only ship hashes
	for i, d := range rr.Digests {
		rr.Digests[i] = fmt.Sprintf("%08x", fnv32(d))
	}
	return rr
}

func fnv32(s string) uint32 {
	h := uint32(2166136261)
	for i := 0; i < len(s); i++ {
		h ^= uint32(s[i])
		h *= 16777619
	}
	return h
}
