package main

func trieMain(args []string) {}
