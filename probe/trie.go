package main

// C20 (part 1): model-based history checking of the alias store.
// The real alias_trie is driven with the parser's own key predicates (tokenEqual / tokenLess)
// exactly as the parser drives it (aliasExists = Contains && value != nil, then Insert;
// Search with a key generator for call matching and for "enumerate everything").
// Model: a plain list; a key is present iff some inserted key is element-wise tokenEqual to it.

import (
	"flag"
	"fmt"
	"runtime"
	"sort"
	"strings"

	"github.com/DDP-Projekt/Kompilierer/src/ast"
	"github.com/DDP-Projekt/Kompilierer/src/ddptypes"
	"github.com/DDP-Projekt/Kompilierer/src/parser"
	at "github.com/DDP-Projekt/Kompilierer/src/parser/alias_trie"
	om "github.com/DDP-Projekt/Kompilierer/src/parser/ordered_map"
	"github.com/DDP-Projekt/Kompilierer/src/token"
)

type vTok struct {
	tok  *token.Token
	desc string // printable, unambiguous (distinct look-alike types carry an index)
}

type vKey struct {
	toks []*vTok
}

func (k vKey) String() string {
	s := make([]string, len(k.toks))
	for i, t := range k.toks {
		s[i] = t.desc
	}
	return strings.Join(s, " ")
}

func (k vKey) key() []*token.Token {
	r := make([]*token.Token, len(k.toks))
	for i, t := range k.toks {
		r[i] = t.tok
	}
	return r
}

type vocab struct {
	words, lits, params []*vTok
	byName              map[string]*vTok
}

func word(s string) *vTok {
	return &vTok{tok: &token.Token{Type: token.IDENTIFIER, Literal: s}, desc: s}
}

func buildVocab() *vocab {
	v := &vocab{byName: map[string]*vTok{}}
	for _, w := range []string{"foo", "bar", "zeige"} {
		v.words = append(v.words, word(w))
	}
	v.lits = append(v.lits,
		&vTok{tok: &token.Token{Type: token.INT, Literal: "1"}, desc: "1"},
		&vTok{tok: &token.Token{Type: token.INT, Literal: "2"}, desc: "2"},
		&vTok{tok: &token.Token{Type: token.STRING, Literal: "\"s\""}, desc: "\"s\""})
	type nt struct {
		name string
		t    ddptypes.Type
	}
	var tys []nt
	for _, p := range []ddptypes.PrimitiveType{ddptypes.ZAHL, ddptypes.KOMMAZAHL, ddptypes.BYTE, ddptypes.WAHRHEITSWERT, ddptypes.BUCHSTABE, ddptypes.TEXT} {
		tys = append(tys, nt{p.String(), p})
	}
	tys = append(tys, nt{"Variable", ddptypes.VARIABLE})
	tys = append(tys, nt{"L(Zahl)", ddptypes.ListType{ElementType: ddptypes.ZAHL}}, nt{"L(Text)", ddptypes.ListType{ElementType: ddptypes.TEXT}})
	// distinct types that print alike: Kombinationen named Punkt (as declared by several modules)
	var punkte []ddptypes.Type
	for i := 1; i <= 4; i++ {
		p := &ddptypes.StructType{Name: "Punkt", GramGender: ddptypes.MASKULIN, Fields: []ddptypes.StructField{{Name: "x", Type: ddptypes.ZAHL}}}
		punkte = append(punkte, p)
		tys = append(tys, nt{fmt.Sprintf("Punkt#%d", i), p})
	}
	for i := 1; i <= 3; i++ {
		tys = append(tys, nt{fmt.Sprintf("L(Punkt#%d)", i), ddptypes.ListType{ElementType: punkte[i-1]}})
	}
	// definitions named alike
	for i := 1; i <= 3; i++ {
		tys = append(tys, nt{fmt.Sprintf("Nummer#%d", i), &ddptypes.TypeDef{Name: "Nummer", Underlying: ddptypes.ZAHL, GramGender: ddptypes.FEMININ}})
	}
	// an alias and its target, a list of the alias and the list of the target (equal keys, different objects)
	az := &ddptypes.TypeAlias{Name: "Hausnummer", Underlying: ddptypes.ZAHL, GramGender: ddptypes.FEMININ}
	tys = append(tys, nt{"Alias(Zahl)", az}, nt{"L(Alias(Zahl))", ddptypes.ListType{ElementType: az}})
	// an alias of a Punkt (equal to Punkt#1)
	tys = append(tys, nt{"Alias(Punkt#1)", &ddptypes.TypeAlias{Name: "Ort", Underlying: punkte[0], GramGender: ddptypes.MASKULIN}})
	// differently named Kombination
	tys = append(tys, nt{"Kreis", &ddptypes.StructType{Name: "Kreis", GramGender: ddptypes.MASKULIN, Fields: []ddptypes.StructField{{Name: "r", Type: ddptypes.ZAHL}}}})
	for _, ty := range tys {
		for _, ref := range []bool{false, true} {
			d := "<" + ty.name
			if ref {
				d += " Ref"
			}
			d += ">"
			v.params = append(v.params, &vTok{tok: &token.Token{Type: token.ALIAS_PARAMETER, Literal: "<p>", AliasInfo: &ddptypes.ParameterType{Type: ty.t, IsReference: ref}}, desc: d})
		}
	}
	for _, l := range [][]*vTok{v.words, v.lits, v.params} {
		for _, t := range l {
			v.byName[t.desc] = t
		}
	}
	return v
}

func (v *vocab) all() []*vTok {
	var r []*vTok
	r = append(r, v.words...)
	r = append(r, v.lits...)
	r = append(r, v.params...)
	return r
}

// parse "zeige <Punkt#1> bar" into a key
func (v *vocab) mk(s string) vKey {
	var k vKey
	for _, f := range splitKey(s) {
		t, ok := v.byName[f]
		if !ok {
			panic("unknown vocabulary token " + f)
		}
		k.toks = append(k.toks, t)
	}
	return k
}

func splitKey(s string) []string {
	var out []string
	cur := ""
	depth := 0
	for _, r := range s {
		switch {
		case r == '<':
			depth++
			cur += string(r)
		case r == '>':
			depth--
			cur += string(r)
		case r == ' ' && depth == 0:
			if cur != "" {
				out = append(out, cur)
			}
			cur = ""
		default:
			cur += string(r)
		}
	}
	if cur != "" {
		out = append(out, cur)
	}
	return out
}

// ---------------------------------------------------------------- comparator report (root cause information)

type cmpPair struct {
	A     string `json:"a"`
	B     string `json:"b"`
	Kind  string `json:"kind"`
	Cause string `json:"cause"`
}

// why are two unequal placeholder tokens not ordered? (classification of the inconsistency)
func pairCause(a, b *token.Token) string {
	if a.Type != token.ALIAS_PARAMETER || b.Type != token.ALIAS_PARAMETER || a.AliasInfo == nil || b.AliasInfo == nil {
		return "non-placeholder tokens"
	}
	if a.AliasInfo.IsReference != b.AliasInfo.IsReference {
		return "placeholders differing in reference-ness are not ordered"
	}
	sa, sb := a.AliasInfo.Type.String(), b.AliasInfo.Type.String()
	ua, ub := stripAliasName(a.AliasInfo.Type), stripAliasName(b.AliasInfo.Type)
	if sa == sb || ua == ub {
		return "look-alike placeholder types: tokenLess equal-by-name, tokenEqual distinct"
	}
	return "placeholders with differently named types are not ordered"
}

// printed name with aliases replaced by their targets (harness-side, no GetUnderlying)
func stripAliasName(t ddptypes.Type) string {
	switch v := t.(type) {
	case *ddptypes.TypeAlias:
		return stripAliasName(v.Underlying)
	case ddptypes.ListType:
		return "L(" + stripAliasName(v.ElementType) + ")"
	}
	return t.String()
}

func inconsistency(a, b *token.Token) string {
	e := parser.VerifTokenEqual(a, b)
	lab, lba := parser.VerifTokenLess(a, b), parser.VerifTokenLess(b, a)
	switch {
	case e && (lab || lba):
		return "eq and less"
	case lab && lba:
		return "less both ways"
	case !e && !lab && !lba:
		return "unequal but unordered"
	}
	return ""
}

// ---------------------------------------------------------------- model + history runner

type mEntry struct {
	key vKey
	val ast.Alias
	id  int
}

func keysEqual(a, b vKey) bool {
	if len(a.toks) != len(b.toks) {
		return false
	}
	for i := range a.toks {
		if !parser.VerifTokenEqual(a.toks[i].tok, b.toks[i].tok) {
			return false
		}
	}
	return true
}

type trieBad struct {
	Law      string   `json:"law"`
	Cause    string   `json:"cause"`
	Universe string   `json:"universe"`
	History  []string `json:"history"`
	Key      string   `json:"key"`
	Got      string   `json:"got"`
	Want     string   `json:"want"`
	Pairs    []string `json:"inconsistent_pairs,omitempty"`
	Stack    string   `json:"stack,omitempty"`
}

type trieStats struct {
	Histories      int            `json:"histories"`
	Exhaustive     int            `json:"exhaustive_histories"`
	Random         int            `json:"random_histories"`
	Ops            int            `json:"operations"`
	ContainsChecks int            `json:"contains_checks"`
	SearchChecks   int            `json:"search_checks"`
	SearchHits     int            `json:"search_values_found"`
	DupRejected    int            `json:"duplicate_declarations_rejected"`
	Inserted       int            `json:"keys_inserted"`
	Universes      int            `json:"universes"`
	MaxKeys        int            `json:"max_keys_in_history"`
	VocabTokens    int            `json:"vocabulary_tokens"`
	CmpPairs       int            `json:"comparator_pairs"`
	CmpBad         map[string]int `json:"comparator_inconsistent_pairs_by_cause"`
	CmpTransBad    int            `json:"comparator_transitivity_failures"`
	Bad            int            `json:"bad"`
	BadBy          map[string]int `json:"bad_by_law_and_cause"`
	BadHistories   int            `json:"bad_histories"`
	MapHistories   int            `json:"ordered_map_histories"`
	MapOps         int            `json:"ordered_map_operations"`
}

type runner struct {
	st       *trieStats
	emitted  map[string]int
	universe string
}

func (r *runner) report(law string, hist []string, toks []*vTok, key, got, want, stack string) {
	// root cause: inconsistent comparator pairs among the tokens that took part in the history
	causes := map[string]bool{}
	var pairs []string
	for i := 0; i < len(toks); i++ {
		for j := i + 1; j < len(toks); j++ {
			if k := inconsistency(toks[i].tok, toks[j].tok); k != "" {
				c := pairCause(toks[i].tok, toks[j].tok)
				causes[c] = true
				if len(pairs) < 6 {
					pairs = append(pairs, toks[i].desc+" / "+toks[j].desc+": "+k)
				}
			}
		}
	}
	cl := make([]string, 0, len(causes))
	for c := range causes {
		cl = append(cl, c)
	}
	sort.Strings(cl)
	cause := strings.Join(cl, "; ")
	if cause == "" {
		cause = "none: key predicates consistent on the tokens of this history (trie / ordered map logic)"
	}
	r.st.Bad++
	k := law + " | " + cause
	r.st.BadBy[k]++
	r.emitted[k]++
	if r.emitted[k] <= 3 {
		emit("BAD", trieBad{Law: law, Cause: cause, Universe: r.universe, History: append([]string(nil), hist...), Key: key, Got: got, Want: want, Pairs: pairs, Stack: stack})
	}
}

type op struct {
	kind string // declare | overwrite | call | copy
	key  vKey
	call []*vTok // for call: the token sequence of the call site (arguments are literal tokens)
}

func distinctToks(keys []vKey) []*vTok {
	seen := map[*vTok]bool{}
	var out []*vTok
	for _, k := range keys {
		for _, t := range k.toks {
			if !seen[t] {
				seen[t] = true
				out = append(out, t)
			}
		}
	}
	return out
}

// runs one history; universe = every key that is probed after each operation
func (r *runner) run(universe []vKey, ops []op) (ok bool) {
	st := r.st
	st.Histories++
	trie := at.New[*token.Token, ast.Alias](parser.VerifTokenEqual, parser.VerifTokenLess)
	var model []*mEntry
	var hist []string
	ids := map[ast.Alias]int{}
	nextID := 0
	var touched []vKey // keys that took part in the history so far (root cause is looked for among their tokens)
	var probing *vKey
	failed := false
	lawsSeen := map[string]bool{}
	fail := func(law, key, got, want, stack string) {
		if !failed {
			st.BadHistories++
		}
		failed = true
		if lawsSeen[law] { // every law at most once per history
			return
		}
		lawsSeen[law] = true
		tk := touched
		if probing != nil {
			tk = append(append([]vKey(nil), touched...), *probing)
		}
		r.report(law, hist, distinctToks(tk), key, got, want, stack)
	}
	find := func(k vKey) *mEntry {
		for _, e := range model {
			if keysEqual(e.key, k) {
				return e
			}
		}
		return nil
	}
	guard := func(what, key string, f func()) (panicked bool) {
		defer func() {
			if p := recover(); p != nil {
				panicked = true
				buf := make([]byte, 1<<14)
				stk := string(buf[:runtime.Stack(buf, false)])
				fail("no panic in "+what, key, fmt.Sprint(p), "normal return", repoFrameOf(stk))
			}
		}()
		f()
		return false
	}
	exists := func(t *at.Trie[*token.Token, ast.Alias], k vKey) (bool, ast.Alias) {
		// parser.aliasExists
		okc, v := t.Contains(k.key())
		return okc && v != nil, v
	}
	checkAll := func(t *at.Trie[*token.Token, ast.Alias], tag string) {
		defer func() { probing = nil }()
		for ki := range universe {
			k := universe[ki]
			probing = &universe[ki]
			st.ContainsChecks++
			var ex bool
			var v ast.Alias
			if guard("Contains", k.String(), func() { ex, v = exists(t, k) }) {
				return
			}
			e := find(k)
			switch {
			case e != nil && !ex:
				fail("inserted key is found by Contains (else a duplicate declaration of it is accepted)"+tag, k.String(), "absent", fmt.Sprintf("present (id %d)", e.id), "")
			case e == nil && ex:
				fail("never inserted key is not found by Contains"+tag, k.String(), fmt.Sprintf("present (id %d)", ids[v]), "absent", "")
			case e != nil && v != e.val:
				fail("Contains returns the value stored for that key"+tag, k.String(), fmt.Sprintf("id %d", ids[v]), fmt.Sprintf("id %d", e.id), "")
			}
		}
		probing = nil
		// enumerate everything (generateGenericContext): every stored alias exactly once
		st.SearchChecks++
		var got []ast.Alias
		if guard("Search(enumerate)", "*", func() {
			got = t.Search(func(i int, k *token.Token) (*token.Token, bool) { return k, true })
		}) {
			return
		}
		st.SearchHits += len(got)
		cnt := map[ast.Alias]int{}
		for _, g := range got {
			cnt[g]++
		}
		for _, e := range model {
			if cnt[e.val] != 1 {
				fail("Search over everything yields each stored alias exactly once"+tag, e.key.String(), fmt.Sprintf("%d times", cnt[e.val]), "once", "")
				break
			}
		}
		if len(got) != len(model) {
			fail("Search over everything yields only stored aliases"+tag, "*", fmt.Sprintf("%d values", len(got)), fmt.Sprintf("%d values", len(model)), "")
		}
	}
	// a call site: the token sequence is matched the way parser.alias() does it (placeholders
	// consume one argument token, other key tokens are compared with the next token)
	call := func(seq []*vTok) {
		st.SearchChecks++
		var got []ast.Alias
		desc := vKey{seq}.String()
		if guard("Search(call)", desc, func() {
			cur := 0
			var starts []int
			got = trie.Search(func(node int, k *token.Token) (*token.Token, bool) {
				if node < len(starts) {
					if starts[node] == -1 {
						starts[node] = cur
					} else {
						cur = starts[node]
					}
				} else {
					for len(starts) <= node {
						starts = append(starts, -1)
					}
					starts[node] = cur
				}
				if cur >= len(seq) {
					return nil, false
				}
				if k.Type == token.ALIAS_PARAMETER {
					cur++ // every token of the vocabulary can start an argument
					return k, true
				}
				t := seq[cur].tok
				cur++
				return t, true
			})
		}) {
			return
		}
		st.SearchHits += len(got)
		cnt := map[ast.Alias]int{}
		for _, g := range got {
			cnt[g]++
		}
		want := 0
		for _, e := range model {
			m := len(e.key.toks) <= len(seq)
			for i := 0; m && i < len(e.key.toks); i++ {
				kt := e.key.toks[i].tok
				if kt.Type == token.ALIAS_PARAMETER {
					continue
				}
				if seq[i].tok.Type == token.ALIAS_PARAMETER || !parser.VerifTokenEqual(kt, seq[i].tok) {
					m = false
				}
			}
			if m {
				want++
				if cnt[e.val] != 1 {
					fail("a call matching a stored alias finds it exactly once", desc, fmt.Sprintf("alias %q found %d times", e.key.String(), cnt[e.val]), "once", "")
					return
				}
			} else if cnt[e.val] != 0 {
				fail("a call finds only aliases whose pattern it matches", desc, fmt.Sprintf("alias %q found", e.key.String()), "not found", "")
				return
			}
		}
		if len(got) != want {
			fail("a call finds only stored aliases", desc, fmt.Sprintf("%d values", len(got)), fmt.Sprintf("%d values", want), "")
		}
	}

	for _, o := range ops {
		st.Ops++
		if o.kind == "call" {
			touched = append(touched, vKey{o.call})
		} else if o.kind != "copy" {
			touched = append(touched, o.key)
		}
		switch o.kind {
		case "declare":
			hist = append(hist, "declare "+o.key.String())
			var ex bool
			if guard("Contains", o.key.String(), func() { ex, _ = exists(trie, o.key) }) {
				return false
			}
			e := find(o.key)
			if e != nil && !ex {
				fail("duplicate declaration is detected", o.key.String(), "aliasExists = false", fmt.Sprintf("aliasExists = true (equal to inserted %q)", e.key.String()), "")
				return false
			}
			if e == nil && ex {
				fail("new alias is not reported as existing", o.key.String(), "aliasExists = true", "aliasExists = false", "")
				return false
			}
			if ex {
				st.DupRejected++
				hist[len(hist)-1] += "  -> rejected (exists)"
			} else {
				nextID++
				val := &ast.FuncAlias{Negated: nextID%2 == 0, Original: token.Token{Literal: fmt.Sprint(nextID)}}
				ids[val] = nextID
				if guard("Insert", o.key.String(), func() { trie.Insert(o.key.key(), val) }) {
					return false
				}
				model = append(model, &mEntry{key: o.key, val: val, id: nextID})
				st.Inserted++
				hist[len(hist)-1] += fmt.Sprintf("  -> inserted id %d", nextID)
			}
		case "overwrite":
			// Insert on an equal key replaces the value (trie.Insert contract, used on copies)
			e := find(o.key)
			if e == nil {
				continue
			}
			nextID++
			val := &ast.FuncAlias{Negated: nextID%2 == 0, Original: token.Token{Literal: fmt.Sprint(nextID)}}
			ids[val] = nextID
			hist = append(hist, fmt.Sprintf("insert-again %s -> id %d", o.key.String(), nextID))
			if guard("Insert", o.key.String(), func() { trie.Insert(o.key.key(), val) }) {
				return false
			}
			e.val, e.id = val, nextID
		case "call":
			hist = append(hist, "call "+vKey{o.call}.String())
			call(o.call)
			hist = hist[:len(hist)-1]
			if failed {
				return false
			}
			continue
		case "copy":
			// at.Copy (generic instantiation context): same content, independent of the original
			hist = append(hist, "copy")
			var cp *at.Trie[*token.Token, ast.Alias]
			if guard("Copy", "*", func() { cp = at.Copy(trie) }) {
				return false
			}
			checkAll(cp, " (on a copy)")
			if failed {
				return false
			}
			hist = hist[:len(hist)-1]
			continue
		}
		checkAll(trie, "")
		// every stored alias is callable: a call spelled like its own key finds it
		for _, e := range model {
			call(e.key.toks)
		}
		if failed {
			return false // model and store have diverged: the history ends here
		}
	}
	if len(model) > st.MaxKeys {
		st.MaxKeys = len(model)
	}
	return true
}

// ---------------------------------------------------------------- the ordered map underneath the trie, driven directly
// Set / Get / Delete / Keys over single tokens with the parser's predicates against a plain list.
func (r *runner) mapHistory(name string, toks []*vTok, rg *rng, nops int) {
	st := r.st
	st.MapHistories++
	r.universe = name
	m := om.New[*token.Token, int](parser.VerifTokenEqual, parser.VerifTokenLess, 8)
	type ent struct {
		t *vTok
		v int
	}
	var model []ent
	var hist []string
	var touched []*vTok
	seen := map[*vTok]bool{}
	find := func(t *vTok) int {
		for i, e := range model {
			if parser.VerifTokenEqual(e.t.tok, t.tok) {
				return i
			}
		}
		return -1
	}
	bad := func(law, key, got, want string) {
		r.report("ordered map: "+law, hist, touched, key, got, want, "")
		st.BadHistories++
	}
	for o := 0; o < nops; o++ {
		st.MapOps++
		t := toks[rg.intn(len(toks))]
		if !seen[t] {
			seen[t] = true
			touched = append(touched, t)
		}
		switch k := rg.intn(10); {
		case k < 7:
			hist = append(hist, fmt.Sprintf("Set %s = %d", t.desc, o))
			m.Set(t.tok, o)
			if i := find(t); i >= 0 {
				model[i].v = o
			} else {
				model = append(model, ent{t, o})
			}
		case k < 8:
			hist = append(hist, "Delete "+t.desc)
			m.Delete(t.tok)
			if i := find(t); i >= 0 {
				model = append(model[:i], model[i+1:]...)
			}
		default:
			hist = append(hist, "Get "+t.desc)
		}
		if om.Len(m) != len(model) {
			bad("one entry per key", t.desc, fmt.Sprintf("%d entries", om.Len(m)), fmt.Sprintf("%d entries", len(model)))
			return
		}
		for _, q := range toks {
			v, ok := m.Get(q.tok)
			i := find(q)
			if ok != (i >= 0) {
				bad("Get finds exactly the keys that were set", q.desc, fmt.Sprint(ok), fmt.Sprint(i >= 0))
				return
			}
			if ok && v != model[i].v {
				bad("Get returns the value set last for that key", q.desc, fmt.Sprint(v), fmt.Sprint(model[i].v))
				return
			}
		}
		keys := m.Keys()
		for i := 0; i < len(keys); i++ {
			for j := i + 1; j < len(keys); j++ {
				if parser.VerifTokenLess(keys[j], keys[i]) {
					bad("keys are kept in ascending order", keys[j].Literal, "out of order", "ascending")
					return
				}
			}
		}
	}
}

// innermost function of the repository on a panic stack (generic instantiations keep their full name)
func repoFrameOf(stack string) string {
	for _, l := range strings.Split(stack, "\n") {
		if strings.HasPrefix(l, "github.com/DDP-Projekt/Kompilierer/src/") {
			l = strings.TrimPrefix(l, "github.com/DDP-Projekt/Kompilierer/")
			if i := strings.LastIndex(l, "("); i > 0 {
				l = l[:i]
			}
			return l
		}
	}
	return ""
}

// all ordered selections of at most maxLen distinct keys of the universe
func (r *runner) exhaustive(name string, universe []vKey, maxLen int) {
	r.universe = name
	r.st.Universes++
	n := len(universe)
	used := make([]bool, n)
	var seq []int
	var rec func()
	rec = func() {
		if len(seq) > 0 {
			ops := make([]op, len(seq))
			for i, s := range seq {
				ops[i] = op{kind: "declare", key: universe[s]}
			}
			r.st.Exhaustive++
			if !r.run(universe, ops) {
				return // every extension repeats this failure
			}
		}
		if len(seq) == maxLen {
			return
		}
		for i := 0; i < n; i++ {
			if used[i] {
				continue
			}
			used[i] = true
			seq = append(seq, i)
			rec()
			seq = seq[:len(seq)-1]
			used[i] = false
		}
	}
	rec()
}

func trieMain(args []string) {
	fs := flag.NewFlagSet("trie", flag.ExitOnError)
	maxLen := fs.Int("maxlen", 4, "exhaustive: all insertion orders of at most this many keys per universe")
	usize := fs.Int("usize", 7, "exhaustive: keys per universe")
	random := fs.Int("random", 0, "number of random histories")
	rkeys := fs.Int("rkeys", 12, "random: keys per history")
	seed := fs.Uint64("seed", 0, "seed")
	part := fs.Int("part", 0, "partition (universes are dealt round-robin)")
	parts := fs.Int("parts", 1, "number of partitions")
	cmp := fs.Bool("cmp", false, "report the comparator pairs")
	mapHist := fs.Int("maphist", 0, "number of random histories on the ordered map itself")
	fs.Parse(args)
	begin("trie")
	v := buildVocab()
	st := &trieStats{CmpBad: map[string]int{}, BadBy: map[string]int{}, VocabTokens: len(v.all())}
	r := &runner{st: st, emitted: map[string]int{}}

	if *cmp {
		all := v.all()
		shown := map[string]int{}
		for i, a := range all {
			for j, b := range all {
				if i >= j {
					continue
				}
				st.CmpPairs++
				if k := inconsistency(a.tok, b.tok); k != "" {
					c := pairCause(a.tok, b.tok)
					st.CmpBad[k+": "+c]++
					shown[c]++
					if shown[c] <= 4 {
						emit("CMP", cmpPair{A: a.desc, B: b.desc, Kind: k, Cause: c})
					}
				}
			}
		}
		// strict weak order: less transitive, and "unordered" transitive (needed by binary search)
		for _, a := range all {
			for _, b := range all {
				for _, c := range all {
					lab, lbc, lac := parser.VerifTokenLess(a.tok, b.tok), parser.VerifTokenLess(b.tok, c.tok), parser.VerifTokenLess(a.tok, c.tok)
					if lab && lbc && !lac {
						st.CmpTransBad++
					}
				}
			}
		}
	}

	// ---------------- universes for the exhaustive part
	type uni struct {
		name string
		keys []string
	}
	unis := []uni{
		{"prefix-structure", []string{"foo", "foo bar", "foo bar zeige", "foo <Zahl>", "foo <Zahl> bar", "foo 1", "foo \"s\"", "bar", "bar foo", "<Zahl> foo"}},
		{"primitive placeholders", []string{"zeige <Zahl>", "zeige <Kommazahl>", "zeige <Byte>", "zeige <Text>", "zeige <Wahrheitswert>", "zeige <Buchstabe>", "zeige <Variable>", "zeige <L(Zahl)>", "zeige <L(Text)>", "zeige <Kreis>"}},
		{"value vs Referenz", []string{"zeige <Zahl>", "zeige <Zahl Ref>", "zeige <Text>", "zeige <Text Ref>", "zeige <L(Zahl)>", "zeige <L(Zahl) Ref>", "zeige <Kreis>", "zeige <Kreis Ref>", "zeige <Variable Ref>", "zeige <Byte>"}},
		{"alias vs target", []string{"zeige <Zahl>", "zeige <Alias(Zahl)>", "zeige <L(Zahl)>", "zeige <L(Alias(Zahl))>", "zeige <Alias(Zahl) Ref>", "zeige <Zahl Ref>", "zeige <Text>", "zeige <Kreis>", "zeige <Punkt#1>", "zeige <Alias(Punkt#1)>"}},
		{"two placeholders", []string{"<Zahl> foo <Zahl>", "<Zahl> foo <Text>", "<Text> foo <Zahl>", "<Text> foo <Text>", "<Zahl> bar <Zahl>", "<Zahl> foo", "<Zahl Ref> foo <Zahl>", "<Zahl> foo <Zahl Ref>", "<Alias(Zahl)> foo <Alias(Zahl)>", "<Kreis> foo <Zahl>"}},
		{"literals and words", []string{"foo 1", "foo 2", "foo \"s\"", "foo <Zahl>", "foo <Text>", "1 foo", "2 foo", "foo 1 bar", "foo 1 <Zahl>", "zeige 1"}},
		{"two look-alike Kombinationen", []string{"zeige <Punkt#1>", "zeige <Punkt#2>", "zeige <Zahl>", "zeige <Text>", "zeige <Kreis>", "zeige <Punkt#1 Ref>", "zeige <L(Punkt#1)>", "zeige <L(Punkt#2)>", "zeige <Variable>", "zeige <Byte>"}},
		{"three look-alike Kombinationen", []string{"zeige <Punkt#1>", "zeige <Punkt#2>", "zeige <Punkt#3>", "zeige <Zahl>", "zeige <Text>", "zeige <Kreis>", "zeige <Punkt#1 Ref>", "zeige <Variable>", "zeige <Byte>", "zeige <L(Zahl)>"}},
		{"four look-alike Kombinationen", []string{"zeige <Punkt#1>", "zeige <Punkt#2>", "zeige <Punkt#3>", "zeige <Punkt#4>", "zeige <Zahl>", "zeige <Text>", "zeige <Kreis>", "zeige <Alias(Punkt#1)>", "zeige <Variable>", "zeige <Byte>"}},
		{"three look-alike definitions", []string{"zeige <Nummer#1>", "zeige <Nummer#2>", "zeige <Nummer#3>", "zeige <Zahl>", "zeige <Text>", "zeige <Kreis>", "zeige <Nummer#1 Ref>", "zeige <Variable>", "zeige <Byte>", "zeige <L(Zahl)>"}},
		{"three look-alike lists", []string{"zeige <L(Punkt#1)>", "zeige <L(Punkt#2)>", "zeige <L(Punkt#3)>", "zeige <L(Zahl)>", "zeige <L(Text)>", "zeige <Kreis>", "zeige <Punkt#1>", "zeige <Variable>", "zeige <Byte>", "zeige <L(Alias(Zahl))>"}},
		{"look-alikes below a shared prefix", []string{"foo <Zahl> <Punkt#1>", "foo <Zahl> <Punkt#2>", "foo <Zahl> <Punkt#3>", "foo <Zahl>", "foo <Zahl> bar", "foo <Text> <Punkt#1>", "foo <Zahl> <Kreis>", "foo", "foo <Zahl> <Zahl>", "foo <Zahl> <Punkt#1> bar"}},
	}
	for ui, u := range unis {
		if ui%*parts != *part {
			continue
		}
		keys := make([]vKey, 0, len(u.keys))
		for i, s := range u.keys {
			if i >= *usize {
				break
			}
			keys = append(keys, v.mk(s))
		}
		if len(keys) > 0 && *maxLen > 0 {
			r.exhaustive(u.name, keys, *maxLen)
		}
	}

	// ---------------- random histories
	all := v.all()
	for i := 0; i < *random; i++ {
		if i%*parts != *part {
			continue
		}
		rg := newRng(*seed, uint64(i))
		// a small token pool per history so that keys collide and share prefixes
		pool := make([]*vTok, 0, 8)
		np := 3 + rg.intn(5)
		for len(pool) < np {
			var t *vTok
			switch rg.intn(10) {
			case 0, 1, 2:
				t = v.words[rg.intn(len(v.words))]
			case 3:
				t = v.lits[rg.intn(len(v.lits))]
			default:
				t = v.params[rg.intn(len(v.params))]
			}
			pool = append(pool, t)
		}
		if rg.intn(4) == 0 {
			pool = append(pool, all[rg.intn(len(all))])
		}
		nk := 2 + rg.intn(*rkeys-1)
		universe := make([]vKey, 0, nk+4)
		for len(universe) < nk {
			l := 1 + rg.intn(4)
			var k vKey
			if len(universe) > 0 && rg.intn(3) == 0 {
				// extend or vary an existing key
				b := universe[rg.intn(len(universe))]
				k.toks = append(k.toks, b.toks...)
				if rg.intn(2) == 0 && len(k.toks) < 5 {
					k.toks = append(k.toks, pool[rg.intn(len(pool))])
				} else {
					k.toks[rg.intn(len(k.toks))] = pool[rg.intn(len(pool))]
				}
			} else {
				for j := 0; j < l; j++ {
					k.toks = append(k.toks, pool[rg.intn(len(pool))])
				}
			}
			universe = append(universe, k)
		}
		var ops []op
		for _, k := range universe {
			ops = append(ops, op{kind: "declare", key: k})
			switch rg.intn(8) {
			case 0:
				ops = append(ops, op{kind: "overwrite", key: universe[rg.intn(len(universe))]})
			case 1:
				ops = append(ops, op{kind: "copy"})
			case 2, 3:
				// a call site built from literal/word tokens
				var seq []*vTok
				for j := 0; j < 1+rg.intn(4); j++ {
					if rg.intn(2) == 0 {
						seq = append(seq, v.words[rg.intn(len(v.words))])
					} else {
						seq = append(seq, v.lits[rg.intn(len(v.lits))])
					}
				}
				ops = append(ops, op{kind: "call", call: seq})
			case 4:
				ops = append(ops, op{kind: "declare", key: universe[rg.intn(len(universe))]})
			}
		}
		// some never inserted keys are probed as well
		probe := append([]vKey(nil), universe...)
		for j := 0; j < 3; j++ {
			var k vKey
			for t := 0; t < 1+rg.intn(3); t++ {
				k.toks = append(k.toks, all[rg.intn(len(all))])
			}
			probe = append(probe, k)
		}
		r.universe = fmt.Sprintf("random #%d", i)
		st.Random++
		// does the history contain look-alike types at all? (evidence that the clean part is not vacuous)
		r.run(probe, ops)
	}
	// ---------------- the ordered map directly
	for i := 0; i < *mapHist; i++ {
		if i%*parts != *part {
			continue
		}
		rg := newRng(*seed^0x6d6170, uint64(i))
		var toks []*vTok
		n := 2 + rg.intn(7)
		for len(toks) < n {
			switch rg.intn(6) {
			case 0:
				toks = append(toks, v.words[rg.intn(len(v.words))])
			case 1:
				toks = append(toks, v.lits[rg.intn(len(v.lits))])
			default:
				toks = append(toks, v.params[rg.intn(len(v.params))])
			}
		}
		r.mapHistory(fmt.Sprintf("ordered map #%d", i), toks, rg, 4+rg.intn(16))
	}
	emit("AGG", st)
}
