package main

import (
	"flag"
	"fmt"
	"os"
	"path/filepath"
	"sort"
	"strings"
	"unicode/utf8"
)

// deterministic PRNG independent of the Go version (splitmix64)
type rng struct{ s uint64 }

func newRng(a, b uint64) *rng {
	r := &rng{s: a*0x9e3779b97f4a7c15 ^ (b+1)*0xbf58476d1ce4e5b9}
	r.next()
	r.next()
	return r
}
func (r *rng) next() uint64 {
	r.s += 0x9e3779b97f4a7c15
	z := r.s
	z = (z ^ (z >> 30)) * 0xbf58476d1ce4e5b9
	z = (z ^ (z >> 27)) * 0x94d049bb133111eb
	return z ^ (z >> 31)
}
func (r *rng) intn(n int) int {
	if n <= 0 {
		return 0
	}
	return int(r.next() % uint64(n))
}

type corpus struct {
	files []string
	data  [][]byte
}

func loadCorpus(dir string) *corpus {
	c := &corpus{}
	filepath.WalkDir(dir, func(p string, d os.DirEntry, err error) error {
		if err == nil && !d.IsDir() && strings.HasSuffix(p, ".ddp") && !strings.HasPrefix(filepath.Base(p), "__cur") {
			c.files = append(c.files, p)
		}
		return nil
	})
	sort.Strings(c.files)
	for _, f := range c.files {
		b, _ := os.ReadFile(f)
		c.data = append(c.data, b)
	}
	return c
}

// splits into "tokens": maximal runs of non-blank bytes, with the blanks attached as separate items,
// string/char literals and [comments] kept whole when cheaply recognisable
func splitTokens(src []byte) []string {
	var out []string
	i := 0
	for i < len(src) {
		j := i
		c := src[i]
		switch {
		case c == ' ' || c == '\t' || c == '\n' || c == '\r':
			for j < len(src) && (src[j] == ' ' || src[j] == '\t' || src[j] == '\n' || src[j] == '\r') {
				j++
			}
		case c == '"' || c == '\'':
			j++
			for j < len(src) && src[j] != c && src[j] != '\n' {
				if src[j] == '\\' {
					j++
				}
				j++
			}
			if j < len(src) {
				j++
			}
			if j > len(src) {
				j = len(src)
			}
		case c == '.' || c == ',' || c == ':' || c == '(' || c == ')' || c == '[' || c == ']' || c == '<' || c == '>':
			j++
		default:
			for j < len(src) && !strings.ContainsRune(" \t\n\r.,:()[]<>\"'", rune(src[j])) {
				j++
			}
			if j == i {
				j++
			}
		}
		out = append(out, string(src[i:j]))
		i = j
	}
	return out
}

func nonBlankIdx(toks []string) []int {
	var idx []int
	for i, t := range toks {
		if strings.TrimSpace(t) != "" {
			idx = append(idx, i)
		}
	}
	return idx
}

var hostileBytes = []string{"\x00", "\x80", "\xc0", "\xff", "\"", "'", "[", "]", "<", ">", "\\", "(", ")", ".", ",", ":", "\t", "\n", "\r\n", "-", "<!", "*"}
var hostileWords = []string{"ist", "von", "bis", "als", "und", "oder", "nicht", "Liste", "Referenz", "eine", "einer", "Der", "Die", "Das", "Wenn", "dann", "Sonst", "mache", "Für", "jede", "Solange",
	"Funktion", "Kombination", "Binde", "ein", "aus", "Gib", "zurück", "macht", "Und", "kann", "so", "benutzt", "werden", "Wir", "nennen", "definieren", "Typ", "mit", "den", "Parametern", "vom", "gibt",
	"öffentliche", "Zahl", "Text", "T", "Variable", "Standardwert", "an", "der", "Stelle", "im", "Bereich", "Element", "verkettet", "hoch", "Betrag", "Länge", "Größe", "entweder", "falls", "ansonsten",
	"Operator", "überlädt", "plus", "gleich", "Alias", "steht", "für", "extern", "sichtbare", "generische", "Konstante", "Speichere", "in", "Mal", "Wiederhole", "Verlasse", "Schleife", "Fahre", "fort",
	"...", "wahr", "falsch", "9223372036854775808", "0,", "1,5", "'\\q'", "\"\\", "''", "'ab'"}

func mutateOnce(r *rng, src []byte, c *corpus) []byte {
	toks := splitTokens(src)
	nb := nonBlankIdx(toks)
	pickTok := func() int {
		if len(nb) == 0 {
			return 0
		}
		return nb[r.intn(len(nb))]
	}
	join := func(t []string) []byte { return []byte(strings.Join(t, "")) }
	if len(toks) == 0 {
		toks = []string{""}
	}
	switch r.intn(19) {
	case 0: // delete a token
		i := pickTok()
		return join(append(append([]string{}, toks[:i]...), toks[i+1:]...))
	case 1: // duplicate a token
		i := pickTok()
		t := append(append([]string{}, toks[:i+1]...), " ", toks[i])
		return join(append(t, toks[i+1:]...))
	case 2: // transpose two tokens
		if len(nb) >= 2 {
			k := r.intn(len(nb) - 1)
			t := append([]string{}, toks...)
			t[nb[k]], t[nb[k+1]] = t[nb[k+1]], t[nb[k]]
			return join(t)
		}
	case 3: // truncate
		i := pickTok()
		return join(toks[:i])
	case 4: // splice a token run from another seed
		o := splitTokens(c.data[r.intn(len(c.data))])
		if len(o) > 0 {
			a := r.intn(len(o))
			n := 1 + r.intn(12)
			if a+n > len(o) {
				n = len(o) - a
			}
			i := pickTok()
			t := append(append([]string{}, toks[:i]...), o[a:a+n]...)
			return join(append(t, toks[i:]...))
		}
	case 5: // replace a token run by a run of another seed
		o := splitTokens(c.data[r.intn(len(c.data))])
		if len(o) > 0 {
			a := r.intn(len(o))
			n := 1 + r.intn(8)
			if a+n > len(o) {
				n = len(o) - a
			}
			i := pickTok()
			k := i + 1 + r.intn(6)
			if k > len(toks) {
				k = len(toks)
			}
			t := append(append([]string{}, toks[:i]...), o[a:a+n]...)
			return join(append(t, toks[k:]...))
		}
	case 6: // line: delete
		lines := strings.Split(string(src), "\n")
		i := r.intn(len(lines))
		return []byte(strings.Join(append(append([]string{}, lines[:i]...), lines[i+1:]...), "\n"))
	case 7: // line: duplicate
		lines := strings.Split(string(src), "\n")
		i := r.intn(len(lines))
		t := append(append([]string{}, lines[:i+1]...), lines[i:]...)
		return []byte(strings.Join(t, "\n"))
	case 8: // line: re-indent
		lines := strings.Split(string(src), "\n")
		i := r.intn(len(lines))
		switch r.intn(3) {
		case 0:
			lines[i] = "\t" + lines[i]
		case 1:
			lines[i] = strings.TrimLeft(lines[i], "\t ")
		case 2:
			lines[i] = "    " + lines[i]
		}
		return []byte(strings.Join(lines, "\n"))
	case 9: // byte flip
		if len(src) > 0 {
			b := append([]byte{}, src...)
			i := r.intn(len(b))
			b[i] ^= byte(1 << uint(r.intn(8)))
			return b
		}
	case 10: // insert a hostile byte sequence
		i := r.intn(len(src) + 1)
		h := hostileBytes[r.intn(len(hostileBytes))]
		return append(append(append([]byte{}, src[:i]...), h...), src[i:]...)
	case 11: // replace a token by a hostile word
		i := pickTok()
		t := append([]string{}, toks...)
		t[i] = hostileWords[r.intn(len(hostileWords))]
		return join(t)
	case 12: // insert a hostile word
		i := pickTok()
		t := append(append([]string{}, toks[:i]...), hostileWords[r.intn(len(hostileWords))], " ")
		return join(append(t, toks[i:]...))
	case 13: // drop the final '.'
		s := strings.TrimRight(string(src), " \t\r\n")
		return []byte(strings.TrimSuffix(s, "."))
	case 14: // nest generics / list types
		i := pickTok()
		t := append([]string{}, toks...)
		n := 1 + r.intn(40)
		switch r.intn(3) {
		case 0:
			t[i] = strings.Repeat("(", n) + t[i] + strings.Repeat(")", n)
		case 1:
			t[i] = t[i] + strings.Repeat(" Liste", n)
		case 2:
			t[i] = strings.Repeat("T-", n) + t[i]
		}
		return join(t)
	case 15: // swap two lines
		lines := strings.Split(string(src), "\n")
		if len(lines) >= 2 {
			i, j := r.intn(len(lines)), r.intn(len(lines))
			lines[i], lines[j] = lines[j], lines[i]
		}
		return []byte(strings.Join(lines, "\n"))
	case 16: // CRLF conversion
		return []byte(strings.ReplaceAll(string(src), "\n", "\r\n"))
	case 17: // self-import / import hostile path
		paths := []string{"__cur", ".", "..", "", "Duden", "Duden/", "Duden/Ausgabe", "/", "nicht_da", "Duden/../Duden/Ausgabe"}
		p := paths[r.intn(len(paths))]
		forms := []string{"Binde \"%s\" ein.\n", "Binde alle Module aus \"%s\" ein.\n", "Binde alle Module rekursiv aus \"%s\" ein.\n", "Binde foo aus \"%s\" ein.\n", "Binde foo und bar aus \"%s\" ein.\n"}
		return append([]byte(fmt.Sprintf(forms[r.intn(len(forms))], p)), src...)
	case 18: // cut a window out of the middle
		if len(src) > 2 {
			a := r.intn(len(src))
			n := 1 + r.intn(40)
			if a+n > len(src) {
				n = len(src) - a
			}
			return append(append([]byte{}, src[:a]...), src[a+n:]...)
		}
	}
	return src
}

// derive case i deterministically from (corpus, seed, i)
func deriveCase(c *corpus, seed uint64, i uint64, maxBytes int) (seedFile string, data []byte, trail []int) {
	r := newRng(seed, i)
	// pick a seed that is not over-long
	var k int
	for tries := 0; tries < 20; tries++ {
		k = r.intn(len(c.files))
		if len(c.data[k]) <= maxBytes {
			break
		}
	}
	data = c.data[k]
	if len(data) > maxBytes {
		data = data[:maxBytes]
	}
	n := 1 + r.intn(3)
	for j := 0; j < n; j++ {
		data = mutateOnce(r, data, c)
		if len(data) > maxBytes {
			data = data[:maxBytes]
		}
	}
	return c.files[k], data, nil
}

type mutateAgg struct {
	Cases      int            `json:"cases"`
	ValidUTF8  int            `json:"valid_utf8"`
	Accepted   int            `json:"accepted"` // no error diagnostics, not faulty
	Rejected   int            `json:"rejected"`
	ErrValue   int            `json:"err_value"` // parser.Parse returned an error value
	Diags      int            `json:"diags"`
	Warnings   int            `json:"warnings"`
	ByCode     map[int]int    `json:"by_code"`
	BySeed     map[string]int `json:"-"`
	Distinct   int            `json:"distinct_inputs"`
	MaxCPUms   float64        `json:"max_cpu_ms"`
	MaxRSSkb   int64          `json:"max_rss_kb"`
	ImportedDi int            `json:"diags_in_imported_files"`
}

type badCase struct {
	I       uint64       `json:"i"`
	Seed    string       `json:"seed_file"`
	Kind    string       `json:"kind"` // panic | range | render | flag
	Detail  string       `json:"detail"`
	Frame   string       `json:"frame,omitempty"`
	Result  *ParseResult `json:"result,omitempty"`
	Bytes   int          `json:"bytes"`
}

func mutateMain(args []string) {
	fs := flag.NewFlagSet("mutate", flag.ExitOnError)
	dir := fs.String("corpus", "", "corpus directory (scratch copy)")
	seed := fs.Uint64("seed", 0, "seed")
	from := fs.Uint64("from", 0, "first case")
	to := fs.Uint64("to", 0, "one past last case")
	maxBytes := fs.Int("max-bytes", 8192, "max input size")
	emitOnly := fs.Int64("emit", -1, "only write case i to --out and exit")
	outPath := fs.String("out", "", "file for --emit")
	fs.Parse(args)
	c := loadCorpus(*dir)
	if len(c.files) == 0 {
		fmt.Fprintln(os.Stderr, "empty corpus")
		os.Exit(2)
	}
	if *emitOnly >= 0 {
		sf, data, _ := deriveCase(c, *seed, uint64(*emitOnly), *maxBytes)
		os.WriteFile(*outPath, data, 0o644)
		emit("EMIT", map[string]any{"i": *emitOnly, "seed_file": sf, "bytes": len(data)})
		return
	}
	agg := &mutateAgg{ByCode: map[int]int{}}
	seen := map[uint64]bool{}
	prevCur := ""
	defer func() {
		if prevCur != "" {
			os.Remove(prevCur)
		}
	}()
	for i := *from; i < *to; i++ {
		sf, data, _ := deriveCase(c, *seed, i, *maxBytes)
		cur := filepath.Join(filepath.Dir(sf), "__cur.ddp")
		if prevCur != "" && prevCur != cur {
			os.Remove(prevCur) // a stale mutant must not be picked up by directory imports
		}
		prevCur = cur
		fileCache = map[string][]string{}
		os.WriteFile(cur, data, 0o644) // on disk before the code under test touches it
		begin(fmt.Sprint(i))
		// CPU budget: three orders of magnitude above the measured ~0.1 us/byte
		limit := 5.0 + 0.002*float64(len(data))
		stop := startWatchdog(fmt.Sprint(i), limit, 256<<20+int64(len(data))*65536)
		r := parseOnce(cur, data, false, true)
		stop()
		agg.Cases++
		h := uint64(14695981039346656037)
		for _, b := range data {
			h = (h ^ uint64(b)) * 1099511628211
		}
		if !seen[h] {
			seen[h] = true
			agg.Distinct++
		}
		if utf8.Valid(data) {
			agg.ValidUTF8++
		}
		if r.Err != "" {
			agg.ErrValue++
		}
		agg.Diags += len(r.Diags)
		agg.Warnings += r.Warnings
		if r.CPUms > agg.MaxCPUms {
			agg.MaxCPUms = r.CPUms
		}
		if r.RSSkb > agg.MaxRSSkb {
			agg.MaxRSSkb = r.RSSkb
		}
		for _, d := range r.Diags {
			agg.ByCode[d.Code]++
			if filepath.Base(d.File) != "__cur.ddp" {
				agg.ImportedDi++
			}
		}
		failed := r.Faulty || r.Err != "" || r.NilMod
		if failed {
			agg.Rejected++
		} else {
			agg.Accepted++
		}
		report := func(kind, detail string) {
			emit("BAD", badCase{I: i, Seed: sf, Kind: kind, Detail: detail, Frame: r.Frame, Result: r, Bytes: len(data)})
		}
		if r.Panic != "" {
			report("panic", r.Panic)
			continue
		}
		for _, d := range r.Diags {
			if d.RangeBad != "" {
				report("range", fmt.Sprintf("code %d site %s: %s", d.Code, d.Site, d.RangeBad))
				break
			}
		}
		for _, d := range r.Diags {
			if d.Render != "" {
				report("render", fmt.Sprintf("code %d site %s: %s", d.Code, d.Site, d.Render))
				break
			}
		}
		// flag law: failed <=> (>=1 error diagnostic delivered or an error value returned)
		if r.Errors >= 1 && !failed {
			report("flag", fmt.Sprintf("%d error diagnostics but module not faulty", r.Errors))
		}
		if failed && r.Errors == 0 && r.Err == "" {
			report("flag", "module faulty without any error diagnostic")
		}
	}
	emit("AGG", agg)
}
