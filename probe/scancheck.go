package main

// C13: the token stream is a faithful, positioned partition of the source.
// Bulk oracle (in the worker for throughput): model-free partition/position laws computed from
// the source text, an independent small lexer for the token kinds, and the indentation rule.

import (
	"flag"
	"fmt"
	"os"
	"path/filepath"
	"sort"
	"strings"
	"unicode/utf8"

	"github.com/DDP-Projekt/Kompilierer/src/ddperror"
	"github.com/DDP-Projekt/Kompilierer/src/scanner"
	"github.com/DDP-Projekt/Kompilierer/src/token"
)

type mtok struct {
	kind       token.TokenType
	start, end int // rune indices, end exclusive
}

func mAlpha(r rune) bool {
	return (r >= 'a' && r <= 'z') || (r >= 'A' && r <= 'Z') || r == '_' || strings.ContainsRune("äöüÄÖÜß", r)
}
func mDigit(r rune) bool { return r >= '0' && r <= '9' }
func mBlank(r rune) bool { return r == ' ' || r == '\t' || r == '\n' || r == '\r' }

func modelKind(lit string) token.TokenType {
	if k, ok := modelKeywords[lit]; ok {
		return k
	}
	if k, ok := modelKeywords[strings.ToLower(lit)]; ok {
		return k
	}
	return token.IDENTIFIER
}

// independent lexer written from the lexical rules
func modelLex(src []rune, alias bool) []mtok {
	var out []mtok
	n := len(src)
	at := func(i int) rune {
		if i < n {
			return src[i]
		}
		return -1
	}
	i := 0
	for {
		for i < n && mBlank(src[i]) {
			i++
		}
		if i >= n {
			out = append(out, mtok{token.EOF, n, n})
			return out
		}
		c := src[i]
		j := i + 1
		var k token.TokenType
		switch {
		case mAlpha(c):
			for j < n && (mAlpha(src[j]) || mDigit(src[j])) {
				j++
			}
			k = modelKind(string(src[i:j]))
		case mDigit(c):
			for j < n && mDigit(src[j]) {
				j++
			}
			k = token.INT
			if at(j) == ',' && mDigit(at(j+1)) {
				k = token.FLOAT
				j++
				for j < n && mDigit(src[j]) {
					j++
				}
			}
		case c == '-':
			k = token.NEGATE
		case c == '.':
			k = token.DOT
			if at(i+1) == '.' && at(i+2) == '.' {
				k, j = token.ELIPSIS, i+3
			}
		case c == ',':
			k = token.COMMA
		case c == ':':
			k = token.COLON
		case c == '(':
			k = token.LPAREN
		case c == ')':
			k = token.RPAREN
		case c == '"' || c == '\'':
			k = token.STRING
			if c == '\'' {
				k = token.CHAR
			}
			closed := false
			for j < n {
				if src[j] == c {
					j++
					closed = true
					break
				}
				if src[j] == '\\' {
					e := at(j + 1)
					if e == 'a' || e == 'b' || e == 'n' || e == 'r' || e == 't' || e == '\\' || e == c {
						j++
					}
				}
				j++
			}
			if j > n {
				j = n
			}
			if !closed {
				k, j = token.ILLEGAL, n
			}
		case c == '[':
			k = token.COMMENT
			depth := 1
			for j < n && depth > 0 {
				if src[j] == '[' {
					depth++
				} else if src[j] == ']' {
					depth--
				}
				j++
			}
		case c == '<' && alias:
			k = token.ALIAS_PARAMETER
			for j < n && src[j] != '>' && src[j] != '\n' {
				j++
			}
			if j < n && src[j] == '>' {
				j++
			}
		default:
			k = token.SYMBOL
		}
		out = append(out, mtok{k, i, j})
		i = j
	}
}

type scanStats struct {
	Strings     int            `json:"strings"`
	Tokens      int            `json:"tokens"`
	Kinds       map[string]int `json:"kinds"`
	Bad         int            `json:"bad"`
	InvalidUTF8 int            `json:"invalid_utf8_inputs"`
	Multiline   int            `json:"multiline_tokens"`
	IndentLines int            `json:"indent_judged"`
	DiagCount   int            `json:"scanner_diagnostics"`
}

type scanBad struct {
	Input string `json:"input"`
	Hex   string `json:"hex"`
	Mode  string `json:"mode"`
	Law   string `json:"law"`
	Tok   int    `json:"tok"`
	Got   string `json:"got"`
	Want  string `json:"want"`
}

var scanBadCount = 0

func checkScan(src string, alias bool, st *scanStats) {
	mode := "normal"
	if alias {
		mode = "alias"
	}
	bad := func(law string, idx int, got, want string) {
		st.Bad++
		scanBadCount++
		if scanBadCount <= 200 {
			emit("BAD", scanBad{Input: src, Hex: fmt.Sprintf("%x", src), Mode: mode, Law: law, Tok: idx, Got: got, Want: want})
		}
	}
	st.Strings++
	ndiag := 0
	handler := func(ddperror.Error) { ndiag++ }
	var toks []token.Token
	var err error
	if alias {
		// ScanAlias takes the literal with its quotes and evaluates no escapes of its own
		lit := token.Token{Type: token.STRING, Literal: "\"" + src + "\"", Range: token.Range{Start: token.Position{Line: 1, Column: 1}, End: token.Position{Line: 1, Column: 1}}}
		toks, err = scanner.ScanAlias(lit, handler)
	} else {
		toks, err = scanner.Scan(scanner.Options{FileName: "x.ddp", Source: []byte(src), ScannerMode: scanner.ModeStrictCapitalization, ErrorHandler: handler})
	}
	st.DiagCount += ndiag
	valid := utf8.ValidString(src)
	if !valid {
		st.InvalidUTF8++
		if err == nil {
			bad("invalid UTF-8 accepted", -1, "nil error", "error")
		}
		return
	}
	if err != nil {
		bad("valid UTF-8 refused", -1, err.Error(), "tokens")
		return
	}
	runes := []rune(src)
	// rune index -> (line, col), independent of the scanner
	type pos struct{ l, c uint }
	posOf := make([]pos, len(runes)+1)
	l, c := uint(1), uint(1)
	for i, r := range runes {
		posOf[i] = pos{l, c}
		if r == '\n' {
			l++
			c = 1
		} else {
			c++
		}
	}
	posOf[len(runes)] = pos{l, c}
	idxOf := map[pos]int{}
	for i := len(posOf) - 1; i >= 0; i-- {
		idxOf[posOf[i]] = i
	}
	lookup := func(p token.Position) (int, bool) {
		i, ok := idxOf[pos{p.Line, p.Column}]
		return i, ok
	}
	model := modelLex(runes, alias)
	// exactly one EOF and it is last
	neof := 0
	for _, t := range toks {
		if t.Type == token.EOF {
			neof++
		}
	}
	if neof != 1 || len(toks) == 0 || toks[len(toks)-1].Type != token.EOF {
		bad("exactly one EOF, last", -1, fmt.Sprint(neof), "1")
		return
	}
	prevEnd := 0
	afterIllegal := false
	lineStartsInLiteral := map[uint]bool{} // lines that begin inside a multi-line token
	for ti, t := range toks {
		st.Tokens++
		s, ok1 := lookup(t.Range.Start)
		e, ok2 := lookup(t.Range.End)
		if !ok1 || !ok2 {
			bad("range is a 1-based code-point position inside the text", ti, t.Range.String(), "position in text")
			return
		}
		if e < s {
			bad("start <= end", ti, t.Range.String(), "")
			return
		}
		if s < prevEnd {
			bad("tokens in source order without overlap", ti, t.Range.String(), fmt.Sprintf("start >= rune %d", prevEnd))
			return
		}
		for g := prevEnd; g < s; g++ {
			if !mBlank(runes[g]) {
				bad("only blanks between tokens", ti, fmt.Sprintf("%q at rune %d uncovered", runes[g], g), "blank")
				return
			}
		}
		if t.Type == token.EOF {
			if s != len(runes) || e != len(runes) {
				bad("EOF positioned at end of text", ti, t.Range.String(), fmt.Sprint(posOf[len(runes)]))
			}
		} else if t.Type != token.ILLEGAL {
			if string(runes[s:e]) != t.Literal {
				bad("literal is the source substring at its range", ti, t.Literal, string(runes[s:e]))
				return
			}
			if e == s {
				bad("non-EOF token is non-empty", ti, t.Range.String(), "")
				return
			}
		}
		for g := s; g < e && g < len(runes); g++ {
			if runes[g] == '\n' {
				lineStartsInLiteral[posOf[g].l+1] = true
				st.Multiline++
			}
		}
		// kind against the independent lexer
		if !afterIllegal {
			if ti >= len(model) {
				bad("token count", ti, fmt.Sprint(len(toks)), fmt.Sprint(len(model)))
				return
			}
			m := model[ti]
			if m.kind != t.Type || m.start != s || (m.end != e && t.Type != token.ILLEGAL) {
				bad("kind and extent follow the lexical rules", ti, fmt.Sprintf("%s [%d,%d)", t.Type, s, e), fmt.Sprintf("%s [%d,%d)", m.kind, m.start, m.end))
				return
			}
			st.Kinds[t.Type.String()]++
		}
		if t.Type == token.ILLEGAL {
			afterIllegal = true
		}
		// indentation: tabs + complete groups of four consecutive spaces before the first non-blank of the line
		spansLines := t.Range.End.Line != t.Range.Start.Line // a token spanning lines: which line's indentation it carries is not stated
		if !alias && !lineStartsInLiteral[t.Range.Start.Line] && t.Type != token.EOF && !spansLines {
			ls := s
			for ls > 0 && runes[ls-1] != '\n' {
				ls--
			}
			want, run, judge := uint(0), 0, true
			for g := ls; g < len(runes) && mBlank(runes[g]) && runes[g] != '\n'; g++ {
				switch runes[g] {
				case '\t':
					want++
					run = 0
				case ' ':
					run++
					if run == 4 {
						want++
						run = 0
					}
				case '\r':
					judge = false // a stray carriage return inside the indentation: not covered by the stated rule
				}
			}
			if judge {
				st.IndentLines++
				if t.Indent != want {
					bad("indent = tabs + groups of four spaces at line start", ti, fmt.Sprint(t.Indent), fmt.Sprint(want))
					return
				}
			}
		}
		prevEnd = e
	}
	if !afterIllegal && len(toks) != len(model) {
		bad("token count", -1, fmt.Sprint(len(toks)), fmt.Sprint(len(model)))
	}
}

func scancheckMain(args []string) {
	fs := flag.NewFlagSet("scancheck", flag.ExitOnError)
	alphabet := fs.String("alphabet", "", "runes to enumerate over (exhaustive mode)")
	maxLen := fs.Int("maxlen", 0, "max string length (exhaustive mode)")
	part := fs.Int("part", 0, "this worker's partition (by first symbol)")
	parts := fs.Int("parts", 1, "number of partitions")
	alias := fs.Bool("alias", false, "alias mode")
	random := fs.Int("random", 0, "number of random lexeme strings")
	seed := fs.Uint64("seed", 0, "seed")
	files := fs.String("files", "", "directory of .ddp files to scan")
	invalid := fs.Bool("invalid", false, "ill-formed UTF-8 sweep")
	fs.Parse(args)
	st := &scanStats{Kinds: map[string]int{}}
	begin("scancheck")
	if *maxLen > 0 {
		al := []rune(*alphabet)
		buf := make([]rune, 0, *maxLen)
		var rec func()
		rec = func() {
			checkScan(string(buf), *alias, st)
			if len(buf) == *maxLen {
				return
			}
			for i, r := range al {
				if len(buf) == 0 && i%*parts != *part {
					continue
				}
				buf = append(buf, r)
				rec()
				buf = buf[:len(buf)-1]
			}
		}
		if *part == 0 {
			rec()
		} else {
			// the empty string belongs to partition 0
			for i, r := range al {
				if i%*parts != *part {
					continue
				}
				buf = append(buf, r)
				rec()
				buf = buf[:0]
			}
		}
	}
	if *random > 0 {
		lex := scanLexemes()
		for i := 0; i < *random; i++ {
			r := newRng(*seed, uint64(i))
			var b strings.Builder
			n := 1 + r.intn(40)
			for k := 0; k < n && b.Len() < 200; k++ {
				b.WriteString(lex[r.intn(len(lex))])
			}
			checkScan(b.String(), *alias, st)
		}
	}
	if *files != "" {
		var fl []string
		filepath.WalkDir(*files, func(p string, d os.DirEntry, err error) error {
			if err == nil && !d.IsDir() && strings.HasSuffix(p, ".ddp") {
				fl = append(fl, p)
			}
			return nil
		})
		sort.Strings(fl)
		for _, f := range fl {
			b, err := os.ReadFile(f)
			if err == nil {
				checkScan(string(b), false, st)
			}
		}
	}
	if *invalid {
		// every ill-formed class embedded at three positions of a valid text
		var seqs []string
		for b := 0x80; b <= 0xff; b++ {
			seqs = append(seqs, string([]byte{byte(b)})) // lone continuation / lead / invalid byte
		}
		for _, lead := range []byte{0xc2, 0xdf, 0xe0, 0xe1, 0xed, 0xef, 0xf0, 0xf1, 0xf4} {
			for _, second := range []byte{0x00, 0x41, 0x7f, 0x80, 0x9f, 0xa0, 0xbf, 0xc0, 0xff} {
				seqs = append(seqs, string([]byte{lead, second}))
				for _, third := range []byte{0x41, 0x80, 0xbf, 0xc0} {
					seqs = append(seqs, string([]byte{lead, second, third}))
				}
			}
		}
		seqs = append(seqs, "\xc0\x80", "\xc1\xbf", "\xe0\x80\x80", "\xed\xa0\x80", "\xed\xbf\xbf", "\xf0\x80\x80\x80", "\xf4\x90\x80\x80", "\xf5\x80\x80\x80", "\xf8\x88\x80\x80\x80")
		hosts := []string{"", "Die Zahl x ist 1.", "Der Text t ist \"ä\"."}
		for _, s := range seqs {
			for _, h := range hosts {
				for _, at := range []int{0, len(h) / 2, len(h)} {
					checkScan(h[:at]+s+h[at:], false, st)
				}
			}
		}
	}
	emit("AGG", st)
}

func scanLexemes() []string {
	l := []string{" ", " ", "\t", "\n", "\r\n", "    ", "  ", ".", ",", ":", "(", ")", "-", "...", "..", "?", "!", "<", ">", "*", "/",
		"0", "1", "42", "007", "1,5", "0,0", "3,", ",5", "1,2,3", "9223372036854775807", "12a", "a12",
		"\"\"", "\"text\"", "\"ä€😀\"", "\"a\\nb\"", "\"a\\\"b\"", "\"\\\\\"", "\"\\q\"", "\"zwei\nzeilen\"", "\"offen",
		"'a'", "'ä'", "'😀'", "'\\n'", "'\\''", "'\\\\'", "'ab'", "''", "'offen",
		"[k]", "[a [b] c]", "[mehr\nzeilig]", "[offen", "]", "[]",
		"x", "abc", "Äpfel", "über", "straße", "_x", "x_1", "ß", "<x>", "<!nicht>", "<a", "<>"}
	for k := range modelKeywords {
		l = append(l, k, strings.ToUpper(k[:1])+k[1:], strings.ToUpper(k))
	}
	sort.Strings(l)
	return l
}
