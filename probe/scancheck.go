package main

func scancheckMain(args []string) {}
