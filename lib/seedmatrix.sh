#!/bin/bash
# usage: seedmatrix.sh [ids...]     (default: every /verif/seeded/<id>/)
# For each seeded change: a scratch worktree of /repo at HEAD (outside /repo and /verif), patch applied, the owning check(s)
# run against it (lib/seedtest.sh), worktree and build output removed afterwards. Nothing is committed to /repo.
# Result lines are appended to /verif/seeded/MATRIX.txt: "<id> <check> rc=<n> violations=<k>"
# expected: rc=1 for the checks listed in OWNERS (the seed is caught), never rc=2/3 (broken check)
cd /verif || exit 2
export VERIF_REDUCE_BUDGET=6     # the matrix needs the verdict, not a minimal witness
declare -A OWNERS=(
  [C01]="C08" [C02]="C02" [C03]="C03" [C04]="C04" [C05]="C05" [C06]="C06 C12" [C07]="C07" [C08]="C08" [C09]="C09" [C10]="C10"
  [C11]="C11 C08" [C12]="C12" [C13]="C13" [C14]="C14" [C15]="C15" [C16]="C16" [C17]="C17" [C18]="C18" [C19]="C19" [C20]="C20"
  [C01c]="C01" [C03c]="C03" [C07c]="C07" [C08c]="C08" [C13c]="C13" [C15c]="C14" [C17c]="C17" [C19c]="C19"
  [C01d]="C01" [C02d]="C02" [C03d]="C03" [C05c]="C05" [C07d]="C07" [C09d]="C09" [C10d]="C10" [C11b]="C11" [C16b]="C16" [C18c]="C18"
  [C04c]="C04" [C06c]="C06" [C08d]="C08" [C12c]="C12" [C13d]="C13" [C14c]="C14" [C15d]="C15" [C17d]="C17" [C19d]="C19" [C20c]="C20"
  [C01e]="C01" [C02e]="C02" [C04d]="C04" [C05d]="C08 C05" [C06d]="C06" [C08e]="C08" [C11c]="C11 C08" [C15e]="C15" [C18d]="C18" [C20d]="C20"
  [C02b]="C02" [C04b]="C04" [C05b]="C05" [C06b]="C06" [C09b]="C09" [C10b]="C10" [C12b]="C12" [C14b]="C14" [C18b]="C18" [C20b]="C20"
)
ids=("$@")
[ ${#ids[@]} -eq 0 ] && ids=($(ls seeded | grep '^C[0-9][0-9][bcde]\?$'))
head=$(git -C /repo log --format=%h -1)
for id in "${ids[@]}"; do
  wt=/var/tmp/seedwt/$id
  rm -rf "$wt"; mkdir -p /var/tmp/seedwt
  git -C /repo worktree add -q --detach "$wt" HEAD || { echo "$id worktree failed" >> seeded/MATRIX.txt; continue; }
  if ! git -C "$wt" apply /verif/seeded/$id/patch.diff 2>/dev/null; then
    echo "$id head=$head patch does not apply" >> seeded/MATRIX.txt
    git -C /repo worktree remove --force "$wt"; continue
  fi
  for c in ${OWNERS[$id]}; do
    out=$(lib/seedtest.sh "$wt" "m$id" "$c" 2>&1 | tail -1)
    rc=$(echo "$out" | sed -n 's/.* rc=\([0-9]*\) .*/\1/p')
    nv=$(echo "$out" | sed -n 's/.* rc=[0-9]* \([0-9]*\) violations.*/\1/p')
    echo "$id head=$head check=$c rc=$rc violations=$nv" >> seeded/MATRIX.txt
  done
  git -C /repo worktree remove --force "$wt"
  rm -rf "/var/tmp/seedbuild/m$id"
done
git -C /repo worktree prune
