#!/usr/bin/python3
"""Runs upstream's golden programs (tests/testdata/kddp/**, stdlib/**: <dir>/<dir>.ddp + expected.txt) with the kddp built by
build.sh. The pinned baseline cannot run them (it needs an installed kddp); used here to make sure `fix:` commits do not regress them.
usage: golden.py [--repo DIR] [--build DIR]   prints failing test dirs; exit 1 if a test that passed in golden_baseline.txt fails now"""
import os, sys, shutil, subprocess
sys.path.insert(0, os.path.dirname(os.path.abspath(__file__)))
import vlib

def run():
    vlib.ensure_build(asan=False)
    root = os.path.join(vlib.REPO, "tests", "testdata")
    with vlib.Scratch("golden") as sc:
        work = os.path.join(sc.path, "testdata")
        shutil.copytree(root, work)
        cases = []
        for dp, dn, fn in os.walk(work):
            base = os.path.basename(dp)
            if "expected.txt" in fn and base + ".ddp" in fn:
                cases.append(dp)
        cases.sort()
        def one(dp):
            base = os.path.basename(dp)
            exe = os.path.join(dp, base + ".exe")
            c = vlib.kddp_compile(os.path.join(dp, base + ".ddp"), exe)
            if c.rc != 0:
                return dp, "COMPILE", c.err[-300:]
            inp = None
            if os.path.exists(os.path.join(dp, "input.txt")):
                inp = open(os.path.join(dp, "input.txt"), "rb").read()
            r = vlib.run([exe], cwd=dp, env=vlib.base_env(), stdin=inp if inp is not None else None, wall_s=30, cpu_s=20, binary=True)
            exp = open(os.path.join(dp, "expected.txt"), "rb").read()
            got = r.out + r.err
            if got != exp:
                return dp, "DIFF", ""
            return dp, "OK", ""
        res = vlib.pmap(one, cases)
    ok = sorted(os.path.relpath(d, work) for d, s, _ in res if s == "OK")
    bad = sorted((os.path.relpath(d, work), s) for d, s, _ in res if s != "OK")
    return ok, bad

if __name__ == "__main__":
    ok, bad = run()
    print("golden: %d ok, %d not ok" % (len(ok), len(bad)))
    for b in bad:
        print("  not ok:", b)
    basefile = os.path.join(vlib.VERIF, "lib", "golden_baseline.txt")
    if "--record" in sys.argv:
        open(basefile, "w").write("\n".join(ok) + "\n")
    elif os.path.exists(basefile):
        base = set(open(basefile).read().split("\n")) - {""}
        regress = sorted(base - set(ok))
        for r in regress:
            print("REGRESSION:", r)
        sys.exit(1 if regress else 0)
