#!/bin/bash
# runs every quick (or with "thorough": thorough) check against /repo, one after the other; summary on stdout
# usage: runall.sh [quick|thorough] [ids...]
cd /verif || exit 2
tier=${1:-quick}; shift
ids=("$@")
[ ${#ids[@]} -eq 0 ] && ids=(C01 C02 C03 C04 C05 C06 C07 C08 C09 C10 C11 C12 C13 C14 C15 C16 C17 C18 C19 C20)
bad=0
for c in "${ids[@]}"; do
  t0=$(date +%s)
  ./check "$c" --tier "$tier" > "/var/tmp/runall_$c.log" 2>&1
  rc=$?
  echo "$c rc=$rc $(( $(date +%s) - t0 ))s $(grep -ac '^VIOLATION' /var/tmp/runall_$c.log) violations $(grep -ac '^KNOWN-FINDING' /var/tmp/runall_$c.log) known"
  [ $rc -ne 0 ] && bad=1
done
exit $bad
