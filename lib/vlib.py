"""Shared machinery of the /verif checks: build, scratch space, process running with
resource limits, the ddpprobe client, native runners (kddp, ledger, memcheck, asan),
evidence, replay directories and known findings."""
import concurrent.futures
import hashlib
import json
import os
import random
import re
import resource
import shutil
import signal
import subprocess
import sys
import tempfile
import threading
import time

VERIF = os.path.dirname(os.path.dirname(os.path.abspath(__file__)))
REPO = os.environ.get("VERIF_REPO", "/repo")
BUILD = os.environ.get("VERIF_BUILD", os.path.join(VERIF, "build"))
DDP = os.path.join(BUILD, "DDP")
DDP_ASAN = os.path.join(BUILD, "DDP-asan")
KDDP = os.path.join(DDP, "bin", "kddp")
PROBE = os.path.join(BUILD, "bin", "ddpprobe")
LOCPATH = os.path.join(BUILD, "locale")
SCRATCH_ROOT = os.environ.get("VERIF_SCRATCH", "/var/tmp")
# where evidence/ and replay/ are written; only overridden when a check is pointed at a scratch copy of the repository
OUT = os.environ.get("VERIF_OUT", VERIF)
NCPU = min(16, os.cpu_count() or 4)


def log(*a):
    print(*a, file=sys.stderr, flush=True)


# ------------------------------------------------------------------ build

_built = set()


def ensure_build(frontend_only=False, asan=True):
    key = (frontend_only, asan)
    if key in _built:
        return
    args = [os.path.join(VERIF, "build.sh")]
    if frontend_only:
        args.append("--frontend-only")
    if not asan:
        args.append("--no-asan")
    env = dict(os.environ, VERIF_REPO=REPO, VERIF_BUILD=BUILD)
    r = subprocess.run(args, env=env, stdout=subprocess.PIPE, stderr=subprocess.STDOUT, text=True)
    if r.returncode != 0:
        log(r.stdout[-4000:])
        raise BuildFailed(r.stdout[-4000:])
    _built.add(key)


class BuildFailed(Exception):
    pass


def base_env(extra=None):
    env = {
        "PATH": os.environ.get("PATH", "/usr/bin:/bin"),
        "HOME": os.environ.get("HOME", "/root"),
        "DDPPATH": DDP,
        "LOCPATH": LOCPATH,
        "LANG": "C.UTF-8",
        "LC_ALL": "",
        "GOFLAGS": "-mod=mod",
        "GOPROXY": "off",
    }
    if extra:
        env.update(extra)
    return env


# ------------------------------------------------------------------ scratch

class Scratch:
    """temporary directory outside /repo and /verif, removed on exit (also on failure)"""

    def __init__(self, tag="verif"):
        self.path = tempfile.mkdtemp(prefix="verif-%s-" % tag, dir=SCRATCH_ROOT)

    def __enter__(self):
        return self

    def __exit__(self, *exc):
        shutil.rmtree(self.path, ignore_errors=True)

    def sub(self, name):
        p = os.path.join(self.path, name)
        os.makedirs(p, exist_ok=True)
        return p


# ------------------------------------------------------------------ processes

def _limits(cpu_s, as_bytes):
    def f():
        os.setsid()
        if cpu_s:
            resource.setrlimit(resource.RLIMIT_CPU, (int(cpu_s), int(cpu_s) + 2))
        if as_bytes:
            resource.setrlimit(resource.RLIMIT_AS, (as_bytes, as_bytes))
        resource.setrlimit(resource.RLIMIT_CORE, (0, 0))
    return f


class Proc:
    __slots__ = ("rc", "out", "err", "timed_out", "cpu_killed")

    def __init__(self, rc, out, err, timed_out, cpu_killed=False):
        self.rc, self.out, self.err, self.timed_out, self.cpu_killed = rc, out, err, timed_out, cpu_killed


def run(args, cwd=None, env=None, stdin=None, wall_s=120, cpu_s=None, as_bytes=None, binary=False, max_out=1 << 22):
    """run a child; wall-clock timeout => timed_out (inconclusive), RLIMIT_CPU => cpu_killed (SIGXCPU).
    Limits are set by a tiny sh wrapper (ulimit) instead of a preexec_fn, so that Python can vfork/spawn
    the child from a many-threaded supervisor without paying for a full fork."""
    pre = ["ulimit -c 0"]
    if cpu_s:
        pre.append("ulimit -t %d" % int(cpu_s))
    if as_bytes:
        pre.append("ulimit -v %d" % (as_bytes // 1024))
    argv = ["/bin/sh", "-c", "; ".join(pre) + '; exec "$@"', "sh"] + list(args)
    try:
        p = subprocess.Popen(argv, cwd=cwd, env=env if env is not None else base_env(),
                             stdin=subprocess.PIPE if stdin is not None else subprocess.DEVNULL,
                             stdout=subprocess.PIPE, stderr=subprocess.PIPE, start_new_session=True)
    except OSError as e:
        return Proc(-999, b"" if binary else "", ("spawn failed: %s" % e).encode() if binary else "spawn failed: %s" % e, True)
    timed_out = False
    try:
        out, err = p.communicate(stdin if stdin is None or isinstance(stdin, bytes) else stdin.encode(), timeout=wall_s)
    except subprocess.TimeoutExpired:
        timed_out = True
        try:
            os.killpg(p.pid, signal.SIGKILL)
        except OSError:
            pass
        out, err = p.communicate()
    rc = p.returncode
    cpu_killed = rc in (-signal.SIGXCPU, -signal.SIGKILL) and not timed_out and cpu_s is not None
    out, err = out[:max_out], err[:max_out]
    if not binary:
        out, err = out.decode("utf-8", "replace"), err.decode("utf-8", "replace")
    return Proc(rc, out, err, timed_out, cpu_killed)


def pmap(fn, items, workers=NCPU):
    """ordered parallel map over threads (the work is done by child processes)"""
    items = list(items)
    if not items:
        return []
    with concurrent.futures.ThreadPoolExecutor(max_workers=workers) as ex:
        return list(ex.map(fn, items))


# ------------------------------------------------------------------ probe client

class ProbeDied(Exception):
    def __init__(self, case_id, stderr_tail, rc, marker):
        super().__init__("probe died at %s rc=%s %s" % (case_id, rc, marker))
        self.case_id, self.stderr_tail, self.rc, self.marker = case_id, stderr_tail, rc, marker


class Probe:
    """one `ddpprobe serve` child; requests are JSON lines; files are written before they are sent"""

    def __init__(self, scratch_dir):
        self.errpath = os.path.join(scratch_dir, "probe-%d-%d.err" % (os.getpid(), threading.get_ident()))
        self.p = None

    def _start(self):
        self.errf = open(self.errpath, "wb")
        self.p = subprocess.Popen([PROBE, "serve"], stdin=subprocess.PIPE, stdout=subprocess.PIPE, stderr=self.errf,
                                  env=base_env(), start_new_session=True)

    def request(self, req, wall_s=120):
        if self.p is None or self.p.poll() is not None:
            self._start()
        line = (json.dumps(req) + "\n").encode()
        timer = threading.Timer(wall_s, lambda: self.p.kill())
        timer.start()
        try:
            self.p.stdin.write(line)
            self.p.stdin.flush()
            began = None
            marker = ""
            while True:
                l = self.p.stdout.readline()
                if not l:
                    break
                if l.startswith(b"BEGIN "):
                    began = l[6:].strip().decode()
                elif l.startswith(b"RESULT "):
                    return json.loads(l[7:])
                elif l.startswith(b"HANG ") or l.startswith(b"MEM "):
                    marker = l.decode().strip()
        except (BrokenPipeError, OSError):
            pass
        finally:
            timed = not timer.is_alive()
            timer.cancel()
        rc = self.p.wait()
        self.errf.close()
        tail = ""
        try:
            with open(self.errpath, "rb") as f:
                tail = f.read()[:20000].decode("utf-8", "replace")
        except OSError:
            pass
        self.p = None
        if timed and not marker:
            marker = "WALLCLOCK"
        raise ProbeDied(req.get("id"), tail, rc, marker)

    def close(self):
        if self.p is not None and self.p.poll() is None:
            try:
                self.p.stdin.close()
                self.p.wait(timeout=5)
            except Exception:
                self.p.kill()
        self.p = None
        try:
            os.unlink(self.errpath)
        except OSError:
            pass


def classify_death(tail):
    """(kind, frame) for a dead Go worker from its stderr"""
    kind = "died"
    m = re.search(r"fatal error: ([^\n]+)", tail)
    if m:
        kind = "fatal: " + m.group(1).strip()
    elif "panic:" in tail:
        kind = "panic: " + tail.split("panic:", 1)[1].strip().split("\n")[0][:200]
    frames = []
    for m in re.finditer(r"^github\.com/DDP-Projekt/Kompilierer/(\S+?)\(", tail, re.M):
        if m.group(1) not in frames:
            frames.append(m.group(1))
        if len(frames) >= 4:
            break
    return kind, " < ".join(frames)


# ------------------------------------------------------------------ native runners

def kddp_compile(src_file, out_path, O=1, link_modules=True, link_listdefs=True, gcc_opts=None, cwd=None, wall_s=180, extra=None):
    args = [KDDP, "kompiliere", src_file, "-o", out_path, "-O", str(O)]
    if not link_modules:
        args.append("--module-linken=false")
    if not link_listdefs:
        args.append("--list-defs-linken=false")
    if gcc_opts:
        args += ["--gcc-optionen", gcc_opts]
    if extra:
        args += extra
    return run(args, cwd=cwd or os.path.dirname(src_file), wall_s=wall_s, cpu_s=120)


def run_exe(path, args=(), stdin=None, wall_s=30, cpu_s=10, env_extra=None, cwd=None, binary=False):
    return run([path] + list(args), cwd=cwd or os.path.dirname(path), env=base_env(env_extra), stdin=stdin, wall_s=wall_s,
               cpu_s=cpu_s, as_bytes=2 << 30, binary=binary)


LEDGER_O = os.path.join(BUILD, "native", "ledger.o")


def ledger_gcc_opts():
    return "-Wl,--wrap=ddp_reallocate %s -lddpruntime" % LEDGER_O


def run_memcheck(path, args=(), wall_s=120):
    va = ["valgrind", "--error-exitcode=97", "--leak-check=full", "--errors-for-leak-kinds=definite,indirect,possible",
          "--track-origins=no", "-q", path] + list(args)
    return run(va, cwd=os.path.dirname(path), wall_s=wall_s, cpu_s=100)


ASAN_ENV = {"ASAN_OPTIONS": "abort_on_error=0:halt_on_error=1:detect_leaks=0:exitcode=98:allocator_may_return_null=1",
            "UBSAN_OPTIONS": "halt_on_error=1:print_stacktrace=1:exitcode=98"}


def link_asan(obj_path, exe_path, extra_objs=(), wall_s=120):
    """link an object emitted by kddp against the ASan+UBSan build of runtime and stdlib"""
    lib = os.path.join(DDP_ASAN, "lib")
    args = ["clang", "-fsanitize=address,undefined", "-o", exe_path, os.path.join(lib, "main.o"), obj_path] + list(extra_objs) + [
        "-L" + lib, "-lddpstdlib", "-lddpruntime", "-lddpstdlib", "-lddpruntime", "-lm", "-lz", "-llzma", "-lbz2", "-llz4"]
    return run(args, wall_s=wall_s)


def compile_asan_ir(src_file, exe_path, O=0, wall_s=180):
    """asan_ir: kddp emits textual LLVM IR of the whole program (imported modules and list helpers linked in, not run through
    LLVM's optimiser), every function definition gets the sanitize_address attribute, clang instruments and compiles it, and the
    result is linked against the ASan+UBSan build of runtime and stdlib: red zones and use-after-free checks on every load/store
    of the *generated* code. Returns (stage, Proc): stage 'ok' | 'kddp' | 'clang' | 'link'."""
    base = os.path.splitext(exe_path)[0]
    ll, lla, obj = base + ".ll", base + ".asan.ll", base + ".asan.o"
    c = kddp_compile(src_file, ll, O=O, wall_s=wall_s)
    if c.timed_out or c.rc != 0:
        return "kddp", c
    ndef = 0
    with open(ll, errors="surrogateescape") as f, open(lla, "w", errors="surrogateescape") as g:
        for line in f:
            if line.startswith("define ") and line.rstrip().endswith("{"):
                line = line.rstrip()[:-1] + "sanitize_address {\n"
                ndef += 1
            g.write(line)
    c = run(["clang", "-fsanitize=address", "-O0", "-g0", "-Wno-override-module", "-c", lla, "-o", obj], wall_s=wall_s)
    if c.timed_out or c.rc != 0 or ndef == 0:
        return "clang", c
    l = link_asan(obj, exe_path, wall_s=wall_s)
    if l.timed_out or l.rc != 0:
        return "link", l
    return "ok", l


# ------------------------------------------------------------------ evidence / replay / known findings

def seed_from_env():
    try:
        return int(os.environ.get("VERIF_SEED", "0"))
    except ValueError:
        return 0


class Check:
    """bookkeeping of one check run: verdicts, evidence file, replay dirs, known findings"""

    def __init__(self, pid, tier, level="exploration"):
        self.pid, self.tier, self.level = pid, tier, level
        self.seed = seed_from_env()
        self.t0 = time.time()
        self.violations = []      # (signature, replay_path)
        self.known_hits = {}      # finding id -> count
        self.inconclusive = 0
        self.evaluations = 0
        self.distinct = set()
        self.distinct_extra = 0   # distinct cases counted by the worker itself (not materialised here)
        self.samples = []
        self.counters = {}
        self.assumptions = []
        self.rule = ""
        self.extra = {}
        self.lock = threading.Lock()
        # replay directories of earlier runs of this check describe another tree: start clean
        if not os.environ.get("VERIF_REPLAYING"):
            shutil.rmtree(os.path.join(OUT, "replay", pid), ignore_errors=True)
        kf = os.path.join(VERIF, "known_findings.json")
        self.known = []
        if os.path.exists(kf):
            for e in json.load(open(kf)).get("findings", []):
                if e.get("property") == pid and e.get("status") == "known":
                    self.known.append(e)

    def count(self, key, n=1):
        with self.lock:
            self.counters[key] = self.counters.get(key, 0) + n

    def note_case(self, distinct_key=None, nontrivial=True):
        with self.lock:
            self.evaluations += 1
            if nontrivial and distinct_key is not None:
                self.distinct.add(distinct_key)

    def sample(self, s, limit=6):
        with self.lock:
            if len(self.samples) < limit:
                self.samples.append(s)

    def match_known(self, sig):
        """sig: dict describing the violation; a known finding matches when all its `match` keys
        are regex-found in the corresponding sig entries"""
        for e in self.known:
            ok = True
            for k, pat in e.get("match", {}).items():
                v = sig.get(k)
                if v is None or not re.search(pat, str(v)):
                    ok = False
                    break
            if ok:
                return e
        return None

    def violation(self, sig, files=None, text=None):
        """report a violation: either a listed known finding or a real one (replay dir + VIOLATION line)"""
        e = self.match_known(sig)
        with self.lock:
            if e is not None:
                self.known_hits[e["id"]] = self.known_hits.get(e["id"], 0) + 1
                return False
            key = json.dumps(sig, sort_keys=True, ensure_ascii=False)
            h = hashlib.sha1(key.encode()).hexdigest()[:12]
            d = os.path.join(OUT, "replay", self.pid, h)
            if any(v[1] == d for v in self.violations):
                return True
            os.makedirs(d, exist_ok=True)
            with open(os.path.join(d, "violation.json"), "w") as f:
                json.dump({"property": self.pid, "signature": sig, "seed": self.seed, "tier": self.tier, "detail": text}, f, indent=1, ensure_ascii=False)
            for name, content in (files or {}).items():
                p = os.path.join(d, name)
                os.makedirs(os.path.dirname(p), exist_ok=True)
                mode = "wb" if isinstance(content, bytes) else "w"
                with open(p, mode) as f:
                    f.write(content)
            self.violations.append((sig, d))
            if len(self.violations) <= 25:
                print("VIOLATION property=%s replay=%s" % (self.pid, d), flush=True)
                log("  signature:", json.dumps(sig, ensure_ascii=False)[:600])
            return True

    def finish(self, min_events=1):
        wall = time.time() - self.t0
        for e in self.known:
            if self.known_hits.get(e["id"]):
                print("KNOWN-FINDING: property=%s %s (%s; matched %d times)" % (self.pid, e["id"], e["what"], self.known_hits[e["id"]]), flush=True)
        cov = {
            "evaluations": self.evaluations,
            "distinct_nontrivial": len(self.distinct) + self.distinct_extra,
            "rule": self.rule,
            "samples": self.samples[:10] or ["<none>"],
            "inconclusive": self.inconclusive,
            "known_findings_matched": self.known_hits,
            "counters": self.counters,
        }
        cov.update(self.extra)
        ev = {
            "property_id": self.pid, "tier": self.tier, "seed": self.seed, "level": self.level,
            "coverage": cov, "assumptions": self.assumptions, "wall_s": round(wall, 2), "violations": len(self.violations),
        }
        os.makedirs(os.path.join(OUT, "evidence"), exist_ok=True)
        with open(os.path.join(OUT, "evidence", self.pid + ".json"), "w") as f:
            json.dump(ev, f, indent=1, ensure_ascii=False)
        log("[%s] %s: evaluations=%d distinct=%d inconclusive=%d violations=%d known=%s wall=%.1fs" % (
            self.pid, self.tier, self.evaluations, len(self.distinct) + self.distinct_extra, self.inconclusive, len(self.violations), self.known_hits, wall))
        if self.violations:
            return 1
        if self.evaluations < min_events or len(self.distinct) + self.distinct_extra < 2:
            log("[%s] check did not observe enough" % self.pid)
            return 2
        if self.evaluations and self.inconclusive > max(2, 0.02 * self.evaluations):
            log("[%s] too many inconclusive cases" % self.pid)
            return 2
        return 0


def write_file(path, content):
    os.makedirs(os.path.dirname(path), exist_ok=True)
    mode = "wb" if isinstance(content, bytes) else "w"
    with open(path, mode) as f:
        f.write(content)


def copy_corpus(dst):
    """all .ddp files of the repository (tests, examples, Duden) into dst, keeping relative layout"""
    n = 0
    for sub in ("tests/testdata", "examples", "lib/stdlib/Duden"):
        root = os.path.join(REPO, sub)
        for dp, dn, fn in os.walk(root):
            for f in fn:
                if f.endswith(".ddp"):
                    rel = os.path.relpath(os.path.join(dp, f), REPO)
                    t = os.path.join(dst, rel)
                    os.makedirs(os.path.dirname(t), exist_ok=True)
                    shutil.copyfile(os.path.join(dp, f), t)
                    n += 1
    return n
