#!/usr/bin/python3
"""Mutation self-test of the checks (DESIGN §3.9): each mutant is a small realistic break of one property that still
compiles and passes the pinned tests. The mutant is applied to a scratch copy of /repo, the property's check is run
against it (VERIF_REPO / VERIF_BUILD / VERIF_OUT point to scratch), and exit status 1 with a VIOLATION line is expected.
usage: selftest.py [ids...]      (no ids: all)   results: /verif/mutants/RESULTS.json"""
import json
import os
import shutil
import subprocess
import sys

VERIF = os.path.dirname(os.path.dirname(os.path.abspath(__file__)))
ROOT = "/var/tmp/verif-selftest"

# (id, property, checks to run, file, old, new)
MUTANTS = [
    ("C01-fcmp-le", "C01", ["C01"], "src/compiler/compiler.go", "c.latestReturn = c.cbb.NewFCmp(enum.FPredOLT, lhs, rhs)", "c.latestReturn = c.cbb.NewFCmp(enum.FPredOLE, lhs, rhs)"),
    ("C01-for-sle-slt", "C01", ["C01"], "src/compiler/compiler.go", "cond = new_IorF_comp(enum.IPredSLE, enum.FPredOLE,", "cond = new_IorF_comp(enum.IPredSLT, enum.FPredOLE,"),
    ("C01-byte-minus-swap", "C01", ["C01"], "src/compiler/compiler.go", "c.latestReturn = c.cbb.NewSub(c.floatOrByteAsInt(lhs, c.ddpbytetyp), rhs)", "c.latestReturn = c.cbb.NewSub(rhs, c.floatOrByteAsInt(lhs, c.ddpbytetyp))"),
    ("C01-mod-urem", "C01", ["C01"], "src/compiler/compiler.go", "c.latestReturn = c.cbb.NewSRem(c.floatOrByteAsInt(lhs, lhsTyp), c.floatOrByteAsInt(rhs, rhsTyp))", "c.latestReturn = c.cbb.NewURem(c.floatOrByteAsInt(lhs, lhsTyp), c.floatOrByteAsInt(rhs, rhsTyp))"),
    ("C02-drop-byte-logic-widen", "C02", ["C02"], "src/compiler/compiler.go", "if lhsTyp != c.ddpbytetyp || rhsTyp != c.ddpbytetyp {", "if lhsTyp != c.ddpbytetyp && rhsTyp != c.ddpbytetyp {"),
    ("C03-no-arity-guard", "C03", ["C03"], "src/parser/typechecker/typechecker.go", "if len(overload.Parameters) != len(operands) {", "if false && len(overload.Parameters) != len(operands) {"),
    ("C04-const-assign", "C04", ["C04", "C03"], "src/parser/resolver/resolver.go", "} else if _, isConst := varDecl.(*ast.ConstDecl); isConst {\n\t\t\tr.err(ddperror.SEM_BAD_NAME_CONTEXT, assign.Token().Range,", "} else if _, isConst := varDecl.(*ast.ConstDecl); isConst && false {\n\t\t\tr.err(ddperror.SEM_BAD_NAME_CONTEXT, assign.Token().Range,"),
    ("C05-continue-frees-loop-scope", "C05", ["C05", "C01"], "src/compiler/compiler.go", "for scp := c.scp; scp != c.curLoopScope; scp = c.exitScope(scp) {", "for scp := c.scp; scp != c.curLoopScope.enclosing; scp = c.exitScope(scp) {"),
    ("C05-assign-no-free", "C05", ["C05"], "src/compiler/compiler.go", "\t\tc.freeNonPrimitive(lhs, lhsTyp) // free the old value in the variable/list\n", "\n"),
    ("C06-index-sge-sgt", "C06", ["C06"], "src/compiler/compiler.go", "cond := c.cbb.NewAnd(c.cbb.NewICmp(enum.IPredSLT, index, listLen), c.cbb.NewICmp(enum.IPredSGE, index, zero))", "cond := c.cbb.NewAnd(c.cbb.NewICmp(enum.IPredSLE, index, listLen), c.cbb.NewICmp(enum.IPredSGE, index, zero))"),
    ("C06-string-index-lower", "C06", ["C06"], "lib/runtime/source/DDP/operators.c", "\tif (index < 1) {\n\t\tddp_runtime_error(1, \"Texte fangen bei Index 1 an. Es wurde wurde versucht \" DDP_INT_FMT \" zu indizieren\\n\", index);\n\t}\n\n\tif (index > str->cap || str->cap <= 1) {", "\tif (index < 0) {\n\t\tddp_runtime_error(1, \"Texte fangen bei Index 1 an. Es wurde wurde versucht \" DDP_INT_FMT \" zu indizieren\\n\", index);\n\t}\n\n\tif (index > str->cap || str->cap <= 1) {"),
    ("C07-resolver-no-faulty", "C07", ["C07"], "src/parser/interface.go", "\tif scannerErrored {\n\t\tmodule.Ast.Faulty = true\n\t}", "\tif scannerErrored && false {\n\t\tmodule.Ast.Faulty = true\n\t}"),
    ("C07-escape-range", "C07", ["C07"], "src/scanner/scanner.go", "if next := s.peekNext(); next == '\\n' || next == eof {", "if next := s.peekNext(); next == eof {"),
    ("C08-isprivate-always", "C08", ["C08"], "src/compiler/compiler.go", "if isTemp || c.isPrivateArgument(e, param.Name.Literal) {", "if true || isTemp || c.isPrivateArgument(e, param.Name.Literal) {"),
    ("C11-O1-elision", "C11", ["C11", "C08"], "src/compiler/compiler.go", "if !v.isRef && (!meta.IsConst[paramDecl.Name()] || c.optimizationLevel < 2) {", "if !v.isRef && (!meta.IsConst[paramDecl.Name()] || c.optimizationLevel < 1) {"),
    ("C13-cr-column", "C13", ["C13"], "src/scanner/scanner.go", "\t\tcase '\\r':\n\t\t\ts.advance()", "\t\tcase '\\r':\n\t\t\ts.advance()\n\t\t\ts.column--"),
    ("C13-indent-three", "C13", ["C13"], "src/scanner/scanner.go", "if s.shouldIndent && consecutiveSpaceCount == 4 {", "if s.shouldIndent && consecutiveSpaceCount == 3 {"),
    ("C19-accept-unknown-escape", "C19", ["C19"], "src/scanner/scanner.go", "\tcase 'a', 'b', 'n', 'r', 't', '\\\\', quote:\n\t\ts.advance()\n\t\treturn true", "\tcase 'a', 'b', 'n', 'r', 't', 'q', '\\\\', quote:\n\t\ts.advance()\n\t\treturn true"),
    ("C19-parseuint", "C19", ["C19"], "src/parser/expressions.go", "if val, err := strconv.ParseInt(lit.Literal, 10, 64); err == nil {", "if uval, err := strconv.ParseUint(lit.Literal, 10, 64); err == nil {\n\t\tval := int64(uval)"),
]


def run(ids):
    os.makedirs(ROOT, exist_ok=True)
    results = {}
    for mid, prop, checks, rel, old, new in MUTANTS:
        if ids and mid not in ids:
            continue
        copy = os.path.join(ROOT, mid, "repo")
        shutil.rmtree(os.path.join(ROOT, mid), ignore_errors=True)
        os.makedirs(os.path.dirname(copy))
        subprocess.run(["rsync", "-a", "--exclude", ".git", "--exclude", "llvm-project", "/repo/", copy + "/"], check=True)
        p = os.path.join(copy, rel)
        s = open(p).read()
        if s.count(old) < 1:
            results[mid] = {"status": "mutation site not found (%d matches)" % s.count(old)}
            print(mid, results[mid], flush=True)
            shutil.rmtree(os.path.join(ROOT, mid), ignore_errors=True)
            continue
        open(p, "w").write(s.replace(old, new, 1))
        env = dict(os.environ, VERIF_REPO=copy, VERIF_BUILD=os.path.join(ROOT, mid, "build"), VERIF_OUT=os.path.join(ROOT, mid, "out"), GOFLAGS="-mod=mod", GOPROXY="off")
        # the mutant must still pass the pinned tests
        t = subprocess.run("cd %s && go test -vet=off -count=1 ./src/... 2>&1 | grep -E '^(FAIL|ok)[[:space:]]+[^[:space:]]' | grep -v 'src/compiler'" % copy, shell=True, env=env, capture_output=True, text=True)
        tests_ok = "FAIL" not in t.stdout
        res = {"property": prop, "pinned_tests_pass": tests_ok, "checks": {}}
        for c in checks:
            r = subprocess.run([os.path.join(VERIF, "check"), c], cwd=VERIF, env=env, capture_output=True, text=True)
            sigs = [l.strip()[:260] for l in r.stderr.split("\n") if "signature:" in l][:3]
            res["checks"][c] = {"rc": r.returncode, "violations": r.stdout.count("VIOLATION property="), "signatures": sigs}
        res["caught"] = any(v["rc"] == 1 and v["violations"] > 0 for v in res["checks"].values())
        results[mid] = res
        print(mid, json.dumps(res)[:600], flush=True)
        shutil.rmtree(os.path.join(ROOT, mid), ignore_errors=True)
    os.makedirs(os.path.join(VERIF, "mutants"), exist_ok=True)
    out = os.path.join(VERIF, "mutants", "RESULTS.json")
    prev = json.load(open(out)) if os.path.exists(out) else {}
    prev.update(results)
    json.dump(prev, open(out, "w"), indent=1)


if __name__ == "__main__":
    run(sys.argv[1:])
