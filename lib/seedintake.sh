#!/bin/bash
# usage: seedintake.sh <worktree> <work dir with out/{patch.diff,demo,REPORT.md}> <seed name, e.g. C09d> <check ids...>
# Confirms an independently produced change myself: (1) the pinned tests pass in the worktree, (2) the owning checks are run against the
# worktree (lib/seedtest.sh; own build dir), (3) the demonstration fails on that build and passes on the build of the unchanged tree,
# then stores patch.diff, demo/ and REPORT.md under /verif/seeded/<name>/. Prints one summary line per step.
WT="$1"; WORK="$2"; NAME="$3"; shift 3
export GOFLAGS=-mod=mod GOPROXY=off; unset GOSUMDB GOTOOLCHAIN
cd /verif || exit 2
t=$(cd "$WT" && go test -vet=off -count=1 ./src/... 2>&1 | grep -E '^(FAIL|ok)[[:space:]]+[^[:space:]]' | grep -v 'src/compiler')
if echo "$t" | grep -q FAIL; then echo "$NAME pinned tests: FAIL"; echo "$t" | grep FAIL | head; else echo "$NAME pinned tests: ok ($(echo "$t" | grep -c '^ok') packages)"; fi
git -C "$WT" diff > /var/tmp/seedintake_$NAME.diff
echo "$NAME patch: $(grep -c '^diff' /var/tmp/seedintake_$NAME.diff) files, $(grep -c '^[+-][^+-]' /var/tmp/seedintake_$NAME.diff) changed lines"
lib/seedtest.sh "$WT" "i$NAME" "$@"
if [ -x "$WORK/out/demo/run.sh" ] || [ -f "$WORK/out/demo/run.sh" ]; then
  (cd "$WORK/out/demo" && timeout 600 bash ./run.sh "/var/tmp/seedbuild/i$NAME" >/var/tmp/seedintake_$NAME.mut.log 2>&1); echo "$NAME demo on changed build: rc=$? (expect != 0)"
  (cd "$WORK/out/demo" && timeout 600 bash ./run.sh /verif/build >/var/tmp/seedintake_$NAME.base.log 2>&1); echo "$NAME demo on unchanged build: rc=$? (expect 0)"
fi
mkdir -p "seeded/$NAME"
cp /var/tmp/seedintake_$NAME.diff "seeded/$NAME/patch.diff"
rm -rf "seeded/$NAME/demo"; cp -r "$WORK/out/demo" "seeded/$NAME/demo" 2>/dev/null
cp "$WORK/out/REPORT.md" "seeded/$NAME/REPORT.md" 2>/dev/null
find "seeded/$NAME/demo" -type f -size +200k -delete 2>/dev/null
echo "$NAME stored; logs: /var/tmp/seedout/i$NAME/"
