#!/bin/bash
# usage: mkinstall.sh <repo worktree> <out dir>
# Builds kddp, runtime, stdlib (without regex/compression), list defs, Duden and a de_DE.UTF-8 locale shim from <repo worktree>
# into <out dir>/DDP (use as DDPPATH) and <out dir>/locale (use as LOCPATH). Offline. Incremental only for Go (build cache).
set -euo pipefail
REPO="$(cd "$1" && pwd)"; OUT="$2"
export GOFLAGS=-mod=mod GOPROXY=off
unset GOSUMDB GOTOOLCHAIN || true
mkdir -p "$OUT"; OUT="$(cd "$OUT" && pwd)"
DDP="$OUT/DDP"; mkdir -p "$DDP/bin" "$DDP/lib" "$OUT/obj/rt" "$OUT/obj/std"
(cd "$REPO/cmd/kddp" && CGO_CPPFLAGS="$(llvm-config-14 --cppflags)" CGO_CXXFLAGS=-std=c++14 \
  CGO_LDFLAGS="$(llvm-config-14 --ldflags --libs --system-libs all)" go build -tags byollvm -o "$DDP/bin/kddp" .)
CF="-O2 -std=c11 -D_POSIX_C_SOURCE=200809L -Wno-format"
for f in "$REPO"/lib/runtime/source/DDP/*.c "$REPO"/lib/runtime/source/DDP/*/*.c; do
  gcc -c $CF -I"$REPO/lib/runtime/include" -o "$OUT/obj/rt/$(basename "${f%.c}").o" "$f" & done
gcc -c $CF -I"$REPO/lib/runtime/include" -o "$DDP/lib/main.o" "$REPO/lib/runtime/source/main.c" &
for f in "$REPO"/lib/stdlib/source/DDP/*.c; do
  case "$(basename "$f")" in regex.c|compression.c) continue;; esac
  gcc -c $CF -I"$REPO/lib/stdlib/include" -I"$REPO/lib/runtime/include" -o "$OUT/obj/std/$(basename "${f%.c}").o" "$f" & done
wait
rm -f "$DDP"/lib/libddpruntime.a "$DDP"/lib/libddpstdlib.a
ar rcs "$DDP/lib/libddpruntime.a" "$OUT"/obj/rt/*.o
ar rcs "$DDP/lib/libddpstdlib.a" "$OUT"/obj/std/*.o
[ -f "$DDP/lib/libpcre2-8.a" ] || ar rcs "$DDP/lib/libpcre2-8.a"
[ -f "$DDP/lib/libarchive.a" ] || ar rcs "$DDP/lib/libarchive.a"
rm -rf "$DDP/Duden" "$DDP/lib/runtime" "$DDP/lib/stdlib"; mkdir -p "$DDP/lib/runtime" "$DDP/lib/stdlib"
cp -r "$REPO/lib/stdlib/Duden" "$DDP/Duden"
cp -r "$REPO/lib/runtime/include" "$DDP/lib/runtime/include"
cp -r "$REPO/lib/stdlib/include" "$DDP/lib/stdlib/include"
mkdir -p "$OUT/obj/listdefs"
(cd "$OUT/obj/listdefs" && DDPPATH="$DDP" "$DDP/bin/kddp" dump-list-defs -o ddp_list_types_defs --llvm-ir --object >/dev/null && mv -f ddp_list_types_defs.ll ddp_list_types_defs.o "$DDP/lib/")
[ -f "$OUT/locale/de_DE.UTF-8/LC_NUMERIC" ] || /usr/bin/python3 "$(dirname "$0")/mklocale.py" "$OUT/locale"
echo "ok: DDPPATH=$DDP LOCPATH=$OUT/locale"
