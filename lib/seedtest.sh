#!/bin/bash
# usage: seedtest.sh <seed worktree or repo copy> <tag> <check ids...>
# runs the given checks against a scratch copy of the repository (VERIF_REPO) with its own build dir and output dir
REPO_COPY="$1"; TAG="$2"; shift 2
export VERIF_REPO="$REPO_COPY" VERIF_BUILD="/var/tmp/seedbuild/$TAG" VERIF_OUT="/var/tmp/seedout/$TAG"
mkdir -p "$VERIF_BUILD" "$VERIF_OUT"
for c in "$@"; do
  ( cd /verif && ./check "$c" > "$VERIF_OUT/$c.log" 2>&1; echo "$TAG $c rc=$? $(grep -c '^VIOLATION' "$VERIF_OUT/$c.log") violations; $(grep -a 'signature' "$VERIF_OUT/$c.log" | head -3 | cut -c1-240 | tr '\n' ' ')" )
done
