#!/bin/bash
# runs the repository's pinned baseline (38 front-end tests) with the verif build tag OFF
cd /repo || exit 2
export GOFLAGS=-mod=mod GOPROXY=off
go test -json -vet=off -count=1 -timeout 25m ./... 2>/dev/null | python3 -c '
import sys, json
ok=set(); fail=set()
for l in sys.stdin:
    try: e=json.loads(l)
    except Exception: continue
    if e.get("Test") and e.get("Action") in ("pass","fail"):
        (ok if e["Action"]=="pass" else fail).add(e["Package"]+"::"+e["Test"])
base=json.load(open("/root/.vp/BASELINE.json"))["stable_pass"]
missing=[t for t in base if t not in ok]
print("baseline tests passing: %d/%d" % (len(base)-len(missing), len(base)))
for m in missing: print("NOT PASSING:", m)
sys.exit(1 if missing else 0)
'
