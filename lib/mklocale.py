#!/usr/bin/python3
"""Create a de_DE.UTF-8 locale shim from C.utf8: identical except decimal point ','.
The sandbox only has C.utf8; the DDP runtime calls setlocale(LC_ALL,"de_DE.UTF-8")."""
import os, shutil, struct, sys
dst_root = sys.argv[1]
src = "/usr/lib/locale/C.utf8"
dst = os.path.join(dst_root, "de_DE.UTF-8")
if os.path.exists(dst):
    shutil.rmtree(dst)
os.makedirs(dst_root, exist_ok=True)
shutil.copytree(src, dst)
p = os.path.join(dst, "LC_NUMERIC")
b = bytearray(open(p, "rb").read())
magic, n = struct.unpack_from("<II", b, 0)
offs = struct.unpack_from("<%dI" % n, b, 8)
assert b[offs[0]] == 0x2e, "unexpected LC_NUMERIC layout"
b[offs[0]] = 0x2c
wc, = struct.unpack_from("<I", b, offs[3])
assert wc == 0x2e
struct.pack_into("<I", b, offs[3], 0x2c)
open(p, "wb").write(b)
