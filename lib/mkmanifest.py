#!/usr/bin/python3
"""writes /verif/MANIFEST.json from the table below (kept in one place so it stays valid)"""
import json, os, subprocess
VERIF = os.path.dirname(os.path.dirname(os.path.abspath(__file__)))

CHECKS = {
    "C03": dict(
        technique="runtime monitoring: crash/hang/RSS monitor on sacrificial front-end workers (mutation + hostile import graphs)",
        category="exploration", design="§4 C03",
        text="Held-on-observed: the real scanner/parser/resolver/typechecker run in sacrificial child processes on tens of thousands (quick) to "
             "hundreds of thousands (thorough) of near-valid mutants of every .ddp file in the repository, on hostile import graphs, on C04's catalogue of statically ill-formed programs and on 1 123 grammar-combinatorial programs (alias targets, operator-overload arities, shadowing, single-statement bodies, selective imports); the monitor "
             "watches for panics escaping parser.Parse, Go fatal errors, CPU-time and RSS budgets. Exploration is the right level: the input space is "
             "all byte strings, reach comes from mutation diversity.",
        note="Trusts: the Go runtime's fatal-error reporting, the CPU/RSS budgets (5 s + 2 ms/byte, 256 MiB + 64 KiB/byte, 256 MiB stack) as the meaning of 'bounded'."),
    "C07": dict(
        technique="runtime monitoring: invariant monitor at the diagnostic boundary (ErrorHandler hook) + CLI outcome monitor",
        category="exploration", design="§4 C07",
        text="Held-on-observed: every diagnostic delivered to parser.Options.ErrorHandler on mutants, targeted error positions and import graphs is "
             "checked against the range law and rendered by the real MakeAdvancedHandler; errors>=1 <=> Faulty per module; kddp exit status and "
             "artefact presence are compared with the front-end verdict on a seeded sample (both link modes); metamorphic law: a warning-only statement inserted into every function body of an accepted corpus program leaves it accepted.",
        note="Trusts: the probe's independent range law (code-point columns, line split on \\n); an error value returned by Parse counts as a delivered error."),
    "C13": dict(
        technique="runtime monitoring: law monitor + independent reference lexer over the tokens returned by the real scanner (exhaustive short strings)",
        category="exploration", design="§4 C13",
        text="Held-on-observed with an exhaustively enumerated core: scanner.Scan/ScanAlias are executed on every string up to length 5 (quick) / 7 "
             "(thorough) over a 15-symbol lexical-class alphabet (alias mode: 18 symbols, length 4/5), on random whole-lexeme strings, on every .ddp "
             "file of the repository and on ill-formed UTF-8; each returned token stream is judged by partition/position laws computed from the "
             "source text, by an independent lexer for kinds and by the indentation rule.",
        note="Trusts: the independent lexer (written from the lexical rules, keyword table = snapshot of the pinned keyword list); indent of tokens spanning lines is not judged."),
    "C01": dict(
        technique="runtime monitoring: reference-model monitor (independent evaluator) on stdout/exit status of compiled programs at -O 0/1/2",
        category="exploration", design="§4 C01, §10",
        text="Held-on-observed: seeded well-typed core-language programs (operator cell sweep over boundary value pools, random expression trees, random statement "
             "programs with every loop form, functions, Referenz parameters, Kombinationen, Variable; producer/consumer compositions: wrapping arithmetic over extreme operands consumed directly by comparisons, operators, conversions and conditions) are compiled by the real kddp and run; every tagged observation "
             "line and the exit status are compared byte for byte with ddpmodel's reference evaluator. Programs are generated-and-filtered by the model so they stay "
             "in the domain where it is authoritative; a failing program is reduced and reported by the shape of the reduced witness.",
        note="Trusts: the reference evaluator (validated on a hand-written broad program and on upstream's rules, DESIGN §8); Python float == IEEE double with glibc formatting; locale shim."),
    "C02": dict(
        technique="runtime monitoring: outcome monitor on the real tools over an exhaustively enumerated operator x type-class x context space",
        category="exploration", design="§4 C02, §10",
        text="Held-on-observed, exhaustive in a finite space: every unary/binary/ternary operator and cast over 22 operand type classes, operands as variables and as "
             "temporaries and - one slot at a time - as operands spanning several basic blocks, in up to 20 value contexts; statement-level cells (loop headers, repeat counts, assignments, declarations, returns, arguments, field defaults) over the same type classes; each cell is one function. The real front end selects the accepted cells; programs assembled from accepted cells "
             "only must be compiled and linked by kddp and their emitted IR must pass llvm-as. Failures are bisected down to single cells.",
        note="Trusts: nothing but the tools' own outcomes; quick samples the context dimension (thorough enumerates it)."),
    "C04": dict(
        technique="runtime monitoring: invariant monitor at the front end's diagnostic boundary on single-fault programs with positive controls",
        category="exploration", design="§4 C04, §10",
        text="Held-on-observed: front-end-accepted base programs get exactly one injected static fault (catalogue of ~330 faults over 45 classes: scoping, redeclaration, "
             "operand/initialiser/assignment/argument/condition/bound/return types, Konstante mutation, loop control, missing return, visibility across modules, "
             "articles; return rules over every function declaration form x return type) at five syntactic sites; each fault has a well-formed twin that must be accepted. The faulty program must yield >= 1 error and Faulty; a "
             "sample goes through kddp (exit != 0, no executable).",
        note="Trusts: the catalogue entries are ill-formed by construction (each validated standalone against its twin); faults whose twin is not accepted at a site are discarded and counted."),
    "C05": dict(
        technique="runtime monitoring: allocation ledger (link-time --wrap of ddp_reallocate) + valgrind memcheck + ASan/UBSan runtime + ASan-instrumented emitted IR on generated programs",
        category="exploration", design="§4 C05, §10",
        text="Held-on-observed: ownership-biased generated programs run under four monitors - the ledger checks every (pointer, old size, new size) event against its "
             "shadow table and that nothing is live at normal exit, at -O 0/1/2; memcheck watches the unmodified optimised executable; the ASan+UBSan build of runtime and "
             "stdlib watches library code; the IR kddp emits is instrumented by AddressSanitizer (every load/store of generated code). A violating program is reduced under the same monitor.",
        note="Trusts: interposition sees every ddp_reallocate call of generated code, runtime and stdlib; blocks obtained by plain malloc are counted as foreign, not judged; ASan leak detection is off."),
    "C06": dict(
        technique="runtime monitoring: reference-model monitor, one execution per (length, index) pair of argument-driven access programs",
        category="exploration", design="§4 C06, §10",
        text="Held-on-observed, exhaustive in a small space: one compiled program per (element type, access form) takes length and indices from the command line, so each "
             "of ~10 000 (quick) cases is one run of the real executable: lengths 0..13 x indices -2..len+2 and 64-bit extremes x 6 element types and multi-byte texts x "
             "{rvalue, temporary, Byte index, assignment, compound assignment, Referenz argument, nested, Kombination field, three slice forms}, Variable casts over all "
             "type pairs, '...' statements.",
        note="Trusts: the Python model of 1-based indexing and of the slice clamping rule (DESIGN §8)."),
    "C08": dict(
        technique="runtime monitoring: reference-model monitor on copy-then-mutate programs at -O 0/1/2",
        category="exploration", design="§4 C08, §10",
        text="Held-on-observed: each case creates a second holder of a non-primitive value through one of 13 copy-introducing constructs, mutates one holder through one of "
             "the mutation forms and prints every holder; includes f(x, x) with value and Referenz parameters and callees assigning a global they also receive by value, "
             "with read-only / assigning / passing-on callee bodies (the -O 2 elision trigger).",
        note="Trusts: value semantics of the reference evaluator (deep copy on every store)."),
    "C09": dict(
        technique="runtime monitoring: reference-model monitor (independent alias matcher) on the AST returned by the real parser and on run-time traces",
        category="exploration", design="§4 C09, §10",
        text="Held-on-observed: generated alias populations built to collide (prefixes, permuted placeholders, type twins, Referenz/value and generic/concrete twins, "
             "constructors, imports, negation markers, >12 candidates) and operator overload populations; every call site's resolved declaration and argument binding "
             "from the probe's AST dump is compared with an independent implementation of the stated rule; a sample is compiled and its printed trace compared.",
        note="Trusts: the matcher; sites where the rule leaves a tie are accepted either way and counted as trivial."),
    "C10": dict(
        technique="runtime monitoring: ordering / exactly-once checker over the initialiser trace of compiled import graphs + visibility matrix through the real front end",
        category="exploration", design="§4 C10, §10",
        text="Held-on-observed: generated import graphs (chains, diamonds, directory and selective imports, path spellings) whose every global initialiser prints a unique "
             "id are compiled and run; the trace must show each initialiser exactly once, dependencies first, before importer code after the import, no top-level statement "
             "of an import; cycles must be rejected. A visibility matrix (kind x visibility x import mode) is decided by the real front end, one name per program.",
        note="Trusts: unique ids make the trace unambiguous; the §8 source-order rule among siblings is stricter than the property and never fires on the tree."),
    "C11": dict(
        technique="runtime monitoring: differential monitor across the 12 (optimisation level, link mode) configurations",
        category="exploration", design="§4 C11, §10",
        text="Held-on-observed: generated programs with a self-contained print prelude (no imports, so --module-linken=false applies) and upstream's runnable programs are "
             "compiled under every configuration; exit status, stdout and run-time error class must agree. Disagreeing generated programs are reduced while two "
             "configurations still disagree. Multi-module programs (C10's generated import graphs with global initialisers) are built merged and with every imported module compiled separately (one kddp call per module, system linker) at -O 0/1/2.",
        note="Trusts: nothing but equality of observed behaviour; programs depending on time/randomness/environment are excluded by a deny list."),
    "C12": dict(
        technique="runtime monitoring: history checker against Python str on direct calls into the ASan/UBSan-built runtime + exhaustive scalar sweep + compiled programs",
        category="exploration", design="§4 C12, §10",
        text="Held-on-observed with an exhaustive core: a C driver linked against the real runtime (sanitizer and plain builds) pushes all 1 112 063 non-zero scalar values "
             "through the per-character operations and replays seeded command histories (literal, concat, slice, replace, index, length, equality, iteration) whose every "
             "step is compared with Python's str; the same histories run as compiled DDP programs, plain and linked against the ASan runtime.",
        note="Trusts: Python str as the code-point model; U+0000 is outside the domain (texts are NUL-terminated)."),
    "C17": dict(
        technique="runtime monitoring: reference-model monitor (Python models written from the doc comments) on generated driver programs",
        category="exploration", design="§4 C17, §10",
        text="Held-on-observed: 227 of 230 public functions of Listen, Texte, Sortierung, Zeichen, Zahlen, Mathe, Statistik are called through their documented aliases in "
             "generated drivers with boundary arguments; result and every argument after the call are compared with the model; a sample runs under memcheck.",
        note="Trusts: the doc comments as specification; ambiguous or contradictory comments are excluded and listed in the evidence."),
    "C18": dict(
        technique="runtime monitoring: identity-model monitor on generated C callees + allocation ledger + memcheck for ownership",
        category="exploration", design="§4 C18, §10",
        text="Held-on-observed: generated extern signatures (17 kinds x value/Referenz x arity 0-6 x every return kind, pairwise covering) with a generated C callee that prints "
             "what it receives, writes through every Referenz pointer and returns a fresh value; caller output, callee output and the ledger/memcheck verdicts are checked.",
        note="Trusts: published headers plus the conventions visible in stdlib C sources for Kombination layout."),
    "C14": dict(
        technique="runtime monitoring: law monitor over the real ddptypes predicates (exhaustive finite closure) + front-end acceptance monitor vs the stated assignability rule",
        category="exploration", design="§4 C14",
        text="Held-on-observed with an exhaustively enumerated core: ddpprobe builds the closure of {primitives, Variable, two same-named Kombinationen} under "
             "list-of/alias-of/definition-of (depth 3: 1 404 types, all ordered pairs, all triples; depth 4 pairs in thorough) with the real constructors and checks "
             "Equal/DeepEqual/GetUnderlying/Is* against an independent canonical form; at parser level every ordered pair of the syntax-expressible closure is put "
             "through initialisation, assignment and cast by the real front end and compared with the property's three-clause rule.",
        note="Trusts: the harness's canonical form (derived from its own construction terms); Standardwert expressions as type-S sources; a seeded sample is re-judged in Python."),
    "C15": dict(
        technique="runtime monitoring: differential monitor (generic program vs textual specialisation) on front-end verdict and compiled behaviour",
        category="exploration", design="§4 C15, §10",
        text="Held-on-observed: each generated unit is printed twice from one description - G with generic functions/Kombinationen, M with one textual specialisation per "
             "instantiation - and both must agree on front-end acceptance, on kddp producing an executable, and on stdout/exit status at -O 0/1/2; verdict pairs check "
             "that binding one type parameter to two types is rejected and that equal instantiations are one type. Upstream's generics tests are positive controls.",
        note="Trusts: the specialiser (validated by the positive controls; an M-side control failure voids the run)."),
    "C16": dict(
        technique="runtime monitoring: repetition monitor (N in-process parses + fresh kddp processes) with an order-injection hook at the map-iteration site",
        category="exploration", design="§4 C16",
        text="Held-on-observed: the same sources are compiled repeatedly - 20/50 times in one process under Go's natural map randomisation, 8/40 times with the "
             "verifhook.Order permutation hook, and 3-5 times as fresh kddp processes - and verdict, the full diagnostics sequence, call resolutions and the "
             "executable's behaviour must be identical. Workload families target every map-ordered site found in the code (import order, argument maps, generic "
             "maps, linker dependencies, alias ties, diamonds).",
        note="Trusts: every permutation injected at the hook is a legal Go map order; IR text is not compared; unhooked sites are only sampled by natural randomisation."),
    "C19": dict(
        technique="runtime monitoring: reference-model monitor on the output of compiled programs (independent literal decoder)",
        category="exploration", design="§4 C19",
        text="Held-on-observed: thousands of integer, decimal-comma, character, text (all texts up to length 3/4 over an escape-heavy fragment alphabet), truth-value "
             "and list literals are printed by programs compiled with the real kddp and compared with Python's int / correctly rounded float / an independent escape "
             "decoder; invalid literals must be rejected by the front end and by the CLI.",
        note="Trusts: Python float() as correctly rounded reference; Kommazahl observed through %.16g rendering; locale shim."),
    "C20": dict(
        technique="runtime monitoring: model-based history checking of alias_trie/ordered_map with the parser's own comparators + duplicate/callability monitor on programs",
        category="exploration", design="§4 C20",
        text="Held-on-observed: ddpprobe drives the real alias trie exactly as the parser does (Contains/Insert/Search/Copy with tokenEqual/tokenLess) through all insertion "
             "orders of <= 4 (thorough <= 6) keys and random histories of <= 12 keys over a vocabulary with look-alike types, against a plain-list model; generated programs "
             "declare colliding aliases in one file or across modules in permuted orders: duplicates must be diagnosed, declared aliases must stay callable.",
        note="Trusts: the plain-list model with tokenEqual as the notion of 'coincide'; intra-declaration alias collisions are outside the property."),
}

NOT_YET = {}


def main():
    props = [json.loads(l) for l in open(os.path.join(VERIF, "properties.jsonl"))]
    hooks = subprocess.check_output(["git", "-C", "/repo", "log", "--format=%h %s", "--grep=^verif hook"]).decode().strip().split("\n")
    checks, na = [], []
    for p in props:
        pid = p["id"]
        c = CHECKS.get(pid)
        if c is None:
            na.append({"property_id": pid, "reason": NOT_YET.get(pid, "check not built yet in this round (designed in DESIGN.md §4 %s); no claim is made" % pid)})
            continue
        checks.append({
            "property_id": pid,
            "quick_cmd": "./check %s --tier quick" % pid,
            "thorough_cmd": "./check %s --tier thorough" % pid,
            "evidence_file": "/verif/evidence/%s.json" % pid,
            "replay_cmd_template": "./check %s --replay {path}" % pid,
            "engine": c.get("engine", "ddpverif"),
            "level_claimed": {"category": c["category"], "text": c["text"], "design_ref": c["design"]},
            "level_note": c["note"],
            "technique": c["technique"],
        })
    m = {
        "version": 1,
        "setup_cmd": "./build.sh",
        "hooks": {
            "guard": "Go build tag `verif`",
            "enable": "build.sh builds kddp with -tags 'byollvm verif' and ddpprobe with -tags verif against /repo's working tree",
            "baseline_off_cmd": "/verif/lib/baseline_off.sh",
            "source_commits": [h.split()[0] for h in hooks if h],
            "add_only": True,
        },
        "engines": [
            {"name": "ddpverif", "path": "/verif/check", "serves_properties": [c["property_id"] for c in checks],
             "kind_free_text": "Python supervisor + Go worker (ddpprobe, links the real front end) + native runners (kddp CLI, ledger, valgrind, ASan/UBSan)"},
        ],
        "checks": checks,
        "not_applicable": na,
        "notes": "All checks observe executions of the real code rebuilt from /repo's working tree (build.sh). See DESIGN.md.",
    }
    with open(os.path.join(VERIF, "MANIFEST.json"), "w") as f:
        json.dump(m, f, indent=1, ensure_ascii=False)
    print("checks:", [c["property_id"] for c in checks], "not_applicable:", len(na))


if __name__ == "__main__":
    main()
