#!/usr/bin/python3
"""writes /verif/MANIFEST.json from the table below (kept in one place so it stays valid)"""
import json, os, subprocess
VERIF = os.path.dirname(os.path.dirname(os.path.abspath(__file__)))

CHECKS = {
    "C03": dict(
        technique="runtime monitoring: crash/hang/RSS monitor on sacrificial front-end workers (mutation + hostile import graphs)",
        category="exploration", design="§4 C03",
        text="Held-on-observed: the real scanner/parser/resolver/typechecker run in sacrificial child processes on tens of thousands (quick) to "
             "hundreds of thousands (thorough) of near-valid mutants of every .ddp file in the repository and on hostile import graphs; the monitor "
             "watches for panics escaping parser.Parse, Go fatal errors, CPU-time and RSS budgets. Exploration is the right level: the input space is "
             "all byte strings, reach comes from mutation diversity.",
        note="Trusts: the Go runtime's fatal-error reporting, the CPU/RSS budgets (5 s + 2 ms/byte, 256 MiB + 64 KiB/byte, 256 MiB stack) as the meaning of 'bounded'."),
    "C07": dict(
        technique="runtime monitoring: invariant monitor at the diagnostic boundary (ErrorHandler hook) + CLI outcome monitor",
        category="exploration", design="§4 C07",
        text="Held-on-observed: every diagnostic delivered to parser.Options.ErrorHandler on mutants, targeted error positions and import graphs is "
             "checked against the range law and rendered by the real MakeAdvancedHandler; errors>=1 <=> Faulty per module; kddp exit status and "
             "artefact presence are compared with the front-end verdict on a seeded sample.",
        note="Trusts: the probe's independent range law (code-point columns, line split on \\n); an error value returned by Parse counts as a delivered error."),
    "C13": dict(
        technique="runtime monitoring: law monitor + independent reference lexer over the tokens returned by the real scanner (exhaustive short strings)",
        category="exploration", design="§4 C13",
        text="Held-on-observed with an exhaustively enumerated core: scanner.Scan/ScanAlias are executed on every string up to length 5 (quick) / 7 "
             "(thorough) over a 15-symbol lexical-class alphabet (alias mode: 18 symbols, length 4/5), on random whole-lexeme strings, on every .ddp "
             "file of the repository and on ill-formed UTF-8; each returned token stream is judged by partition/position laws computed from the "
             "source text, by an independent lexer for kinds and by the indentation rule.",
        note="Trusts: the independent lexer (written from the lexical rules, keyword table = snapshot of the pinned keyword list); indent of tokens spanning lines is not judged."),
    "C14": dict(
        technique="runtime monitoring: law monitor over the real ddptypes predicates (exhaustive finite closure) + front-end acceptance monitor vs the stated assignability rule",
        category="exploration", design="§4 C14",
        text="Held-on-observed with an exhaustively enumerated core: ddpprobe builds the closure of {primitives, Variable, two same-named Kombinationen} under "
             "list-of/alias-of/definition-of (depth 3: 1 404 types, all ordered pairs, all triples; depth 4 pairs in thorough) with the real constructors and checks "
             "Equal/DeepEqual/GetUnderlying/Is* against an independent canonical form; at parser level every ordered pair of the syntax-expressible closure is put "
             "through initialisation, assignment and cast by the real front end and compared with the property's three-clause rule.",
        note="Trusts: the harness's canonical form (derived from its own construction terms); Standardwert expressions as type-S sources; a seeded sample is re-judged in Python."),
    "C16": dict(
        technique="runtime monitoring: repetition monitor (N in-process parses + fresh kddp processes) with an order-injection hook at the map-iteration site",
        category="exploration", design="§4 C16",
        text="Held-on-observed: the same sources are compiled repeatedly - 20/50 times in one process under Go's natural map randomisation, 8/40 times with the "
             "verifhook.Order permutation hook, and 3-5 times as fresh kddp processes - and verdict, the full diagnostics sequence, call resolutions and the "
             "executable's behaviour must be identical. Workload families target every map-ordered site found in the code (import order, argument maps, generic "
             "maps, linker dependencies, alias ties, diamonds).",
        note="Trusts: every permutation injected at the hook is a legal Go map order; IR text is not compared; unhooked sites are only sampled by natural randomisation."),
    "C19": dict(
        technique="runtime monitoring: reference-model monitor on the output of compiled programs (independent literal decoder)",
        category="exploration", design="§4 C19",
        text="Held-on-observed: thousands of integer, decimal-comma, character, text (all texts up to length 3/4 over an escape-heavy fragment alphabet), truth-value "
             "and list literals are printed by programs compiled with the real kddp and compared with Python's int / correctly rounded float / an independent escape "
             "decoder; invalid literals must be rejected by the front end and by the CLI.",
        note="Trusts: Python float() as correctly rounded reference; Kommazahl observed through %.16g rendering; locale shim."),
    "C20": dict(
        technique="runtime monitoring: model-based history checking of alias_trie/ordered_map with the parser's own comparators + duplicate/callability monitor on programs",
        category="exploration", design="§4 C20",
        text="Held-on-observed: ddpprobe drives the real alias trie exactly as the parser does (Contains/Insert/Search/Copy with tokenEqual/tokenLess) through all insertion "
             "orders of <= 4 (thorough <= 6) keys and random histories of <= 12 keys over a vocabulary with look-alike types, against a plain-list model; generated programs "
             "declare colliding aliases in one file or across modules in permuted orders: duplicates must be diagnosed, declared aliases must stay callable.",
        note="Trusts: the plain-list model with tokenEqual as the notion of 'coincide'; intra-declaration alias collisions are outside the property."),
}

NOT_YET = {}


def main():
    props = [json.loads(l) for l in open(os.path.join(VERIF, "properties.jsonl"))]
    hooks = subprocess.check_output(["git", "-C", "/repo", "log", "--format=%h %s", "--grep=^verif hook"]).decode().strip().split("\n")
    checks, na = [], []
    for p in props:
        pid = p["id"]
        c = CHECKS.get(pid)
        if c is None:
            na.append({"property_id": pid, "reason": NOT_YET.get(pid, "check not built yet in this round (designed in DESIGN.md §4 %s); no claim is made" % pid)})
            continue
        checks.append({
            "property_id": pid,
            "quick_cmd": "./check %s --tier quick" % pid,
            "thorough_cmd": "./check %s --tier thorough" % pid,
            "evidence_file": "/verif/evidence/%s.json" % pid,
            "replay_cmd_template": "./check %s --replay {path}" % pid,
            "engine": c.get("engine", "ddpverif"),
            "level_claimed": {"category": c["category"], "text": c["text"], "design_ref": c["design"]},
            "level_note": c["note"],
            "technique": c["technique"],
        })
    m = {
        "version": 1,
        "setup_cmd": "./build.sh",
        "hooks": {
            "guard": "Go build tag `verif`",
            "enable": "build.sh builds kddp with -tags 'byollvm verif' and ddpprobe with -tags verif against /repo's working tree",
            "baseline_off_cmd": "/verif/lib/baseline_off.sh",
            "source_commits": [h.split()[0] for h in hooks if h],
            "add_only": True,
        },
        "engines": [
            {"name": "ddpverif", "path": "/verif/check", "serves_properties": [c["property_id"] for c in checks],
             "kind_free_text": "Python supervisor + Go worker (ddpprobe, links the real front end) + native runners (kddp CLI, ledger, valgrind, ASan/UBSan)"},
        ],
        "checks": checks,
        "not_applicable": na,
        "notes": "All checks observe executions of the real code rebuilt from /repo's working tree (build.sh). See DESIGN.md.",
    }
    with open(os.path.join(VERIF, "MANIFEST.json"), "w") as f:
        json.dump(m, f, indent=1, ensure_ascii=False)
    print("checks:", [c["property_id"] for c in checks], "not_applicable:", len(na))


if __name__ == "__main__":
    main()
