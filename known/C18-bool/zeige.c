#include "DDP/ddptypes.h"
#include <stdio.h>
#include <string.h>
void zeige_bool(ddpbool x) { unsigned char raw; memcpy(&raw,&x,1); printf("raw byte = %u, (int)x = %d\n", raw, (int)x); }
