/*
	rt_driver - C12 harness calling the text functions of libddpruntime.a directly.

	modes
	  rt_driver sweep            exhaustive per-character sweep over all Unicode scalar values
	  rt_driver run [--nofork]   executes histories read from stdin (H: inside the driver process, HF: in a forked child;
	                             --nofork: all inside the process)

	history protocol (stdin, one command per line; slots are 0..NSLOT-1)
	  H <id>                 start of a history (all slots dead), executed inside the driver process
	  HF <id>                same, executed in a forked child (histories expected to end in exit(1) or a sanitizer report)
	  lit d <hex|->          slot d = ddp_string_from_constant(bytes)
	  c2s d <cp>             slot d = ddp_char_to_string(cp)
	  i2s d <int>            slot d = ddp_int_to_string(n)
	  copy d s               slot d = ddp_deep_copy_string(slot s)
	  cat d a b              slot d = ddp_string_string_verkettet(copy of a, b)
	  catsc d a <cp>         slot d = ddp_string_char_verkettet(copy of a, cp)
	  catcs d <cp> a         slot d = ddp_char_string_verkettet(cp, copy of a)
	  slice d a i j          slot d = ddp_string_slice(a, i, j)
	  repl a i <cp>          ddp_replace_char_in_string(slot a, cp, i)        (in place)
	  index a i              prints ddp_string_index
	  len a                  prints ddp_string_length
	  eq a b                 prints ddp_string_equal
	  iter a                 prints the code points decoded with utf8_string_to_char up to the terminator
	  s2i a                  prints ddp_string_to_int
	  free a                 ddp_free_string, slot becomes dead
	  E                      end of the history: dump of all live slots
	output (stdout)
	  R <k> <op> <scalar|-> {<slot>=<hex|->:<cap>}*      after command number k (0-based) of the history
	  INV <k> <slot> <what>                               structural invariant broken (NUL-terminated valid UTF-8, strlen+1 <= cap)
	  D <slot>=<hex|->:<cap> ...                          dump at E
	  B <id>                                              history starts
	  X <id> <exit status or -signal> <hex of stderr|->   history is over (forked: status and stderr of the child; in-process: 0 -)
	a history that kills the driver process itself has a B line but no X line; the caller resubmits what follows it
*/
#define _GNU_SOURCE
#include "DDP/ddpmemory.h"
#include "DDP/ddptypes.h"
#include "DDP/runtime.h"
#include "DDP/utf8/utf8.h"
#include <inttypes.h>
#include <stdarg.h>
#include <stdio.h>
#include <stdlib.h>
#include <string.h>
#include <sys/types.h>
#include <sys/wait.h>
#include <unistd.h>

/* declared in DDP/ddptypes.h / operators.c but without a header of their own */
ddpint ddp_string_length(ddpstring *str);
ddpchar ddp_string_index(ddpstring *str, ddpint index);
void ddp_replace_char_in_string(ddpstring *str, ddpchar ch, ddpint index);
void ddp_string_slice(ddpstring *ret, ddpstring *str, ddpint index1, ddpint index2);
void ddp_string_string_verkettet(ddpstring *ret, ddpstring *str1, ddpstring *str2);
void ddp_char_string_verkettet(ddpstring *ret, ddpchar c, ddpstring *str);
void ddp_string_char_verkettet(ddpstring *ret, ddpstring *str, ddpchar c);
ddpint ddp_string_to_int(ddpstring *str);
void ddp_int_to_string(ddpstring *ret, ddpint i);
void ddp_char_to_string(ddpstring *ret, ddpchar c);
ddpbool ddp_string_equal(ddpstring *str1, ddpstring *str2);

/* the two list functions runtime.o needs (normally emitted by kddp into ddp_list_types_defs.o) */
void ddp_free_ddpstringlist(ddpstringlist *list) {
	for (ddpint i = 0; i < list->len; i++) {
		ddp_free_string(&list->arr[i]);
	}
	ddp_reallocate(list->arr, sizeof(ddpstring) * list->cap, 0);
	list->arr = NULL;
	list->len = list->cap = 0;
}

void ddp_deep_copy_ddpstringlist(ddpstringlist *ret, ddpstringlist *list) {
	ret->arr = list->cap ? ddp_reallocate(NULL, 0, sizeof(ddpstring) * list->cap) : NULL;
	ret->len = list->len;
	ret->cap = list->cap;
	for (ddpint i = 0; i < list->len; i++) {
		ddp_deep_copy_string(&ret->arr[i], &list->arr[i]);
	}
}

/* ------------------------------------------------------------------ independent UTF-8 */

/* standard UTF-8 encoding of a scalar value, 0 if cp is not a scalar value */
static int enc_utf8(uint32_t cp, unsigned char out[5]) {
	memset(out, 0, 5);
	if (cp < 0x80) {
		out[0] = (unsigned char)cp;
		return 1;
	}
	if (cp < 0x800) {
		out[0] = 0xC0 | (cp >> 6);
		out[1] = 0x80 | (cp & 0x3F);
		return 2;
	}
	if (cp >= 0xD800 && cp <= 0xDFFF) {
		return 0;
	}
	if (cp < 0x10000) {
		out[0] = 0xE0 | (cp >> 12);
		out[1] = 0x80 | ((cp >> 6) & 0x3F);
		out[2] = 0x80 | (cp & 0x3F);
		return 3;
	}
	if (cp <= 0x10FFFF) {
		out[0] = 0xF0 | (cp >> 18);
		out[1] = 0x80 | ((cp >> 12) & 0x3F);
		out[2] = 0x80 | ((cp >> 6) & 0x3F);
		out[3] = 0x80 | (cp & 0x3F);
		return 4;
	}
	return 0;
}

/* strict validity (no overlong forms, no surrogates, <= 0x10FFFF) of n bytes */
static int valid_utf8(const unsigned char *s, size_t n) {
	size_t i = 0;
	while (i < n) {
		unsigned char c = s[i];
		uint32_t cp;
		int w;
		if (c < 0x80) {
			i++;
			continue;
		} else if ((c & 0xE0) == 0xC0) {
			w = 2;
			cp = c & 0x1F;
		} else if ((c & 0xF0) == 0xE0) {
			w = 3;
			cp = c & 0x0F;
		} else if ((c & 0xF8) == 0xF0) {
			w = 4;
			cp = c & 0x07;
		} else {
			return 0;
		}
		if (i + w > n) {
			return 0;
		}
		for (int k = 1; k < w; k++) {
			if ((s[i + k] & 0xC0) != 0x80) {
				return 0;
			}
			cp = (cp << 6) | (s[i + k] & 0x3F);
		}
		if ((w == 2 && cp < 0x80) || (w == 3 && cp < 0x800) || (w == 4 && cp < 0x10000) || cp > 0x10FFFF || (cp >= 0xD800 && cp <= 0xDFFF)) {
			return 0;
		}
		i += w;
	}
	return 1;
}

/* ------------------------------------------------------------------ sweep */

static long sweep_mismatches = 0;

/* mismatches are aggregated per kind: count, first and last code point, three examples */
#define MAXKIND 64
static struct {
	char name[80];
	long count;
	uint32_t first, last;
	int examples;
} kinds[MAXKIND];
static int nkinds = 0;

static void mism(const char *what, uint32_t cp, const char *fmt, ...) __attribute__((format(printf, 3, 4)));
static void mism(const char *what, uint32_t cp, const char *fmt, ...) {
	sweep_mismatches++;
	int i;
	for (i = 0; i < nkinds; i++) {
		if (strcmp(kinds[i].name, what) == 0) {
			break;
		}
	}
	if (i == nkinds) {
		if (nkinds == MAXKIND) {
			return;
		}
		snprintf(kinds[i].name, sizeof kinds[i].name, "%s", what);
		kinds[i].first = cp;
		nkinds++;
	}
	kinds[i].count++;
	kinds[i].last = cp;
	if (kinds[i].examples >= 3) {
		return;
	}
	kinds[i].examples++;
	printf("M %s cp=%" PRIX32 " ", what, cp);
	va_list ap;
	va_start(ap, fmt);
	vprintf(fmt, ap);
	va_end(ap);
	printf("\n");
}

static void hexs(char *dst, size_t dstn, const char *s, size_t n) {
	size_t o = 0;
	if (n == 0) {
		snprintf(dst, dstn, "-");
		return;
	}
	for (size_t i = 0; i < n && o + 3 < dstn; i++) {
		o += snprintf(dst + o, dstn - o, "%02x", (unsigned char)s[i]);
	}
}

static int str_is(ddpstring *s, const unsigned char *bytes, size_t n) {
	if (n == 0) {
		return s->str == NULL || s->str[0] == 0;
	}
	return s->str != NULL && s->cap >= (ddpint)n + 1 && memcmp(s->str, bytes, n) == 0 && s->str[n] == 0;
}

static void describe(ddpstring *s, char *buf, size_t n) {
	char h[200];
	if (s->str == NULL) {
		snprintf(buf, n, "NULL:%lld", (long long)s->cap);
		return;
	}
	hexs(h, sizeof h, s->str, strlen(s->str));
	snprintf(buf, n, "%s:%lld", h, (long long)s->cap);
}

static void sweep_scalar(uint32_t cp, long widths[5]) {
	unsigned char e[5];
	char d[256];
	int w = enc_utf8(cp, e);
	widths[w]++;

	/* utf8 layer */
	char buf[8];
	memset(buf, 0x55, sizeof buf);
	size_t n = utf8_char_to_string(buf, (int32_t)cp);
	if (n != (size_t)w) {
		mism("utf8_char_to_string.width", cp, "got=%zd want=%d", (ssize_t)n, w);
	} else if (memcmp(buf, e, w) != 0 || buf[w] != 0) {
		char h[32];
		hexs(h, sizeof h, buf, w + 1);
		mism("utf8_char_to_string.bytes", cp, "got=%s", h);
	}
	if (utf8_num_bytes_char(cp) != (size_t)w) {
		mism("utf8_num_bytes_char", cp, "got=%zd want=%d", (ssize_t)utf8_num_bytes_char(cp), w);
	}
	if (utf8_indicated_num_bytes((char)e[0]) != w) {
		mism("utf8_indicated_num_bytes", cp, "got=%d want=%d", utf8_indicated_num_bytes((char)e[0]), w);
	}

	/* char -> string */
	ddpstring s;
	ddp_char_to_string(&s, (ddpchar)cp);
	if (!str_is(&s, e, w)) {
		describe(&s, d, sizeof d);
		mism("ddp_char_to_string.bytes", cp, "got=%s", d);
		ddp_free_string(&s);
		return;
	}
	ddpint len = ddp_string_length(&s);
	if (len != 1) {
		mism("ddp_string_length(char)", cp, "got=%lld want=1", (long long)len);
	}
	if (utf8_strlen(s.str) != 1) {
		mism("utf8_strlen(char)", cp, "got=%zu want=1", utf8_strlen(s.str));
	}
	if (utf8_num_bytes(s.str) != (size_t)w) {
		mism("utf8_num_bytes", cp, "got=%zu want=%d", utf8_num_bytes(s.str), w);
	}
	uint32_t out = 0xFFFFFFFF;
	n = utf8_string_to_char(s.str, &out);
	if (n != (size_t)w || out != cp) {
		mism("utf8_string_to_char", cp, "n=%zd out=%" PRIX32, (ssize_t)n, out);
	}
	if (len == 1) {
		ddpchar c = ddp_string_index(&s, 1);
		if ((uint32_t)c != cp) {
			mism("ddp_string_index(char,1)", cp, "got=%" PRIX32, (uint32_t)c);
		}
	}
	/* equality with the literal made of the expected bytes */
	ddpstring lit;
	ddp_string_from_constant(&lit, (char *)e);
	if (!ddp_string_equal(&s, &lit) || !ddp_string_equal(&lit, &s)) {
		mism("ddp_string_equal(char_to_string,literal)", cp, "got=false");
	}
	ddp_free_string(&lit);

	/* the character inside a text: "a" X "€" built by concatenation */
	ddpstring t, t2, t3;
	ddp_string_from_constant(&t, "a");
	ddp_string_char_verkettet(&t2, &t, (ddpchar)cp); /* claims t */
	ddp_string_from_constant(&t, "\xe2\x82\xac");
	ddp_string_string_verkettet(&t3, &t2, &t); /* claims t2 */
	ddp_free_string(&t);
	unsigned char want[16];
	size_t wn = 0;
	want[wn++] = 'a';
	memcpy(want + wn, e, w);
	wn += w;
	memcpy(want + wn, "\xe2\x82\xac", 3);
	wn += 3;
	want[wn] = 0;
	if (!str_is(&t3, want, wn)) {
		describe(&t3, d, sizeof d);
		mism("concat(a,X,euro).bytes", cp, "got=%s", d);
		ddp_free_string(&t3);
		ddp_free_string(&s);
		return;
	}
	if (ddp_string_length(&t3) != 3) {
		mism("ddp_string_length(aX€)", cp, "got=%lld want=3", (long long)ddp_string_length(&t3));
	} else {
		if ((uint32_t)ddp_string_index(&t3, 2) != cp) {
			mism("ddp_string_index(aX€,2)", cp, "got=%" PRIX32, (uint32_t)ddp_string_index(&t3, 2));
		}
		if ((uint32_t)ddp_string_index(&t3, 3) != 0x20AC) {
			mism("ddp_string_index(aX€,3)", cp, "got=%" PRIX32, (uint32_t)ddp_string_index(&t3, 3));
		}
		ddpstring sl;
		ddp_string_slice(&sl, &t3, 2, 2);
		if (!str_is(&sl, e, w)) {
			describe(&sl, d, sizeof d);
			mism("ddp_string_slice(aX€,2,2)", cp, "got=%s", d);
		} else if (!ddp_string_equal(&sl, &s)) {
			mism("ddp_string_equal(slice,char_to_string)", cp, "got=false");
		}
		ddp_free_string(&sl);
		ddp_string_slice(&sl, &t3, 2, 3);
		if (!str_is(&sl, want + 1, wn - 1)) {
			describe(&sl, d, sizeof d);
			mism("ddp_string_slice(aX€,2,3)", cp, "got=%s", d);
		}
		ddp_free_string(&sl);
		/* char . text */
		ddpstring cs, cp2;
		ddp_deep_copy_string(&cp2, &t3);
		ddp_char_string_verkettet(&cs, (ddpchar)cp, &cp2);
		unsigned char want2[24];
		memcpy(want2, e, w);
		memcpy(want2 + w, want, wn + 1);
		if (!str_is(&cs, want2, wn + w)) {
			describe(&cs, d, sizeof d);
			mism("ddp_char_string_verkettet(X,aX€)", cp, "got=%s", d);
		}
		ddp_free_string(&cs);
		/* replace: 'ä' (2 bytes) at position 2 of "aä€" by X, then read it back */
		ddpstring r;
		ddp_string_from_constant(&r, "a\xc3\xa4\xe2\x82\xac");
		ddp_replace_char_in_string(&r, (ddpchar)cp, 2);
		if (!str_is(&r, want, wn)) {
			describe(&r, d, sizeof d);
			mism("ddp_replace_char_in_string(aä€,2,X).bytes", cp, "got=%s", d);
		} else {
			if (ddp_string_length(&r) != 3) {
				mism("length after replace", cp, "got=%lld", (long long)ddp_string_length(&r));
			} else if ((uint32_t)ddp_string_index(&r, 2) != cp || (uint32_t)ddp_string_index(&r, 3) != 0x20AC) {
				mism("index after replace", cp, "got=%" PRIX32 ",%" PRIX32, (uint32_t)ddp_string_index(&r, 2), (uint32_t)ddp_string_index(&r, 3));
			}
		}
		ddp_free_string(&r);
	}
	ddp_free_string(&t3);
	ddp_free_string(&s);
}

static const char *nonscalar_class(uint32_t cp) {
	if (cp >= 0xD800 && cp <= 0xDFFF) {
		return "surrogate";
	}
	if ((int32_t)cp < 0) {
		return "negative";
	}
	if (cp <= 0x1FFFFF) {
		return "0x110000..0x1FFFFF";
	}
	return ">=0x200000";
}

static long sweep_rejected(uint32_t cp) {
	char kind[80];
	/* not a scalar value: the conversion must reject it (utf8_char_to_string returns (size_t)-1 and
	   ddp_char_to_string yields the empty text, as documented in operators.c) */
	char buf[16];
	memset(buf, 0, sizeof buf);
	size_t n = utf8_char_to_string(buf, (int32_t)cp);
	long bad = 0;
	if (n != (size_t)-1) {
		char h[40];
		hexs(h, sizeof h, buf, n < 8 ? n : 8);
		snprintf(kind, sizeof kind, "utf8_char_to_string.accepts_non_scalar[%s]", nonscalar_class(cp));
		mism(kind, cp, "returned=%zd bytes=%s", (ssize_t)n, h);
		bad = 1;
	}
	if (utf8_num_bytes_char(cp) != (size_t)-1) {
		snprintf(kind, sizeof kind, "utf8_num_bytes_char.accepts_non_scalar[%s]", nonscalar_class(cp));
		mism(kind, cp, "returned=%zd", (ssize_t)utf8_num_bytes_char(cp));
		bad = 1;
	}
	if (n == (size_t)-1) { /* only safe to call when the 5-byte buffer inside cannot overflow */
		ddpstring s;
		ddp_char_to_string(&s, (ddpchar)cp);
		if (ddp_string_length(&s) != 0) {
			char d[100];
			describe(&s, d, sizeof d);
			snprintf(kind, sizeof kind, "ddp_char_to_string.accepts_non_scalar[%s]", nonscalar_class(cp));
			mism(kind, cp, "got=%s", d);
			bad = 1;
		}
		ddp_free_string(&s);
	}
	return bad;
}

static int do_sweep(void) {
	long widths[5] = {0, 0, 0, 0, 0};
	long scalars = 0, rej_sur = 0, rej_above = 0, rej_neg = 0, nonrej = 0;
	/* U+0000 cannot be stored in a NUL-terminated text; reported as an observation, not judged */
	{
		ddpstring s;
		ddp_char_to_string(&s, 0);
		printf("NUL ddp_char_to_string(0): cap=%lld length=%lld\n", (long long)s.cap, (long long)ddp_string_length(&s));
		ddp_free_string(&s);
	}
	for (uint32_t cp = 1; cp <= 0x10FFFF; cp++) {
		if (cp >= 0xD800 && cp <= 0xDFFF) {
			rej_sur++;
			nonrej += sweep_rejected(cp);
			continue;
		}
		scalars++;
		sweep_scalar(cp, widths);
	}
	for (uint32_t cp = 0x110000; cp <= 0x12FFFF; cp++) {
		rej_above++;
		nonrej += sweep_rejected(cp);
	}
	static const uint32_t big[] = {0x1FFFFF, 0x200000, 0x3FFFFFF, 0x4000000, 0x7FFFFFFF};
	for (size_t i = 0; i < sizeof big / sizeof big[0]; i++) {
		rej_above++;
		nonrej += sweep_rejected(big[i]);
	}
	static const uint32_t neg[] = {0x80000000u, 0xFFFFFFFFu, 0xFFFFFF00u, 0xFFFF0000u};
	for (size_t i = 0; i < sizeof neg / sizeof neg[0]; i++) {
		rej_neg++;
		nonrej += sweep_rejected(neg[i]);
	}
	for (int i = 0; i < nkinds; i++) {
		printf("K %s count=%ld first=%" PRIX32 " last=%" PRIX32 "\n", kinds[i].name, kinds[i].count, kinds[i].first, kinds[i].last);
	}
	printf("SWEEP scalars=%ld w1=%ld w2=%ld w3=%ld w4=%ld surrogates=%ld above=%ld negative=%ld not_rejected=%ld mismatches=%ld\n",
		   scalars, widths[1], widths[2], widths[3], widths[4], rej_sur, rej_above, rej_neg, nonrej, sweep_mismatches);
	return 0;
}

/* ------------------------------------------------------------------ histories */

#define NSLOT 8
static ddpstring slot[NSLOT];
static int live[NSLOT];

static void put_slot(int i) {
	if (!live[i]) {
		printf(" %d=dead", i);
		return;
	}
	ddpstring *s = &slot[i];
	if (s->str == NULL) {
		printf(" %d=-:%lld", i, (long long)s->cap);
		return;
	}
	/* bytes up to the terminator, searched inside cap only */
	size_t cap = s->cap > 0 ? (size_t)s->cap : 0;
	const char *z = memchr(s->str, 0, cap);
	size_t n = z ? (size_t)(z - s->str) : cap;
	printf(" %d=", i);
	if (n == 0) {
		printf("-");
	}
	for (size_t k = 0; k < n; k++) {
		printf("%02x", (unsigned char)s->str[k]);
	}
	printf(":%lld", (long long)s->cap);
}

static void check_inv(long k) {
	for (int i = 0; i < NSLOT; i++) {
		if (!live[i]) {
			continue;
		}
		ddpstring *s = &slot[i];
		if (s->str == NULL) {
			if (s->cap != 0) {
				printf("INV %ld %d null-with-cap:%lld\n", k, i, (long long)s->cap);
			}
			continue;
		}
		if (s->cap <= 0) {
			printf("INV %ld %d nonnull-with-cap:%lld\n", k, i, (long long)s->cap);
			continue;
		}
		const char *z = memchr(s->str, 0, (size_t)s->cap);
		if (z == NULL) {
			printf("INV %ld %d not-terminated-within-cap:%lld\n", k, i, (long long)s->cap);
			continue;
		}
		if (!valid_utf8((const unsigned char *)s->str, (size_t)(z - s->str))) {
			printf("INV %ld %d invalid-utf8\n", k, i);
		}
	}
}

static void set_slot(int d, ddpstring v) {
	if (live[d]) {
		ddp_free_string(&slot[d]);
	}
	slot[d] = v;
	live[d] = 1;
}

static int unhex(const char *h, char *out, size_t outn) {
	size_t n = 0;
	if (strcmp(h, "-") == 0) {
		out[0] = 0;
		return 0;
	}
	while (h[0] && h[1] && n + 1 < outn) {
		unsigned v;
		if (sscanf(h, "%2x", &v) != 1) {
			return -1;
		}
		out[n++] = (char)v;
		h += 2;
	}
	out[n] = 0;
	return (int)n;
}

static int need_live(long k, int s) {
	if (s < 0 || s >= NSLOT || !live[s]) {
		printf("BADCMD %ld slot %d not live\n", k, s);
		return 0;
	}
	return 1;
}

/* executes one command line; returns 0 if the line was not understood */
static int exec_cmd(long k, char *line) {
	char op[16], a1[4200];
	long long x1 = 0, x2 = 0, x3 = 0, x4 = 0;
	int refs[3], nref = 0;
	char scalar[64] = "-";
	ddpstring ret = {NULL, 0};

	if (sscanf(line, "%15s", op) != 1) {
		return 0;
	}
	if (strcmp(op, "lit") == 0) {
		static char bytes[2100];
		if (sscanf(line, "%*s %lld %4199s", &x1, a1) != 2 || unhex(a1, bytes, sizeof bytes) < 0) {
			return 0;
		}
		ddp_string_from_constant(&ret, bytes);
		set_slot((int)x1, ret);
		refs[nref++] = (int)x1;
	} else if (strcmp(op, "c2s") == 0) {
		if (sscanf(line, "%*s %lld %lld", &x1, &x2) != 2) {
			return 0;
		}
		ddp_char_to_string(&ret, (ddpchar)x2);
		set_slot((int)x1, ret);
		refs[nref++] = (int)x1;
	} else if (strcmp(op, "i2s") == 0) {
		if (sscanf(line, "%*s %lld %lld", &x1, &x2) != 2) {
			return 0;
		}
		ddp_int_to_string(&ret, (ddpint)x2);
		set_slot((int)x1, ret);
		refs[nref++] = (int)x1;
	} else if (strcmp(op, "copy") == 0) {
		if (sscanf(line, "%*s %lld %lld", &x1, &x2) != 2 || !need_live(k, (int)x2)) {
			return 0;
		}
		ddp_deep_copy_string(&ret, &slot[x2]);
		set_slot((int)x1, ret);
		refs[nref++] = (int)x1;
		if (x2 != x1) {
			refs[nref++] = (int)x2;
		}
	} else if (strcmp(op, "cat") == 0) {
		if (sscanf(line, "%*s %lld %lld %lld", &x1, &x2, &x3) != 3 || !need_live(k, (int)x2) || !need_live(k, (int)x3)) {
			return 0;
		}
		ddpstring tmp;
		ddp_deep_copy_string(&tmp, &slot[x2]);
		ddp_string_string_verkettet(&ret, &tmp, &slot[x3]);
		if (tmp.str != NULL && tmp.str != ret.str) { /* "claimed for the result or freed": nothing left to do for the caller */
			printf("INV %ld %lld cat-left-operand-not-consumed\n", k, x2);
		}
		set_slot((int)x1, ret);
		refs[nref++] = (int)x1;
		if (x2 != x1) {
			refs[nref++] = (int)x2;
		}
		if (x3 != x1 && x3 != x2) {
			refs[nref++] = (int)x3;
		}
	} else if (strcmp(op, "catsc") == 0) {
		if (sscanf(line, "%*s %lld %lld %lld", &x1, &x2, &x3) != 3 || !need_live(k, (int)x2)) {
			return 0;
		}
		ddpstring tmp;
		ddp_deep_copy_string(&tmp, &slot[x2]);
		ddp_string_char_verkettet(&ret, &tmp, (ddpchar)x3);
		set_slot((int)x1, ret);
		refs[nref++] = (int)x1;
		if (x2 != x1) {
			refs[nref++] = (int)x2;
		}
	} else if (strcmp(op, "catcs") == 0) {
		if (sscanf(line, "%*s %lld %lld %lld", &x1, &x2, &x3) != 3 || !need_live(k, (int)x3)) {
			return 0;
		}
		ddpstring tmp;
		ddp_deep_copy_string(&tmp, &slot[x3]);
		ddp_char_string_verkettet(&ret, (ddpchar)x2, &tmp);
		set_slot((int)x1, ret);
		refs[nref++] = (int)x1;
		if (x3 != x1) {
			refs[nref++] = (int)x3;
		}
	} else if (strcmp(op, "slice") == 0) {
		if (sscanf(line, "%*s %lld %lld %lld %lld", &x1, &x2, &x3, &x4) != 4 || !need_live(k, (int)x2)) {
			return 0;
		}
		ddp_string_slice(&ret, &slot[x2], (ddpint)x3, (ddpint)x4);
		set_slot((int)x1, ret);
		refs[nref++] = (int)x1;
		if (x2 != x1) {
			refs[nref++] = (int)x2;
		}
	} else if (strcmp(op, "repl") == 0) {
		if (sscanf(line, "%*s %lld %lld %lld", &x1, &x2, &x3) != 3 || !need_live(k, (int)x1)) {
			return 0;
		}
		ddp_replace_char_in_string(&slot[x1], (ddpchar)x3, (ddpint)x2);
		refs[nref++] = (int)x1;
	} else if (strcmp(op, "index") == 0) {
		if (sscanf(line, "%*s %lld %lld", &x1, &x2) != 2 || !need_live(k, (int)x1)) {
			return 0;
		}
		snprintf(scalar, sizeof scalar, "%lld", (long long)ddp_string_index(&slot[x1], (ddpint)x2));
		refs[nref++] = (int)x1;
	} else if (strcmp(op, "len") == 0) {
		if (sscanf(line, "%*s %lld", &x1) != 1 || !need_live(k, (int)x1)) {
			return 0;
		}
		snprintf(scalar, sizeof scalar, "%lld", (long long)ddp_string_length(&slot[x1]));
		refs[nref++] = (int)x1;
	} else if (strcmp(op, "eq") == 0) {
		if (sscanf(line, "%*s %lld %lld", &x1, &x2) != 2 || !need_live(k, (int)x1) || !need_live(k, (int)x2)) {
			return 0;
		}
		snprintf(scalar, sizeof scalar, "%d", ddp_string_equal(&slot[x1], &slot[x2]) ? 1 : 0);
		refs[nref++] = (int)x1;
		if (x2 != x1) {
			refs[nref++] = (int)x2;
		}
	} else if (strcmp(op, "s2i") == 0) {
		if (sscanf(line, "%*s %lld", &x1) != 1 || !need_live(k, (int)x1)) {
			return 0;
		}
		snprintf(scalar, sizeof scalar, "%lld", (long long)ddp_string_to_int(&slot[x1]));
		refs[nref++] = (int)x1;
	} else if (strcmp(op, "iter") == 0) {
		if (sscanf(line, "%*s %lld", &x1) != 1 || !need_live(k, (int)x1)) {
			return 0;
		}
		printf("R %ld iter ", k);
		char *p = slot[x1].str;
		int first = 1;
		while (p != NULL && *p != 0) {
			uint32_t out = 0xFFFFFFFF;
			size_t n = utf8_string_to_char(p, &out);
			if (n < 1 || n > 4) {
				printf("%sBAD(n=%zd)", first ? "" : ",", (ssize_t)n);
				first = 0;
				break;
			}
			printf("%s%" PRIu32 "/%zu", first ? "" : ",", out, n);
			first = 0;
			p += n;
		}
		if (first) {
			printf("-");
		}
		put_slot((int)x1);
		printf("\n");
		check_inv(k);
		return 1;
	} else if (strcmp(op, "free") == 0) {
		if (sscanf(line, "%*s %lld", &x1) != 1 || !need_live(k, (int)x1)) {
			return 0;
		}
		ddp_free_string(&slot[x1]);
		live[x1] = 0;
		slot[x1] = (ddpstring){NULL, 0};
		refs[nref++] = (int)x1;
	} else {
		printf("BADCMD %ld unknown op %s\n", k, op);
		return 0;
	}
	printf("R %ld %s %s", k, op, scalar);
	for (int i = 0; i < nref; i++) {
		put_slot(refs[i]);
	}
	printf("\n");
	check_inv(k);
	return 1;
}

#define MAXCMD 64
#define MAXLINE 4400

static void run_history(char cmds[][MAXLINE], int ncmd) {
	for (int i = 0; i < NSLOT; i++) {
		live[i] = 0;
		slot[i] = (ddpstring){NULL, 0};
	}
	for (int k = 0; k < ncmd; k++) {
		if (!exec_cmd(k, cmds[k])) {
			printf("BADCMD %d %s\n", k, cmds[k]);
			fflush(stdout);
			_exit(3);
		}
	}
	printf("D");
	for (int i = 0; i < NSLOT; i++) {
		if (live[i]) {
			put_slot(i);
		}
	}
	printf("\n");
	for (int i = 0; i < NSLOT; i++) {
		if (live[i]) {
			ddp_free_string(&slot[i]);
			live[i] = 0;
		}
	}
}

static char cmds[MAXCMD][MAXLINE];

static int do_run(int nofork) {
	static char line[MAXLINE];
	char id[64] = "";
	int ncmd = 0, in_hist = 0, forked = 0;
	while (fgets(line, sizeof line, stdin)) {
		size_t n = strlen(line);
		while (n > 0 && (line[n - 1] == '\n' || line[n - 1] == '\r')) {
			line[--n] = 0;
		}
		if (n == 0) {
			continue;
		}
		if (line[0] == 'H' && (line[1] == ' ' || (line[1] == 'F' && line[2] == ' '))) {
			forked = line[1] == 'F';
			snprintf(id, sizeof id, "%.60s", line + (forked ? 3 : 2));
			ncmd = 0;
			in_hist = 1;
			continue;
		}
		if (strcmp(line, "E") != 0) {
			if (in_hist && ncmd < MAXCMD) {
				memcpy(cmds[ncmd++], line, n + 1);
			}
			continue;
		}
		if (!in_hist) {
			continue;
		}
		in_hist = 0;
		printf("B %s\n", id);
		fflush(stdout);
		if (nofork || !forked) {
			run_history(cmds, ncmd);
			printf("X %s 0 -\n", id);
			fflush(stdout);
			continue;
		}
		int ep[2];
		if (pipe(ep) != 0) {
			perror("pipe");
			return 4;
		}
		pid_t pid = fork();
		if (pid < 0) {
			perror("fork");
			return 4;
		}
		if (pid == 0) {
			close(ep[0]);
			dup2(ep[1], 2);
			close(ep[1]);
			close(0); /* exit() in the child must not move the shared offset of the parent's stdin */
			run_history(cmds, ncmd);
			fflush(stdout);
			ddp_end_runtime();
			_exit(0);
		}
		close(ep[1]);
		static char err[6000];
		size_t en = 0;
		for (;;) {
			char tmp[4096];
			ssize_t r = read(ep[0], tmp, sizeof tmp);
			if (r <= 0) {
				break;
			}
			size_t c = (size_t)r;
			if (en + c > sizeof err) {
				c = sizeof err - en;
			}
			memcpy(err + en, tmp, c);
			en += c;
		}
		close(ep[0]);
		int st = 0;
		waitpid(pid, &st, 0);
		int code = WIFEXITED(st) ? WEXITSTATUS(st) : -WTERMSIG(st);
		printf("X %s %d ", id, code);
		if (en == 0) {
			printf("-");
		}
		for (size_t i = 0; i < en; i++) {
			printf("%02x", (unsigned char)err[i]);
		}
		printf("\n");
		fflush(stdout);
	}
	return 0;
}

int main(int argc, char **argv) {
	ddp_init_runtime(argc, argv); /* same initialisation as lib/runtime/source/main.c: setlocale(LC_ALL, "de_DE.UTF-8") */
	int rc = 2;
	if (argc >= 2 && strcmp(argv[1], "sweep") == 0) {
		rc = do_sweep();
	} else if (argc >= 2 && strcmp(argv[1], "run") == 0) {
		setvbuf(stdout, NULL, _IOLBF, 0); /* a child killed by a sanitizer must not lose the lines of the commands it completed */
		rc = do_run(argc >= 3 && strcmp(argv[2], "--nofork") == 0);
	} else {
		fprintf(stderr, "usage: rt_driver sweep | run [--nofork]\n");
	}
	fflush(stdout);
	ddp_end_runtime();
	return rc;
}
