// Allocation ledger for compiled DDP programs (C05, C18).
// Linked with  -Wl,--wrap=ddp_reallocate ledger.o -lddpruntime : every call the program (generated
// code, runtime, stdlib) makes to ddp_reallocate goes through __wrap_ddp_reallocate, which keeps a
// shadow table  pointer -> size  updated in the same call, checks each event against it, and at
// process exit reports what is still live. Events are judged online; violations are written
// immediately (unbuffered) to the file named by VERIF_LEDGER so they survive an abort.
#define _GNU_SOURCE
#include <fcntl.h>
#include <stdint.h>
#include <stdio.h>
#include <stdlib.h>
#include <string.h>
#include <unistd.h>

void *__real_ddp_reallocate(void *pointer, size_t oldSize, size_t newSize);

#define TAB_BITS 20
#define TAB_SIZE (1u << TAB_BITS)
typedef struct {
	uintptr_t ptr; // 0 = empty, 1 = tombstone
	size_t size;
	unsigned long seq;
} slot;
static slot tab[TAB_SIZE];
static slot freed[TAB_SIZE >> 4]; // recently released pointers (to tell double free from foreign pointer)

static int fd = -1;
static unsigned long seq, n_alloc, n_free, n_realloc, n_noop, n_foreign, n_viol;
static size_t live_bytes, peak_bytes, live_blocks;

static unsigned hidx(uintptr_t p, unsigned bits) { return (unsigned)((p >> 4) * 0x9E3779B97F4A7C15ull >> (64 - bits)); }

static slot *find(uintptr_t p) {
	unsigned i = hidx(p, TAB_BITS);
	for (unsigned n = 0; n < TAB_SIZE; n++, i = (i + 1) & (TAB_SIZE - 1)) {
		if (tab[i].ptr == p) return &tab[i];
		if (tab[i].ptr == 0) return NULL;
	}
	return NULL;
}
static void insert(uintptr_t p, size_t size) {
	unsigned i = hidx(p, TAB_BITS);
	for (unsigned n = 0; n < TAB_SIZE; n++, i = (i + 1) & (TAB_SIZE - 1)) {
		if (tab[i].ptr == 0 || tab[i].ptr == 1 || tab[i].ptr == p) {
			tab[i].ptr = p;
			tab[i].size = size;
			tab[i].seq = seq;
			return;
		}
	}
}
static void note_freed(uintptr_t p, size_t size) {
	unsigned i = hidx(p, TAB_BITS - 4);
	freed[i].ptr = p;
	freed[i].size = size;
	freed[i].seq = seq;
}
static slot *was_freed(uintptr_t p) {
	unsigned i = hidx(p, TAB_BITS - 4);
	return freed[i].ptr == p ? &freed[i] : NULL;
}

static void out(const char *fmt, unsigned long a, unsigned long b, unsigned long c, unsigned long d) {
	if (fd < 0) return;
	char buf[256];
	int n = snprintf(buf, sizeof buf, fmt, a, b, c, d);
	if (n > 0) (void)!write(fd, buf, (size_t)n);
}

static void report(void) {
	out("SUMMARY events=%lu allocs=%lu frees=%lu reallocs=%lu", seq, n_alloc, n_free, n_realloc);
	out(" noops=%lu foreign=%lu violations=%lu live_blocks=%lu", n_noop, n_foreign, n_viol, (unsigned long)live_blocks);
	out(" live_bytes=%lu peak_bytes=%lu\n", (unsigned long)live_bytes, (unsigned long)peak_bytes, 0, 0);
	if (live_blocks) {
		int shown = 0;
		for (unsigned i = 0; i < TAB_SIZE && shown < 8; i++) {
			if (tab[i].ptr > 1) {
				out("LIVE size=%lu allocated_at_event=%lu\n", (unsigned long)tab[i].size, tab[i].seq, 0, 0);
				shown++;
			}
		}
	}
}

__attribute__((constructor)) static void ledger_init(void) {
	const char *p = getenv("VERIF_LEDGER");
	if (p && *p) fd = open(p, O_WRONLY | O_CREAT | O_APPEND, 0644);
	atexit(report); // runs after main returned (ddp_end_runtime already released the argument list)
}

void *__wrap_ddp_reallocate(void *pointer, size_t oldSize, size_t newSize) {
	seq++;
	uintptr_t p = (uintptr_t)pointer;
	slot *s = NULL;
	if (pointer == NULL) {
		if (oldSize != 0) {
			n_viol++;
			out("VIOLATION kind=null-with-size event=%lu old=%lu new=%lu\n", seq, (unsigned long)oldSize, (unsigned long)newSize, 0);
		}
	} else {
		s = find(p);
		if (s == NULL) {
			slot *f = was_freed(p);
			if (f != NULL) {
				n_viol++;
				out("VIOLATION kind=not-live-released-before event=%lu old=%lu new=%lu released_at_event=%lu\n", seq, (unsigned long)oldSize, (unsigned long)newSize, f->seq);
			} else {
				n_foreign++; // obtained outside the ledger (plain malloc/strdup in library code): counted, not judged
			}
		} else if (s->size != oldSize) {
			n_viol++;
			out("VIOLATION kind=wrong-size event=%lu stated=%lu recorded=%lu new=%lu\n", seq, (unsigned long)oldSize, (unsigned long)s->size, (unsigned long)newSize);
		}
	}
	void *result = __real_ddp_reallocate(pointer, oldSize, newSize);
	if (newSize == 0) {
		if (pointer != NULL) {
			n_free++;
			if (s) {
				live_bytes -= s->size;
				live_blocks--;
				note_freed(p, s->size);
				s->ptr = 1;
			}
		} else {
			n_noop++;
		}
		return result;
	}
	if (pointer != NULL && oldSize == newSize) { // the runtime returns the block unchanged
		n_noop++;
		return result;
	}
	if (pointer == NULL) {
		n_alloc++;
	} else {
		n_realloc++;
		if (s) {
			live_bytes -= s->size;
			live_blocks--;
			if ((uintptr_t)result != p) note_freed(p, s->size);
			s->ptr = 1;
		}
	}
	insert((uintptr_t)result, newSize);
	// a fresh block reuses an address we remembered as released: forget that memory
	slot *f = was_freed((uintptr_t)result);
	if (f) f->ptr = 0;
	live_bytes += newSize;
	live_blocks++;
	if (live_bytes > peak_bytes) peak_bytes = live_bytes;
	return result;
}
