// Support code for the generated C callees of check C18 (extern function ABI).
// Uses only what the tree publishes in DDP/ddptypes.h and DDP/ddpmemory.h.
// Every printer writes a canonical form to stdout; c18.py computes the same form from
// the values the DDP caller passed.
#ifndef C18_SUPPORT_H
#define C18_SUPPORT_H
#include "DDP/ddpmemory.h"
#include "DDP/ddptypes.h"
#include <stdint.h>
#include <stdio.h>
#include <string.h>

#define C18_UNUSED __attribute__((unused))

// Kombinationen of the generated DDP modules, fields in declaration order
// (convention of lib/stdlib/source/DDP: Datei, TextBauer, Treffer, TrefferList).
typedef struct {
	ddpint z;
	ddpstring t;
} Paar;

typedef struct {
	ddpbyte b;
	ddpfloat k;
	ddpintlist l;
	ddpchar c;
	ddpbool w;
	ddpstringlist tl;
} Satz;

typedef struct {
	Paar *arr;
	ddpint len;
	ddpint cap;
} PaarList;

// ---------------------------------------------------------------- printers

C18_UNUSED static void c18_p_int(ddpint v) {
	printf("%lld", (long long)v);
}

C18_UNUSED static void c18_p_float(ddpfloat v) {
	uint64_t u;
	memcpy(&u, &v, 8);
	printf("K%016llx", (unsigned long long)u);
}

C18_UNUSED static void c18_p_byte(ddpbyte v) {
	printf("%u", (unsigned)v);
}

// the raw byte: a C bool is 0 or 1
C18_UNUSED static void c18_p_bool(ddpbool v) {
	unsigned char raw;
	memcpy(&raw, &v, 1);
	printf("w%u", (unsigned)raw);
}

C18_UNUSED static void c18_p_char(ddpchar v) {
	printf("%ld", (long)v);
}

C18_UNUSED static void c18_p_string(ddpstring *s) {
	if (s->str == NULL) {
		if (s->cap != 0) {
			printf("T!null-cap=%lld", (long long)s->cap);
		} else {
			printf("T0:");
		}
		return;
	}
	size_t n = strlen(s->str);
	if (s->cap < (ddpint)n + 1) {
		printf("T!cap=%lld<len+1=%lld", (long long)s->cap, (long long)n + 1);
		return;
	}
	printf("T%lld:", (long long)n);
	for (size_t i = 0; i < n; i++) {
		printf("%02x", (unsigned)(unsigned char)s->str[i]);
	}
}

#define C18_LIST_PRINTER(NAME, LISTT, ELEM_PRINT)                                  \
	C18_UNUSED static void NAME(LISTT *l) {                                         \
		if (l->len < 0 || l->cap < l->len || (l->len > 0 && l->arr == NULL)) {     \
			printf("[!len=%lld,cap=%lld,arr=%s]", (long long)l->len, (long long)l->cap, \
				   l->arr ? "set" : "null");                                        \
			return;                                                                 \
		}                                                                           \
		printf("[%lld|", (long long)l->len);                                        \
		for (ddpint i = 0; i < l->len; i++) {                                       \
			ELEM_PRINT;                                                             \
			printf(",");                                                            \
		}                                                                           \
		printf("]");                                                                \
	}

C18_LIST_PRINTER(c18_p_intlist, ddpintlist, c18_p_int(l->arr[i]))
C18_LIST_PRINTER(c18_p_floatlist, ddpfloatlist, c18_p_float(l->arr[i]))
C18_LIST_PRINTER(c18_p_bytelist, ddpbytelist, c18_p_byte(l->arr[i]))
C18_LIST_PRINTER(c18_p_boollist, ddpboollist, c18_p_bool(l->arr[i]))
C18_LIST_PRINTER(c18_p_charlist, ddpcharlist, c18_p_char(l->arr[i]))
C18_LIST_PRINTER(c18_p_stringlist, ddpstringlist, c18_p_string(&l->arr[i]))

C18_UNUSED static void c18_p_paar(Paar *p) {
	printf("{");
	c18_p_int(p->z);
	printf(";");
	c18_p_string(&p->t);
	printf("}");
}

C18_UNUSED static void c18_p_satz(Satz *s) {
	printf("{");
	c18_p_byte(s->b);
	printf(";");
	c18_p_float(s->k);
	printf(";");
	c18_p_intlist(&s->l);
	printf(";");
	c18_p_char(s->c);
	printf(";");
	c18_p_bool(s->w);
	printf(";");
	c18_p_stringlist(&s->tl);
	printf("}");
}

C18_LIST_PRINTER(c18_p_paarlist, PaarList, c18_p_paar(&l->arr[i]))

// ddpany through its published layout: vtable (type_size, free/copy/equal functions),
// value inline when type_size <= 16, behind value_ptr otherwise
C18_UNUSED static void c18_p_any(ddpany *a) {
	if (a->vtable_ptr == NULL) {
		printf("V()");
		return;
	}
	ddpvtable *vt = a->vtable_ptr;
	void *val = DDP_ANY_VALUE_PTR(a);
	if (val == NULL) {
		printf("V(!null-value,size=%lld)", (long long)vt->type_size);
		return;
	}
	if (vt->free_func == NULL) { // primitive: raw bytes of the value
		printf("V(p%lld:", (long long)vt->type_size);
		if (vt->type_size == 1) { // Byte or Wahrheitswert
			printf("%02x", (unsigned)*(unsigned char *)val);
		} else if (vt->type_size == 4) {
			uint32_t u;
			memcpy(&u, val, 4);
			printf("%08lx", (unsigned long)u);
		} else if (vt->type_size == 8) {
			uint64_t u;
			memcpy(&u, val, 8);
			// the published accessor macro used the way callees use it: inside a larger expression
			uint64_t through_macro = *(uint64_t *)DDP_ANY_VALUE_PTR(a);
			if (through_macro != u) {
				printf("!macro-mismatch ");
			}
			printf("%016llx", (unsigned long long)u);
		} else {
			printf("?");
		}
		printf(")");
	} else if (vt->free_func == (free_func_ptr)ddp_free_string) {
		printf("V(T:");
		c18_p_string((ddpstring *)val);
		printf(")");
	} else if (vt->free_func == (free_func_ptr)ddp_free_ddpintlist) {
		printf("V(ZL:");
		c18_p_intlist((ddpintlist *)val);
		printf(")");
	} else if (vt->free_func == (free_func_ptr)ddp_free_ddpstringlist) {
		printf("V(TL:");
		c18_p_stringlist((ddpstringlist *)val);
		printf(")");
	} else if (vt->type_size == (ddpint)sizeof(Paar)) { // the only Kombination the callers put into a Variable
		printf("V(P:");
		c18_p_paar((Paar *)val);
		printf(")");
	} else if (vt->type_size == (ddpint)sizeof(Satz)) { // published size of a Kombination with padding == C's sizeof
		printf("V(S:");
		c18_p_satz((Satz *)val);
		printf(")");
	} else {
		printf("V(?size=%lld)", (long long)vt->type_size);
	}
}

C18_LIST_PRINTER(c18_p_anylist, ddpanylist, c18_p_any(&l->arr[i]))

// ---------------------------------------------------------------- constructors (fresh values owned by the receiver)

// how: 0 = ddp_string_from_constant, 1 = DDP_ALLOCATE(char, len+1) as TextBauer_Als_Text does
C18_UNUSED static void c18_mk_string(ddpstring *out, const char *s, int how) {
	size_t n = strlen(s);
	if (how == 0 || n == 0) {
		ddp_string_from_constant(out, (char *)s);
		return;
	}
	out->str = DDP_ALLOCATE(char, n + 1);
	memcpy(out->str, s, n + 1);
	out->cap = (ddpint)n + 1;
}

// extra > 0: own allocation with cap = n + extra, extra == 0: ddp_x_from_constants (cap = n)
#define C18_LIST_MAKER(NAME, LISTT, ELEMT, FROM_CONSTANTS)                                \
	C18_UNUSED static void NAME(LISTT *out, ddpint n, const ELEMT *vals, ddpint extra) {   \
		if (extra == 0) {                                                                  \
			FROM_CONSTANTS(out, n);                                                        \
		} else {                                                                           \
			out->arr = DDP_ALLOCATE(ELEMT, n + extra);                                     \
			out->len = n;                                                                  \
			out->cap = n + extra;                                                          \
		}                                                                                  \
		for (ddpint i = 0; i < n; i++) {                                                   \
			out->arr[i] = vals[i];                                                         \
		}                                                                                  \
	}

C18_LIST_MAKER(c18_mk_intlist, ddpintlist, ddpint, ddp_ddpintlist_from_constants)
C18_LIST_MAKER(c18_mk_floatlist, ddpfloatlist, ddpfloat, ddp_ddpfloatlist_from_constants)
C18_LIST_MAKER(c18_mk_bytelist, ddpbytelist, ddpbyte, ddp_ddpbytelist_from_constants)
C18_LIST_MAKER(c18_mk_boollist, ddpboollist, ddpbool, ddp_ddpboollist_from_constants)
C18_LIST_MAKER(c18_mk_charlist, ddpcharlist, ddpchar, ddp_ddpcharlist_from_constants)

C18_UNUSED static void c18_mk_stringlist(ddpstringlist *out, ddpint n, const char *const *vals, ddpint extra) {
	if (extra == 0) {
		ddp_ddpstringlist_from_constants(out, n);
	} else {
		out->arr = DDP_ALLOCATE(ddpstring, n + extra);
		out->len = n;
		out->cap = n + extra;
	}
	for (ddpint i = 0; i < n; i++) {
		c18_mk_string(&out->arr[i], vals[i], (int)(i & 1));
	}
}

C18_UNUSED static void c18_mk_paar(Paar *out, ddpint z, const char *t) {
	out->z = z;
	c18_mk_string(&out->t, t, 0);
}

C18_UNUSED static void c18_mk_paarlist(PaarList *out, ddpint n, const ddpint *zs, const char *const *ts, ddpint extra) {
	ddpint cap = n + extra;
	out->arr = cap > 0 ? DDP_ALLOCATE(Paar, cap) : NULL;
	out->len = n;
	out->cap = cap;
	for (ddpint i = 0; i < n; i++) {
		c18_mk_paar(&out->arr[i], zs[i], ts[i]);
	}
}

// an any list of n empty Variablen
C18_UNUSED static void c18_mk_anylist_empty(ddpanylist *out, ddpint n, ddpint extra) {
	if (extra == 0) {
		ddp_ddpanylist_from_constants(out, n);
	} else {
		out->arr = DDP_ALLOCATE(ddpany, n + extra);
		out->len = n;
		out->cap = n + extra;
	}
	for (ddpint i = 0; i < n; i++) {
		out->arr[i] = DDP_EMPTY_ANY;
	}
}

// ---------------------------------------------------------------- release (what a callee does before it replaces a value)

C18_UNUSED static void c18_free_paar(Paar *p) {
	ddp_free_string(&p->t);
	p->t = DDP_EMPTY_STRING;
}

C18_UNUSED static void c18_free_satz(Satz *s) {
	ddp_free_ddpintlist(&s->l);
	s->l = DDP_EMPTY_LIST(ddpintlist);
	ddp_free_ddpstringlist(&s->tl);
	s->tl = DDP_EMPTY_LIST(ddpstringlist);
}

C18_UNUSED static void c18_free_paarlist(PaarList *l) {
	for (ddpint i = 0; i < l->len; i++) {
		c18_free_paar(&l->arr[i]);
	}
	DDP_FREE_ARRAY(Paar, l->arr, l->cap);
	*l = (PaarList){NULL, 0, 0};
}

#endif // C18_SUPPORT_H
