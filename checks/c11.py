"""C11 Optimisation level and link mode do not change program behaviour.
Differential monitor (no model): one source is compiled by the real kddp under
{-O 0,1,2} x {--module-linken} x {--list-defs-linken} and all executables must show the same
stdout, exit status and run-time error class."""
import json
import os
import random
import re
import shutil

import vlib
from vlib import Check, Scratch
from ddpmodel import *
from ddpmodel.gen import StmtGen, wrap_in_function
from ddpmodel import reduce as reducer
from checks import progcheck

PID = "C11"

CONFIGS_FULL = [(O, ml, ll) for O in (0, 1, 2) for ml in (True, False) for ll in (True, False)]
CONFIGS_IMPORTS = [(O, True, ll) for O in (0, 1, 2) for ll in (True, False)]
DENY = ("Zufall", "Zeit", "Laufzeit", "Dateisystem", "Netzwerk", "UnterProzess", "Umgebungsvariablen", "Regex", "Komprimierung", "Eingabe", "Uri", "duden_parsing",
        "Befehlszeile", "Kryptographie", "C", "Datei", "Pfade")


def cfg_name(c):
    return "O%d%s%s" % (c[0], "" if c[1] else "-nomodlink", "" if c[2] else "-nolistdefs")


def observe(src_path, workdir, cfg, stdin=None):
    O, ml, ll = cfg
    exe = os.path.join(workdir, "x_" + cfg_name(cfg))
    c = vlib.kddp_compile(src_path, exe, O=O, link_modules=ml, link_listdefs=ll)
    if c.timed_out:
        return None
    if c.rc != 0 or not os.path.exists(exe):
        m = re.search(r"Unerwarteter Fehler[^\n]*|Fehler beim [^\n:]*", c.err)
        return ("compile-failed", re.sub(r"0x[0-9a-f]+|\d+", "N", m.group(0))[:160] if m else "?", "")
    r = vlib.run_exe(exe, stdin=stdin, cwd=os.path.dirname(src_path))
    os.unlink(exe)
    if r.timed_out:
        return None
    errclass = re.split(r"\d", r.err.strip().split("\n")[0])[0] if r.err.strip() else ""
    return (r.rc, r.out, errclass)


def build_separately(case_dir, main_rel, module_rels, O, link_listdefs, tag):
    """--module-linken=false on a program WITH imports: kddp then compiles only the file it is given, so every (transitively)
    imported module is compiled by its own kddp call into an object file and all objects are handed to the system linker.
    Every such object carries a ddp_ddpmain of its own (kddp compiles each file 'as main module'); that one symbol is made
    local with objcopy. Returns (exe path or None, failure text)."""
    objs = []
    for k, rel in enumerate(module_rels):
        src = rel if os.path.isabs(rel) else os.path.join(case_dir, rel)
        o = os.path.join(case_dir, "%s_mod%d.o" % (tag, k))
        c = vlib.kddp_compile(src, o, O=O, link_modules=False, link_listdefs=False, cwd=os.path.dirname(src))
        if c.timed_out:
            return None, None
        if c.rc != 0 or not os.path.exists(o):
            return None, "module %s: %s" % (os.path.basename(rel), (c.err or c.out)[-300:])
        l = vlib.run(["objcopy", "--localize-symbol=ddp_ddpmain", o])
        if l.rc != 0:
            return None, None
        objs.append(o)
    exe = os.path.join(case_dir, tag + "_exe")
    main = os.path.join(case_dir, main_rel)
    c = vlib.kddp_compile(main, exe, O=O, link_modules=False, link_listdefs=link_listdefs, gcc_opts=" ".join(objs) + " -lddpstdlib -lddpruntime -lm")
    for o in objs:
        os.unlink(o)
    if c.timed_out:
        return None, None
    if c.rc != 0 or not os.path.exists(exe):
        return None, "link: " + re.sub(r"/\S*/", "", (c.err or c.out))[-400:]
    return exe, ""


def graph_observations(d, main_rel, mods):
    main = os.path.join(d, main_rel)
    obs = {}
    for O in (0, 1, 2):
        obs[(O, True, True)] = observe(main, d, (O, True, True))
    mods = list(mods) + [os.path.join(vlib.DDP, "Duden", "Ausgabe.ddp")]
    for O in (0, 1, 2):
        for ll in (True, False):
            cfg = (O, False, ll)
            exe, fail = build_separately(d, main_rel, mods, O, ll, "sep_" + cfg_name(cfg))
            if exe is None:
                obs[cfg] = None if fail is None else ("compile-failed", re.sub(r"0x[0-9a-f]+|\d+", "N", fail)[:200], "")
                continue
            r = vlib.run_exe(exe, cwd=d)
            os.unlink(exe)
            obs[cfg] = None if r.timed_out else (r.rc, r.out, re.split(r"\d", r.err.strip().split("\n")[0])[0] if r.err.strip() else "")
    return obs


def run_module_graphs(chk, sc, n):
    """multi-module programs (C10's generated import graphs: global initialisers with side effects, public functions, directory and
    selective imports): the default build (everything merged into one LLVM module) against separately compiled modules at -O 0/1/2
    with and without linked-in list definitions. Differences in stdout or exit status - uninitialised globals of an imported module,
    a missing or doubled initialiser, a symbol that only one mode exports - are violations."""
    from checks import c10_gen

    def work(i):
        spec = c10_gen.gen_graph(chk.seed, 5000 + i)
        d = os.path.join(sc.path, "mg%d" % i)
        for rel, content in spec["files"].items():
            vlib.write_file(os.path.join(d, rel), content)
        mods = [m["rel"] + ".ddp" for k, m in sorted(spec["mods"].items()) if m["reach"] and k != "main"]
        obs = graph_observations(d, spec["main"], mods)
        return spec, obs

    for spec, obs in vlib.pmap(work, range(n)):
        vals = {c: o for c, o in obs.items() if o is not None}
        chk.inconclusive += sum(1 for o in obs.values() if o is None)
        built = [c for c, o in vals.items() if o[0] != "compile-failed"]
        chk.note_case("graph:%s" % spec["name"], nontrivial=len(built) >= 2)
        chk.count("configurations_run", len(vals))
        chk.count("programs_module_graph")
        chk.count("modules_compiled_separately", 6 * sum(1 for k, m in spec["mods"].items() if m["reach"] and k != "main"))
        groups = {}
        for c, o in vals.items():
            groups.setdefault(o, []).append(c)
        if len(groups) > 1:
            major = max(groups.values(), key=len)
            minority = sorted(c for cs in groups.values() if cs is not major for c in cs)
            what = sorted({("compile" if o[0] == "compile-failed" else "run") for o in groups})[-1]
            detail = ""
            if what == "compile":
                detail = next(re.sub(r"[`'][^`']*[`']", "'X'", o[1])[:90] for o in groups if o[0] == "compile-failed")
            sig = {"kind": "configurations disagree", "source": "module graph", "what": what, "minority": " ".join(sorted({cfg_name(c) for c in minority})), "detail": detail}
            files = {"case/" + rel: content for rel, content in spec["files"].items()}
            files["observations.json"] = json.dumps({cfg_name(c): [str(o[0]), o[1][:400], o[2]] for c, o in sorted(vals.items())}, indent=1, ensure_ascii=False)
            files["spec.json"] = json.dumps({"main": spec["main"], "mods": {k: m["rel"] for k, m in spec["mods"].items() if m["reach"]}}, indent=1)
            chk.violation(sig, files=files, text="module graph %s: " % spec["name"] + "; ".join("%s -> %s" % ([cfg_name(c) for c in cs], (o[0], o[1][:80], o[2])) for o, cs in groups.items())[:1500])


def numeric_extras(rnd):
    """observations that need no model: pow / root / logarithm with arbitrary arguments"""
    out = []
    for k in range(6):
        a, b = rnd.choice([2, 3, 10, 0.5, 7, 2.5, 100, 1e6]), rnd.choice([2, 3, 0.5, 10, 7, 1.5])
        la = Lit(K, float(a)) if isinstance(a, float) else Lit(Z, a)
        lb = Lit(K, float(b)) if isinstance(b, float) else Lit(Z, b)
        form = rnd.choice(["hoch", "wurzel", "log"])
        e = Bin("hoch", la, lb, K) if form == "hoch" else Bin("wurzel", Lit(Z, rnd.choice([2, 3, 5])), la, K) if form == "wurzel" else Bin("log", la, Lit(Z, rnd.choice([2, 10, 3])), K)
        out += [Print(Lit(T, "#x%d:" % k), False), Print(e, True)]
    return out


def run(tier):
    vlib.ensure_build(asan=False)
    chk = Check(PID, tier)
    ngen, ngold = (36, 14) if tier == "quick" else (300, 150)
    chk.rule = ("sources: seeded random statement programs of ddpmodel (a third of them with local variables only) and C08's copy/alias programs (self-contained print prelude, so all 12 configurations {O0,O1,O2} x {modules linked?} x "
                "{list definitions linked?} apply) extended with model-free pow/root/log observations, plus upstream's programs under tests/testdata and examples "
                "that compile here (6 configurations, imports need module linking); and C10's generated import graphs (2-7 modules with global initialisers), built merged at -O 0/1/2 and with every "
                "imported module compiled separately (--module-linken=false, one kddp call per module, linked by the system linker) at -O 0/1/2 x list definitions linked or not. Distinct by source hash; non-trivial = at least two configurations produced an "
                "executable. Oracle: identical (exit status, stdout, first stderr line up to the first digit) across configurations.")
    chk.assumptions = ["programs depending on time, randomness, environment, files or stdin are excluded by a deny list", "locale shim de_DE.UTF-8"]
    with Scratch("c11") as sc:
        jobs = []
        for i in range(ngen):
            jobs.append(("gen", i))
        gold = []
        for sub in ("tests/testdata/kddp", "tests/testdata/stdlib", "examples"):
            root = os.path.join(vlib.REPO, sub)
            for dp, dn, fn in os.walk(root):
                base = os.path.basename(dp)
                if sub == "examples":
                    gold += [os.path.join(dp, f) for f in fn if f.endswith(".ddp") and dp == root]
                elif base + ".ddp" in fn and "expected.txt" in fn:
                    gold.append(os.path.join(dp, base + ".ddp"))
        gold = sorted(g for g in gold if not any(d == os.path.basename(os.path.dirname(g)) or d == os.path.splitext(os.path.basename(g))[0] for d in DENY))
        rnd = random.Random("%d/%s/gold" % (chk.seed, PID))
        rnd.shuffle(gold)
        for g in gold[:ngold]:
            jobs.append(("gold", g))

        def work(job):
            kind, x = job
            if kind == "gen":
                r = random.Random("%d/%s/%d" % (chk.seed, PID, x))
                if x % 3 == 2:
                    # copy/alias cases of C08 (local holders, by-value + Referenz arguments, callee forms): the code -O 2 treats specially
                    from checks import c08
                    prog = c08.build(r).prog
                else:
                    g = StmtGen(r)
                    local = r.random() < 0.35       # every variable a local of one function
                    prog = g.build(n_items=r.randint(10, 22), d=2, nest=r.randint(1, 3), n_funcs=r.randint(0, 2), pure_funcs=local)
                    if local:
                        wrap_in_function(prog, allow_funcs=True)
                prog.items += numeric_extras(r)
                d = os.path.join(sc.path, "g%d" % x)
                os.makedirs(d)
                sp = os.path.join(d, "m.ddp")
                open(sp, "w").write(Printer(prog).program(prelude="self"))
                cfgs, stdin = CONFIGS_FULL, None
            else:
                src_dir = os.path.dirname(x)
                d = os.path.join(sc.path, "gold%d" % (abs(hash(x)) % 10 ** 9))
                shutil.copytree(src_dir, d)
                sp = os.path.join(d, os.path.basename(x))
                prog = None
                cfgs = CONFIGS_IMPORTS
                ip = os.path.join(d, "input.txt")
                stdin = open(ip, "rb").read() if os.path.exists(ip) else None
            obs = {}
            for c in cfgs:
                obs[c] = observe(sp, d, c, stdin)
            return job, prog, sp, obs

        for job, prog, sp, obs in vlib.pmap(work, jobs):
            kind, x = job
            vals = {c: o for c, o in obs.items() if o is not None}
            chk.inconclusive += sum(1 for o in obs.values() if o is None)
            built = [c for c, o in vals.items() if o[0] != "compile-failed"]
            src = open(sp).read()
            chk.note_case(hash(src), nontrivial=len(built) >= 2)
            chk.count("configurations_run", len(vals))
            chk.count("programs_" + kind)
            if not vals:
                continue
            ref_c = sorted(vals)[0]
            groups = {}
            for c, o in vals.items():
                groups.setdefault(o, []).append(c)
            if len(groups) > 1:
                # name the axis that separates the groups
                major = max(groups.values(), key=len)
                minority = sorted(c for cs in groups.values() if cs is not major for c in cs)
                axes = set()
                for c in minority:
                    for m in major:
                        diff = [("O", "modlink", "listdefs")[k] for k in range(3) if c[k] != m[k]]
                        if len(diff) == 1:
                            axes.add(diff[0] + ("=%s" % c[0] if diff[0] == "O" else "=%s" % c[["O", "modlink", "listdefs"].index(diff[0])]))
                sig = {"kind": "configurations disagree", "axes": " ".join(sorted(axes)) or "mixed", "what": sorted({("compile" if o[0] == "compile-failed" else "run") for o in groups})[-1],
                       "source": "generated" if kind == "gen" else os.path.relpath(x, vlib.REPO)}
                if kind == "gen":
                    sig["shape"] = shape_of_disagreement(prog, sorted(major)[0], minority[0], os.path.join(sc.path, "red%d" % x))
                table = {cfg_name(c): [str(o[0]), o[1][:300], o[2]] for c, o in sorted(vals.items())}
                chk.violation(sig, files={"main.ddp": src, "observations.json": json.dumps(table, indent=1, ensure_ascii=False)},
                              text="configurations disagree: " + "; ".join("%s -> %s" % ([cfg_name(c) for c in cs], (o[0], o[1][:60], o[2])) for o, cs in groups.items())[:1500])
            if kind == "gen" and x < 2:
                chk.sample({"source_head": src[-700:], "configurations": [cfg_name(c) for c in sorted(vals)], "agreed": len(groups) == 1, "stdout_head": vals[ref_c][1][:150]})
        run_module_graphs(chk, sc, 12 if tier == "quick" else 120)
    return chk.finish(min_events=10)


def shape_of_disagreement(prog, cfg_a, cfg_b, workdir):
    """reduce the program while the two configurations still disagree; return its shape"""
    n = [0]

    def fails(q):
        n[0] += 1
        d = os.path.join(workdir, "t%d" % (n[0] % 4))
        os.makedirs(d, exist_ok=True)
        sp = os.path.join(d, "m.ddp")
        open(sp, "w").write(Printer(q).program(prelude="self"))
        a, b = observe(sp, d, cfg_a), observe(sp, d, cfg_b)
        return a is not None and b is not None and a != b

    try:
        q = reducer.reduce_program(prog, fails, max_tests=60)
        return progcheck.features(q)
    except Exception:
        return progcheck.features(prog)


def replay(path):
    vlib.ensure_build(asan=False)
    with Scratch("c11r") as sc:
        if os.path.exists(os.path.join(path, "spec.json")):
            spec = json.load(open(os.path.join(path, "spec.json")))
            d = os.path.join(sc.path, "case")
            shutil.copytree(os.path.join(path, "case"), d)
            obs = graph_observations(d, spec["main"], [rel + ".ddp" for k, rel in sorted(spec["mods"].items()) if k != "main"])
            if len({v for v in obs.values() if v is not None}) > 1:
                print("VIOLATION property=%s replay=%s" % (PID, path))
                return 1
            return 0
        sp = os.path.join(sc.path, "main.ddp")
        src = open(os.path.join(path, "main.ddp")).read()
        open(sp, "w").write(src)
        cfgs = CONFIGS_FULL if 'Binde "' not in src else CONFIGS_IMPORTS
        vals = {c: observe(sp, sc.path, c) for c in cfgs}
        if len({v for v in vals.values() if v is not None}) > 1:
            print("VIOLATION property=%s replay=%s" % (PID, path))
            return 1
    return 0
