"""C17 helper: discover the function declarations of a Duden module by reading its .ddp file
(name, public?, generic?, parameters with types, return type, aliases, doc comment).
This is a plain text reader for the regular layout of lib/stdlib/Duden/*.ddp, not a DDP parser; it is
used for (a) rendering calls through the documented alias syntax and (b) the coverage report
"functions covered / functions public"."""
import os
import re

SCALARS = {"Zahl": "Z", "Kommazahl": "K", "Text": "T", "Buchstabe": "B", "Buchstaben": "B", "Wahrheitswert": "W", "Byte": "Y", "T": "*"}
LIST_WORD = {"Zahlen": "Z", "Kommazahlen": "K", "Text": "T", "Buchstaben": "B", "Wahrheitswert": "W", "Byte": "Y", "T": "*", "Variablen": "V"}


def parse_type(s):
    """DDP type text -> (code, is_ref); code: Z K T B W Y, lists ZL .., generic '*' / '*L', other: '?'"""
    s = s.strip()
    ref = False
    if s.endswith(" Referenz"):
        ref = True
        s = s[: -len(" Referenz")].strip()
    w = s.split()
    if len(w) == 2 and w[1] in ("Liste", "Listen") and w[0] in LIST_WORD:
        return LIST_WORD[w[0]] + "L", ref
    if len(w) == 1:
        if ref and w[0] in LIST_WORD:      # "Zahlen Referenz", "Kommazahlen Referenz", "Variablen Referenz"
            return LIST_WORD[w[0]], ref
        if w[0] in SCALARS:
            return SCALARS[w[0]], ref
    return "?", ref


class Func:
    __slots__ = ("module", "name", "public", "generic", "extern", "params", "ret", "aliases", "doc", "line")

    def __repr__(self):
        return "Func(%s.%s %s -> %s)" % (self.module, self.name, self.params, self.ret)


_split_names = re.compile(r"\s*,\s*|\s+und\s+")

_head = re.compile(
    r"^Die\s+(?P<pub>(?:ö|oe)ffentliche\s+)?(?P<gen>generische\s+)?Funktion\s+(?P<name>\S+)"
    r"(?:\s+mit\s+(?:dem\s+Parameter|den\s+Parametern)\s+(?P<pnames>.+?)\s+vom\s+Typ\s+(?P<ptypes>.+?))?"
    r",?\s+gibt\s+(?P<ret>nichts|(?:eine[nr]?|ein)\s+.+?)\s+zurück\s*,", re.S)


def strip_comments(text):
    """replace [ ... ] comments (nesting not used in the Duden) by spaces, keeping newlines; comments inside
    string literals do not occur in declaration heads"""
    out = []
    depth = 0
    in_str = False
    i = 0
    while i < len(text):
        c = text[i]
        if depth == 0 and not in_str and c == "'":
            mm = re.match(r"'(?:\\.|[^\\\n])'", text[i:i + 4])
            if mm:                      # character literal such as '"' or '\''
                out.append(mm.group(0))
                i += mm.end()
                continue
            out.append(c)
        elif depth == 0 and c == '"' and (i == 0 or text[i - 1] != "\\"):
            in_str = not in_str
            out.append(c)
        elif not in_str and c == "[":
            depth += 1
            out.append(" ")
        elif not in_str and c == "]" and depth > 0:
            depth -= 1
            out.append(" ")
        elif depth > 0:
            out.append("\n" if c == "\n" else " ")
        else:
            out.append(c)
        i += 1
    return "".join(out)


def parse_module(path):
    module = os.path.splitext(os.path.basename(path))[0]
    raw = open(path, encoding="utf-8").read()
    text = strip_comments(raw)
    raw_lines = raw.split("\n")
    funcs = []
    consts = []
    for m in re.finditer(r"(?m)^Die\s+((?:ö|oe)ffentliche\s+)?Konstante\s+(\S+)\s+ist\s+(.+?)\.\s*$", text):
        consts.append((m.group(2), bool(m.group(1)), m.group(3).strip()))
    # declaration heads start at column 0 with "Die ... Funktion"
    starts = [m.start() for m in re.finditer(r"(?m)^Die[ \t]+(?:(?:ö|oe)ffentliche[ \t]+)?(?:generische[ \t]+)?Funktion\s", text)]
    for k, st in enumerate(starts):
        end = starts[k + 1] if k + 1 < len(starts) else len(text)
        chunk = text[st:end]
        m = _head.match(chunk)
        if not m:
            raise ValueError("cannot parse head in %s: %r" % (path, chunk[:120]))
        f = Func()
        f.module = module
        f.name = m.group("name")
        f.public = bool(m.group("pub"))
        f.generic = bool(m.group("gen"))
        f.extern = bool(re.match(r"\s*ist\s+in\s+\"", chunk[m.end():]))
        f.line = text.count("\n", 0, st) + 1
        f.params = []
        if m.group("pnames"):
            names = [n for n in _split_names.split(m.group("pnames").strip()) if n]
            types = [t for t in _split_names.split(m.group("ptypes").strip()) if t]
            if len(names) != len(types):
                raise ValueError("parameter/type count mismatch in %s.%s" % (module, f.name))
            for n, t in zip(names, types):
                code, ref = parse_type(t)
                f.params.append((n, code, ref))
        r = m.group("ret")
        if r == "nichts":
            f.ret = None
        else:
            f.ret = parse_type(r.split(None, 1)[1])[0]
        # aliases: quoted strings after "kann so benutzt werden:" up to the next declaration / blank structure
        am = re.search(r"(?i)und\s+kann\s+so\s+benutzt\s+werden\s*:", chunk)
        f.aliases = []
        if am:
            rest = chunk[am.end():]
            # the alias block is a sequence of string literals separated by ',' / 'oder' / whitespace
            pos = 0
            while True:
                mm = re.match(r"\s*(?:,|oder)?\s*\"((?:[^\"\\]|\\.)*)\"", rest[pos:])
                if not mm:
                    break
                f.aliases.append(mm.group(1))
                pos += mm.end()
        # doc comment: the [ ... ] block that ends directly above the head
        f.doc = ""
        j = f.line - 2
        while j >= 0 and raw_lines[j].strip() == "":
            j -= 1
        if j >= 0 and raw_lines[j].rstrip().endswith("]"):
            e = j
            while j >= 0 and "[" not in raw_lines[j]:
                j -= 1
            if j >= 0:
                f.doc = "\n".join(raw_lines[j:e + 1]).strip().strip("[]").strip()
        funcs.append(f)
    return funcs, consts


MODULES = ["Listen", "Texte", "Sortierung", "Zeichen", "Zahlen", "Mathe", "Statistik"]


def parse_duden(duden_dir):
    res = {}
    for mod in MODULES:
        funcs, consts = parse_module(os.path.join(duden_dir, mod + ".ddp"))
        res[mod] = {"funcs": {f.name: f for f in funcs}, "order": [f.name for f in funcs], "consts": consts}
    return res


ALIAS_TOKEN = re.compile(r"<(!?)([^<>]+)>")


def render_alias(alias, args, negate=False):
    """alias text -> call text; args: {param: source text}; `<!word>` is the negation marker.
    Only the alias' own text is whitespace-normalised, never the argument texts."""
    out = []
    pos = 0
    for m in ALIAS_TOKEN.finditer(alias):
        out.append(re.sub(r"\s+", " ", alias[pos:m.start()]))
        if m.group(1) == "!":
            out.append(m.group(2) if negate else "")
        else:
            out.append(args[m.group(2)])
        pos = m.end()
    out.append(re.sub(r"\s+", " ", alias[pos:]))
    return "".join(out).strip()


def alias_has_negation(alias):
    return any(m.group(1) == "!" for m in ALIAS_TOKEN.finditer(alias))


def alias_params(alias):
    return [m.group(2) for m in ALIAS_TOKEN.finditer(alias) if m.group(1) != "!"]


if __name__ == "__main__":
    import sys
    d = parse_duden(sys.argv[1] if len(sys.argv) > 1 else "/repo/lib/stdlib/Duden")
    for mod, info in d.items():
        pub = [f for f in info["funcs"].values() if f.public]
        print("==", mod, "functions", len(info["funcs"]), "public", len(pub), "public consts", sum(1 for c in info["consts"] if c[1]))
        for f in info["funcs"].values():
            print("  %s%s %s(%s) -> %s  %r  doc=%d" % ("+" if f.public else "-", "G" if f.generic else " ", f.name,
                  ", ".join("%s:%s%s" % (n, c, "&" if r else "") for n, c, r in f.params), f.ret, f.aliases[:2], len(f.doc)))
