"""C16 workload: DDP programs (valid and invalid, single- and multi-module) built to make
dependence on map iteration order observable. Pure functions of a random.Random.

A program is a dict
  name, family, files {relpath: text}, main, fresh (eligible for the fresh-process level),
  prep (optional list of archive build steps: {"lib": "libx.a", "src": ["x.c"]}),
  positions {module relpath: "total" | "inconsistent"}  - whether the start positions (line, column)
      of the module's public declarations are ordered consistently by the comparator
      `start.Line < startj.Line || start.Column < startj.Column` of ast.IterateImportedDecls,
  expect: None (must be repeatable) or the key of the order-dependent site the program is aimed at
      (informational only - the verdict never uses it).
"""
import hashlib

AUSGABE = 'Binde "Duden/Ausgabe" ein.\n'

# type name -> (phrase after "vom Typ", return phrase, a right literal, article for a variable declaration)
TYPES = {
    "Zahl": ("Zahl", "eine Zahl", ["1", "7", "42"], "Die"),
    "Kommazahl": ("Kommazahl", "eine Kommazahl", ["2,5", "0,25"], "Die"),
    "Text": ("Text", "einen Text", ['"t"', '"abc"'], "Der"),
    "Buchstabe": ("Buchstabe", "einen Buchstaben", ["'c'", "'x'"], "Der"),
    "Wahrheitswert": ("Wahrheitswert", "einen Wahrheitswert", ["wahr", "falsch"], "Der"),
}
# literals that are certainly not accepted for the key type (no implicit conversion between these groups)
WRONG = {
    "Zahl": ['"w"', "'q'", "wahr"],
    "Kommazahl": ['"w"', "'q'", "falsch"],
    "Text": ["3", "wahr", "4,5"],
    "Buchstabe": ["3", "wahr", '"lang"'],
    "Wahrheitswert": ['"w"', "'q'", "3"],
}
PNAMES = ["a", "b", "c", "d", "e", "g", "h", "k", "m", "n"]
# argument expressions that carry a type error of their OWN inside (reported while the argument is evaluated, before it is
# compared with the parameter type)
NESTED_FAULTY = ['(1 plus "w")', '("a" mal 2)', "(wahr minus 1)", "(die Länge von 5)", "(nicht 3)", "('c' durch 2)", '(2 hoch "x")', "(der Betrag von wahr)"]


def params_phrase(names, types):
    if not names:
        return ""
    if len(names) == 1:
        return " mit dem Parameter %s vom Typ %s," % (names[0], TYPES[types[0]][0])
    ns = ", ".join(names[:-1]) + " und " + names[-1]
    ts = ", ".join(TYPES[t][0] for t in types[:-1]) + " und " + TYPES[types[-1]][0]
    return " mit den Parametern %s vom Typ %s," % (ns, ts)


def func_decl(name, names, types, ret_value, aliases, public=False, body=None):
    """function returning a Zahl; aliases: list of alias strings"""
    head = "Die %sFunktion %s%s gibt eine Zahl zurück, macht:\n" % ("öffentliche " if public else "", name, params_phrase(names, types))
    b = body if body is not None else "\tGib %s zurück.\n" % ret_value
    al = " oder\n".join('\t"%s"' % a for a in aliases)
    return head + b + "Und kann so benutzt werden:\n" + al + "\n"


def extern_func_decl(name, cfile, alias, public=False):
    return ("Die %sFunktion %s mit dem Parameter a vom Typ Zahl, gibt eine Zahl zurück,\nist in \"%s\" definiert\nund kann so benutzt werden:\n\t\"%s\"\n"
            % ("öffentliche " if public else "", name, cfile, alias))


def struct_decl(name, fields, alias, public=False):
    """fields: [(name, type)] all with default values; masculine type name"""
    fl = []
    for fn, ft in fields:
        art = {"Die": "der", "Der": "dem"}[TYPES[ft][3]]
        pub = ("öffentlichen " if public else "")
        fl.append("\t%s %s%s %s mit Standardwert %s," % (art, pub, TYPES[ft][0], fn, TYPES[ft][2][0]))
    return "Wir nennen die %sKombination aus\n%s\neinen %s, und erstellen sie so:\n\t\"%s\"\n" % (
        "öffentliche " if public else "", "\n".join(fl), name, alias)


def var_decl(name, typ, value, public=False):
    art = TYPES[typ][3]
    return "%s %s%s %s ist %s.\n" % (art, ("öffentliche " if public else ""), TYPES[typ][0], name, value)


class Mod:
    """text of one module with the start position of every public declaration"""

    def __init__(self):
        self.text = ""
        self.pub = []  # (name, line, col)

    def pos(self):
        line = self.text.count("\n") + 1
        col = len(self.text) - (self.text.rfind("\n") + 1) + 1
        return line, col

    def add(self, decl, name=None, glue=False, indent=0):
        """append a declaration; glue=True continues on the line of the previous one (which must end in '.')"""
        if glue and self.text.endswith(".\n"):
            self.text = self.text[:-1] + " "
        elif indent:
            self.text += " " * indent
        if name is not None:
            line, col = self.pos()
            self.pub.append((name, line, col))
        self.text += decl
        if not self.text.endswith("\n"):
            self.text += "\n"

    def raw(self, s):
        self.text += s

    def positions(self):
        """'inconsistent' iff two public declarations a (earlier line) and b (later line) have col(b) < col(a):
        then less(a,b) and less(b,a) are both true for the comparator of ast.IterateImportedDecls"""
        for i, (_, li, ci) in enumerate(self.pub):
            for (_, lj, cj) in self.pub[i + 1:]:
                if li < lj and cj < ci:
                    return "inconsistent"
        return "total"


def prog(name, family, files, main="main.ddp", fresh=True, expect=None, positions=None, prep=None, inproc=True):
    return {"name": name, "family": family, "files": files, "main": main, "fresh": fresh, "expect": expect,
            "positions": positions or {}, "prep": prep or [], "inproc": inproc}


def prog_hash(p):
    h = hashlib.sha1()
    for k in sorted(p["files"]):
        h.update(k.encode())
        h.update(b"\0")
        v = p["files"][k]
        h.update(v if isinstance(v, bytes) else v.encode())
        h.update(b"\0")
    return h.hexdigest()[:16]


# ------------------------------------------------------------------ big modules (>= 9 public declarations)

def big_module(rnd, tag, n_decl, layout, with_structs=True):
    """module with n_decl public declarations of mixed kinds.
    layout: 'lines' (every declaration on its own line, column 1), 'glued' (several on one line /
    declarations starting behind another one), 'indented' (leading blanks).
    returns (Mod, uses) where uses = list of statements for an importer exercising every declaration"""
    m = Mod()
    uses = []
    last_was_var = False
    for i in range(n_decl):
        kinds = ["var", "var", "func", "func", "func2", "list"]
        if with_structs:
            kinds += ["struct", "talias", "tdef"]
        kind = rnd.choice(kinds)
        glue = layout == "glued" and last_was_var and rnd.random() < 0.7
        indent = rnd.choice([0, 1, 2, 5]) if layout == "indented" else 0
        nm = "%s_%d" % (tag, i)
        if kind == "var":
            t = rnd.choice(list(TYPES))
            m.add(var_decl("v" + nm, t, rnd.choice(TYPES[t][2]), public=True), "v" + nm, glue, indent)
            uses.append("Schreibe v%s auf eine Zeile.\n" % nm)
            last_was_var = True
            continue
        if kind == "list":
            m.add("Die öffentliche Zahlen Liste l%s ist eine Liste, die aus %d, %d, %d besteht.\n" % (nm, i, i + 1, i + 2), "l" + nm, glue, indent)
            uses.append("Schreibe l%s auf eine Zeile.\n" % nm)
            last_was_var = True
            continue
        if kind == "func":
            m.add(func_decl("f" + nm, ["a"], ["Zahl"], "a plus %d" % (i + 1), ["rechne %s mit <a>" % nm, "berechne %s von <a>" % nm], public=True), "f" + nm, glue, indent)
            uses.append("Schreibe (rechne %s mit %d) auf eine Zeile.\nSchreibe (berechne %s von 2) auf eine Zeile.\n" % (nm, i, nm))
        elif kind == "func2":
            t1, t2 = rnd.choice(list(TYPES)), rnd.choice(list(TYPES))
            m.add(func_decl("g" + nm, ["a", "b"], [t1, t2], str(100 + i), ["verbinde %s <a> und <b>" % nm], public=True), "g" + nm, glue, indent)
            uses.append("Schreibe (verbinde %s %s und %s) auf eine Zeile.\n" % (nm, TYPES[t1][2][0], TYPES[t2][2][0]))
        elif kind == "struct":
            sn = "Paar%s" % nm.replace("_", "")
            m.add(struct_decl(sn, [("x", "Zahl"), ("y", "Zahl")], "ein %s mit <x> und <y>" % sn, public=True), sn, glue, indent)
            uses.append("Schreibe (y von (ein %s mit 1 und %d)) auf eine Zeile.\n" % (sn, i))
        elif kind == "talias":
            an = "Nummer%s" % nm.replace("_", "")
            m.add("Wir nennen eine Zahl öffentlich auch eine %s.\n" % an, an, glue, indent)
            uses.append("Die %s w%s ist %d.\nSchreibe w%s auf eine Zeile.\n" % (an, nm, i, nm))
            last_was_var = True
            continue
        else:
            dn = "Kennung%s" % nm.replace("_", "")
            m.add("Wir definieren eine %s öffentlich als einen Text.\n" % dn, dn, glue, indent)
            uses.append("Die %s k%s ist \"k%d\" als %s.\nSchreibe (k%s als Text) auf eine Zeile.\n" % (dn, nm, i, dn, nm))
            last_was_var = True
            continue
        last_was_var = False
    return m, uses


def gen_import_big(rnd, idx):
    layout = rnd.choice(["lines", "glued", "glued", "indented"])
    n = rnd.randint(9, 18)
    m, uses = big_module(rnd, "m", n, layout)
    files = {"m.ddp": m.text}
    main = AUSGABE + 'Binde "m" ein.\n'
    positions = {"m.ddp": m.positions()}
    if rnd.random() < 0.4:  # a second big module, other names
        m2, uses2 = big_module(rnd, "q", rnd.randint(9, 14), rnd.choice(["lines", "glued"]))
        files["q.ddp"] = m2.text
        main += 'Binde "q" ein.\n'
        uses += uses2
        positions["q.ddp"] = m2.positions()
    rnd.shuffle(uses)
    return prog("import_big_%d" % idx, "import_big(valid,%s)" % layout, dict(files, **{"main.ddp": main + "".join(uses)}), positions=positions)


# ------------------------------------------------------------------ name / alias clashes on import

def clash_module(rnd, names, layout, with_alias=None):
    """public Zahl variables (or functions with the given aliases) named `names`, laid out so that
    the comparator is consistent ('lines') or not ('glued')"""
    m = Mod()
    order = list(names)
    for i, nm in enumerate(order):
        glue = layout == "glued" and i % 2 == 1
        if with_alias and nm in with_alias:
            if layout == "glued" and i % 2 == 1:
                # a function cannot be glued behind a function; put a filler variable in front
                m.add(var_decl("fuell_%s" % nm, "Zahl", "0", public=True), "fuell_" + nm)
                glue = True
            m.add(func_decl(nm, ["a"], ["Zahl"], "a", [with_alias[nm]], public=True), nm, glue)
        else:
            m.add(var_decl(nm, "Zahl", str(i), public=True), nm, glue)
    return m


def gen_import_clash_names(rnd, idx):
    """importer already knows >= 2 of the public names of the imported module: error 2000, one per clash"""
    layout = rnd.choice(["lines", "glued"])
    k = rnd.randint(3, 10)
    names = ["n%d" % i for i in range(k)]
    m = clash_module(rnd, names, layout)
    clash = rnd.sample(names, rnd.randint(2, min(4, k)))
    how = rnd.choice(["own", "other_module"])
    files = {"m.ddp": m.text}
    positions = {"m.ddp": m.positions()}
    if how == "own":
        main = "".join(var_decl(c, "Zahl", "9") for c in clash) + 'Binde "m" ein.\n'
    else:
        m1 = clash_module(rnd, clash, "lines")
        files["erst.ddp"] = m1.text
        positions["erst.ddp"] = m1.positions()
        main = 'Binde "erst" ein.\nBinde "m" ein.\n'
    files["main.ddp"] = main
    exp = "import_decl_order" if positions["m.ddp"] == "inconsistent" else None
    if exp:  # only observable if two clashing names are in an inconsistent pair; keep it informational
        pass
    return prog("import_clash_names_%d" % idx, "import_clash_names(invalid,%s,%s)" % (layout, how), files, positions=positions, expect=exp)


def gen_import_clash_alias(rnd, idx):
    """two modules declare functions with different names but the same aliases (>= 2 clashes): the second
    import reports 'alias already defined', one per clash"""
    layout = rnd.choice(["lines", "glued"])
    k = rnd.randint(2, 5)
    al = {"h%d" % i: "mach %d mit <a>" % i for i in range(k)}
    m1 = clash_module(rnd, list(al), "lines", with_alias=al)
    al2 = {"j%d" % i: "mach %d mit <a>" % i for i in range(k)}
    m2 = clash_module(rnd, list(al2), layout, with_alias=al2)
    files = {"erst.ddp": m1.text, "m.ddp": m2.text, "main.ddp": 'Binde "erst" ein.\nBinde "m" ein.\n'}
    positions = {"erst.ddp": m1.positions(), "m.ddp": m2.positions()}
    return prog("import_clash_alias_%d" % idx, "import_clash_alias(invalid,%s)" % layout, files, positions=positions,
                expect="import_decl_order" if positions["m.ddp"] == "inconsistent" else None)


def gen_selective_import(rnd, idx):
    """selective imports take the order of the written list: clashes and unknown names must be reported in that order"""
    k = rnd.randint(4, 9)
    names = ["s%d" % i for i in range(k)]
    m = clash_module(rnd, names, rnd.choice(["lines", "glued"]))
    sel = rnd.sample(names, rnd.randint(2, k))
    mode = rnd.choice(["valid", "clash", "unknown"])
    main = AUSGABE
    if mode == "clash":
        main += "".join(var_decl(c, "Zahl", "5") for c in rnd.sample(sel, min(2, len(sel))))
    if mode == "unknown":
        sel = sel + ["fehlt_a", "fehlt_b"]
        rnd.shuffle(sel)
    lst = sel[0] if len(sel) == 1 else ", ".join(sel[:-1]) + " und " + sel[-1]
    main += 'Binde %s aus "m" ein.\n' % lst
    if mode == "valid":
        main += "".join("Schreibe %s auf eine Zeile.\n" % s for s in sel)
    return prog("selective_%d" % idx, "selective_import(%s)" % mode, {"m.ddp": m.text, "main.ddp": main}, positions={"m.ddp": m.positions()})


def gen_directory_import(rnd, idx):
    """directory import of several modules, some of which declare the same public names (reported per module in walk order)"""
    k = rnd.randint(2, 5)
    files = {}
    clash = rnd.random() < 0.5
    main = AUSGABE + 'Binde alle Module aus "teile" ein.\n'
    for i in range(k):
        m = Mod()
        m.add(var_decl("d%d_x" % i, "Zahl", str(i), public=True), "x")
        m.add(var_decl("d%d_y" % i, "Text", '"y%d"' % i, public=True), "y")
        if clash:
            m.add(var_decl("gemeinsam", "Zahl", str(i), public=True), "gemeinsam")
            m.add(var_decl("geteilt", "Zahl", str(i), public=True), "geteilt")
        files["teile/mod%d.ddp" % i] = m.text
        main += "Schreibe d%d_x auf eine Zeile.\nSchreibe d%d_y auf eine Zeile.\n" % (i, i)
    files["main.ddp"] = main
    return prog("dirimport_%d" % idx, "directory_import(%s)" % ("clash" if clash else "valid"), files)


# ------------------------------------------------------------------ operator overloads with ties, imported

def gen_import_overload_ties(rnd, idx):
    """two generic overloads of one operator that both fit `v op v`; which one is used is decided by the order
    in which the importer registers them"""
    layout = rnd.choice(["lines", "glued"])
    op, word = rnd.choice([("plus", "plus"), ("minus", "minus"), ("mal", "mal")])
    m = Mod()
    m.add(struct_decl("Vektor", [("x", "Zahl")], "ein Vektor mit <x>", public=True), "Vektor")
    fa = ("Die öffentliche generische Funktion %s mit den Parametern a und b vom Typ %s, gibt eine Zahl zurück, macht:\n\tGib %d zurück.\nUnd überlädt den \"%s\" Operator.\n")
    if layout == "glued":
        m.add(var_decl("q", "Zahl", "1", public=True), "q")
        m.add(fa % ("opA", "T und Vektor", 1, op), "opA", glue=True)
    else:
        m.add(fa % ("opA", "T und Vektor", 1, op), "opA")
    m.add(fa % ("opB", "Vektor und T", 2, op), "opB")
    main = AUSGABE + 'Binde "m" ein.\nDer Vektor v ist ein Vektor mit 3.\nSchreibe (v %s v) auf eine Zeile.\n' % word
    return prog("import_overload_%d" % idx, "import_overload_ties(valid,%s)" % layout, {"m.ddp": m.text, "main.ddp": main},
                positions={"m.ddp": m.positions()}, expect="import_decl_order" if m.positions() == "inconsistent" else None)


# ------------------------------------------------------------------ argument maps

def _call_family(rnd, idx, mode):
    """one function with k parameters and one call; mode:
       types2   >= 2 arguments of a wrong type          (typechecker ranges over the Args map)
       undef2   >= 2 undefined names as arguments       (resolver ranges over the Args map)
       one      exactly one wrong argument              (control: nothing to choose from)
       valid    all arguments right, several nested     (control)"""
    k = rnd.randint(2, 6)
    names = PNAMES[:k]
    types = [rnd.choice(list(TYPES)) for _ in range(k)]
    alias_words = rnd.choice([None, ["mit", "und", "sowie", "dann", "auch", "zuletzt"]])
    if alias_words:
        alias = "nimm " + " ".join("%s <%s>" % (alias_words[i], names[i]) for i in range(k))
    else:
        alias = "nimm " + " ".join("<%s>" % n for n in names)
    src = func_decl("nimm", names, types, "1", [alias])
    args = [rnd.choice(TYPES[t][2]) for t in types]
    if mode == "types2":
        for i in rnd.sample(range(k), rnd.randint(2, k)):
            args[i] = rnd.choice(WRONG[types[i]])
    elif mode == "undef2":
        for i in rnd.sample(range(k), rnd.randint(2, k)):
            args[i] = "unbekannt_%d" % i
    elif mode == "nested2":
        for i in rnd.sample(range(k), rnd.randint(2, k)):
            args[i] = rnd.choice(NESTED_FAULTY)
    elif mode == "one":
        i = rnd.randrange(k)
        args[i] = rnd.choice(WRONG[types[i]]) if rnd.random() < 0.5 else "unbekannt_%d" % i
    elif mode == "valid":
        src += func_decl("eins", [], [], "1", ["die Eins"])
        for i in range(k):
            if types[i] == "Zahl" and rnd.random() < 0.7:
                args[i] = rnd.choice(["(1 plus 2)", "(die Eins)", "(-3)", "(2 mal (die Eins))"])
            elif types[i] == "Text" and rnd.random() < 0.5:
                args[i] = '("a" verkettet mit "b")'
    if alias_words:
        call = "nimm " + " ".join("%s %s" % (alias_words[i], args[i]) for i in range(k))
    else:
        call = "nimm " + " ".join(args)
    body = "Die Zahl ergebnis ist %s.\n" % call
    if mode == "valid":
        body += "Schreibe ergebnis auf eine Zeile.\n"
    if mode in ("one", "valid") and rnd.random() < 0.5:
        # more statements, each with at most one wrong argument: a fixed sequence of diagnostics
        for j in range(rnd.randint(1, 4)):
            a2 = [rnd.choice(TYPES[t][2]) for t in types]
            if mode == "one":
                i = rnd.randrange(k)
                a2[i] = rnd.choice(WRONG[types[i]])
            c2 = ("nimm " + " ".join("%s %s" % (alias_words[i], a2[i]) for i in range(k))) if alias_words else "nimm " + " ".join(a2)
            body += "Die Zahl weiter%d ist %s.\n" % (j, c2)
    exp = {"types2": "typechecker_funccall_args", "undef2": "resolver_args", "nested2": "typechecker_funccall_args"}.get(mode)
    return prog("call_%s_%d" % (mode, idx), "call_args(%s)" % mode, {"main.ddp": AUSGABE + src + body}, expect=exp)


def _struct_family(rnd, idx, mode):
    k = rnd.randint(2, 5)
    fnames = ["x", "y", "w", "u", "r"][:k]
    types = [rnd.choice(list(TYPES)) for _ in range(k)]
    alias = "ein Ding mit " + " ".join("<%s>" % f for f in fnames)
    src = struct_decl("Ding", list(zip(fnames, types)), alias)
    args = [rnd.choice(TYPES[t][2]) for t in types]
    if mode == "types2":
        for i in rnd.sample(range(k), rnd.randint(2, k)):
            args[i] = rnd.choice(WRONG[types[i]])
    elif mode == "undef2":
        for i in rnd.sample(range(k), rnd.randint(2, k)):
            args[i] = "unbekannt_%d" % i
    elif mode == "nested2":
        for i in rnd.sample(range(k), rnd.randint(2, k)):
            args[i] = rnd.choice(NESTED_FAULTY)
    elif mode == "one":
        i = rnd.randrange(k)
        args[i] = rnd.choice(WRONG[types[i]])
    body = "Der Ding ding ist ein Ding mit %s.\n" % " ".join(args)
    if mode == "valid":
        body += "Schreibe (%s von ding) auf eine Zeile.\n" % fnames[0]
    exp = {"types2": "typechecker_structliteral_args", "undef2": "resolver_args", "nested2": "typechecker_structliteral_args"}.get(mode)
    return prog("struct_%s_%d" % (mode, idx), "struct_literal(%s)" % mode, {"main.ddp": AUSGABE + src + body}, expect=exp)


def gen_call_types2(rnd, idx):
    return _call_family(rnd, idx, "types2")


def gen_call_undef2(rnd, idx):
    return _call_family(rnd, idx, "undef2")


def gen_call_nested2(rnd, idx):
    return _call_family(rnd, idx, "nested2")


def gen_struct_nested2(rnd, idx):
    return _struct_family(rnd, idx, "nested2")


def gen_call_one(rnd, idx):
    return _call_family(rnd, idx, "one")


def gen_call_valid(rnd, idx):
    return _call_family(rnd, idx, "valid")


def gen_struct_types2(rnd, idx):
    return _struct_family(rnd, idx, "types2")


def gen_struct_undef2(rnd, idx):
    return _struct_family(rnd, idx, "undef2")


def gen_struct_one(rnd, idx):
    return _struct_family(rnd, idx, rnd.choice(["one", "valid"]))


def gen_generic_struct_alias(rnd, idx):
    """generic Kombination whose constructor alias leaves >= 2 type parameters undetermined (error 2033 names one)"""
    tps = rnd.sample(["T", "R", "Z", "U", "V"], rnd.randint(1, 4))
    fields = "\n".join("\tdem %s f%d," % (t, i) for i, t in enumerate(tps))
    src = "Wir nennen die generische Kombination aus\n%s\neine Schachtel, und erstellen sie so:\n\t\"eine leere Schachtel\"\n" % fields
    return prog("generic_alias_%d_%d" % (len(tps), idx), "generic_struct_alias(invalid,%d type parameters)" % len(tps), {"main.ddp": src},
                expect="struct_alias_generic_map" if len(tps) >= 2 else None)


# ------------------------------------------------------------------ alias populations with ties

def gen_alias_ties(rnd, idx):
    """many aliases of equal length that all match the same call text (parameters vs. literal words), in one
    module or imported from a module whose declaration positions are not consistently ordered"""
    imported = rnd.random() < 0.5
    m = Mod()
    n = 0
    calls = []
    base = rnd.choice(["tu", "setze", "nimm"])
    tas = rnd.sample([t for t in TYPES if t != "Zahl"], rnd.randint(1, 3)) + ["Zahl"]
    for ta in tas:
        for (x, y) in [("<a>", "<b>"), ("1", "<b>"), ("<a>", "2"), ("1", "2")]:
            ps = [p for p, s in (("a", x), ("b", y)) if s.startswith("<")]
            if not ps and ta != "Zahl":
                continue
            nm = "f%d" % n
            glue = False
            if imported and n % 2 == 0:
                m.add(var_decl("v%d" % n, "Zahl", str(n), public=True), "v%d" % n)
                glue = True
            m.add(func_decl(nm, ps, [ta] * len(ps), str(n), ["%s %s mit %s" % (base, x, y)], public=imported), nm if imported else None, glue=glue)
            n += 1
    for c in ["1 mit 2", "3 mit 2", "1 mit 4", "5 mit 6", "1,5 mit 2,5", '"a" mit "b"']:
        calls.append("Schreibe (%s %s) auf eine Zeile.\n" % (base, c))
    if imported:
        return prog("alias_ties_imp_%d" % idx, "alias_ties(imported)", {"m.ddp": m.text, "main.ddp": AUSGABE + 'Binde "m" ein.\n' + "".join(calls)},
                    positions={"m.ddp": m.positions()})
    return prog("alias_ties_%d" % idx, "alias_ties(single module)", {"main.ddp": AUSGABE + m.text + "".join(calls)})


# ------------------------------------------------------------------ module graphs, extern dependencies

def gen_diamond(rnd, idx):
    """main imports several modules that all import a common base; initialisers print, so the order of
    initialisation and every call is visible in the behaviour"""
    k = rnd.randint(2, 7)
    files = {"basis.ddp": AUSGABE + func_decl("melde", ["t"], ["Text"], "1", ["melde <t>"], public=True, body="\tSchreibe t auf eine Zeile.\n\tGib 1 zurück.\n")
             + "Die öffentliche Zahl basis_init ist melde \"init basis\".\nDie öffentliche Text Liste basis_liste ist eine Liste, die aus \"x\", \"y\" besteht.\n"}
    main = AUSGABE
    names = ["m%s" % c for c in "abcdefg"[:k]]
    for i, n in enumerate(names):
        imp = 'Binde "basis" ein.\n'
        if i > 0 and rnd.random() < 0.4:
            imp += 'Binde "%s" ein.\n' % names[rnd.randrange(i)]
        files[n + ".ddp"] = (imp + "Die öffentliche Zahl %s_init ist melde \"init %s\".\nDie öffentliche Text Liste %s_liste ist basis_liste.\n" % (n, n, n)
                             + func_decl("zeige_" + n, [], [], "melde \"zeige %s\"" % n, ["zeige %s" % n], public=True))
    order = names[:]
    rnd.shuffle(order)
    if k >= 3 and rnd.random() < 0.6:
        # a collecting module imports several independent siblings: the path walked first decides the order of initialisation
        sib = rnd.sample(names, rnd.randint(2, min(4, k)))
        files["sammel.ddp"] = 'Binde "basis" ein.\n' + "".join('Binde "%s" ein.\n' % n for n in sib) + "Die öffentliche Zahl sammel_init ist melde \"init sammel\".\n"
        main += 'Binde "sammel" ein.\n'
    for n in order:
        main += 'Binde "%s" ein.\n' % n
    if rnd.random() < 0.5:
        main += 'Binde "basis" ein.\nSchreibe basis_liste auf eine Zeile.\n'
    for n in names:
        main += "Schreibe (zeige %s) auf eine Zeile.\nSchreibe %s_liste auf eine Zeile.\n" % (n, n)
    files["main.ddp"] = main
    return prog("diamond_%d" % idx, "diamond_imports(valid,%d modules)" % (k + 1), files)


def gen_extern(rnd, idx):
    """>= 3 extern C dependencies spread over main and imported modules"""
    k = rnd.randint(3, 6)
    files = {}
    main = AUSGABE
    uses = ""
    mods = {}
    for i in range(k):
        files["ext%d.c" % i] = "long long ext_f%d(long long a) { return a * %d + %d; }\n" % (i, i + 2, i)
        where = rnd.choice(["main", "ma", "mb"])
        d = extern_func_decl("ext_f%d" % i, "ext%d.c" % i, "extern %d von <a>" % i, public=where != "main")
        if where == "main":
            main += d
        else:
            mods[where] = mods.get(where, "") + d
        uses += "Schreibe (extern %d von %d) auf eine Zeile.\n" % (i, i + 1)
    for w, t in sorted(mods.items()):
        files[w + ".ddp"] = t
        main = 'Binde "%s" ein.\n' % w + main
    files["main.ddp"] = main + uses
    return prog("extern_%d" % idx, "extern_c(valid,%d files)" % k, files, inproc=True)


def gen_extern_archives(rnd, idx):
    """static libraries as dependencies, one of which needs a symbol of another one that the program itself does
    not reference: the link succeeds only if the needing archive precedes the providing one on the gcc line"""
    k = rnd.randint(2, 4)
    files = {}
    prep = []
    main = AUSGABE
    for i in range(k):
        if i == 0:
            files["a0.c"] = "long long hilfe_1(long long);\nlong long arch_f0(long long a) { return hilfe_1(a) + 1; }\n"
        else:
            files["a%d.c" % i] = "long long hilfe_%d(long long a) { return a * %d; }\nlong long arch_f%d(long long a) { return a - %d; }\n" % (i, i + 1, i, i)
        prep.append({"lib": "libarch%d.a" % i, "src": ["a%d.c" % i]})
        main += extern_func_decl("arch_f%d" % i, "libarch%d.a" % i, "archiv %d von <a>" % i)
    main += "Schreibe (archiv 0 von 5) auf eine Zeile.\n"
    files["main.ddp"] = main
    return prog("extern_archives_%d" % idx, "extern_archives(valid,%d interdependent archives)" % k, files, prep=prep, inproc=False, expect="linker_dependency_map")


def gen_extern_broken(rnd, idx):
    """>= 2 extern C files that do not compile: which one is reported?"""
    k = rnd.randint(2, 3)
    files = {}
    main = ""
    for i in range(k):
        files["kaputt%d.c" % i] = "long long kaputt_f%d(long long a) { return nicht_da_%d; }\n" % (i, i)
        main += extern_func_decl("kaputt_f%d" % i, "kaputt%d.c" % i, "kaputt %d von <a>" % i)
    files["main.ddp"] = main + "Die Zahl z ist kaputt 0 von 1.\n"
    return prog("extern_broken_%d" % idx, "extern_c(%d files that do not compile)" % k, files, inproc=False, expect="linker_dependency_map")


def gen_multi_error(rnd, idx):
    """several independent errors in several statements and modules: the whole sequence must be stable"""
    m = Mod()
    for i in range(rnd.randint(2, 5)):
        m.add(var_decl("mv%d" % i, "Zahl", rnd.choice(["1", '"falsch"', "unbekannt"]), public=True), "mv%d" % i)
    main = AUSGABE + 'Binde "m" ein.\n'
    for i in range(rnd.randint(2, 6)):
        main += rnd.choice(["Die Zahl z%d ist \"t\".\n", "Der Text z%d ist 5.\n", "Die Zahl z%d ist nirgends.\n", "Die Zahl z%d ist 1.\n", "Schreibe z%d.\n"]) % i
    return prog("multi_error_%d" % idx, "multi_error(invalid)", {"m.ddp": m.text, "main.ddp": main}, positions={"m.ddp": m.positions()})


FAMILIES = [
    # (generator, weight)
    (gen_import_big, 6), (gen_import_clash_names, 5), (gen_import_clash_alias, 3), (gen_selective_import, 3),
    (gen_directory_import, 2), (gen_import_overload_ties, 2), (gen_call_types2, 4), (gen_call_undef2, 2), (gen_call_one, 3),
    (gen_call_valid, 3), (gen_struct_types2, 3), (gen_struct_undef2, 1), (gen_struct_one, 2), (gen_generic_struct_alias, 1),
    (gen_alias_ties, 3), (gen_diamond, 3), (gen_extern, 2), (gen_extern_archives, 1), (gen_extern_broken, 1), (gen_multi_error, 2),
    (gen_call_nested2, 4), (gen_struct_nested2, 2),
]


def generate(rnd, n):
    """n programs: every family at least once (round robin first), then by weight"""
    out = []
    gens = [g for g, _ in FAMILIES]
    weights = [w for _, w in FAMILIES]
    for i in range(n):
        g = gens[i] if i < len(gens) else rnd.choices(gens, weights)[0]
        out.append(g(rnd, i))
    return out


# ------------------------------------------------------------------ catalogue of minimal programs (always run)

_F3 = ("Die Funktion f mit den Parametern a, b und c vom Typ Zahl, Zahl und Zahl, gibt eine Zahl zurück, macht:\n\tGib a plus b plus c zurück.\n"
       "Und kann so benutzt werden:\n\t\"f <a> <b> <c>\"\n")
_V3 = ("Wir nennen die Kombination aus\n\tder Zahl x mit Standardwert 0,\n\tder Zahl y mit Standardwert 0,\n\tder Zahl w mit Standardwert 0,\n"
       "einen Vektor, und erstellen sie so:\n\t\"ein Vektor mit <x> <y> <w>\"\n")
_OVL = ("Wir nennen die öffentliche Kombination aus\n\tder öffentlichen Zahl x mit Standardwert 0,\neinen Vektor, und erstellen sie so:\n\t\"ein Vektor mit <x>\"\n\n"
        "%sDie öffentliche generische Funktion plusA mit den Parametern a und b vom Typ T und Vektor, gibt eine Zahl zurück, macht:\n\tGib 1 zurück.\n"
        "Und überlädt den \"plus\" Operator.\n\n"
        "Die öffentliche generische Funktion plusB mit den Parametern a und b vom Typ Vektor und T, gibt eine Zahl zurück, macht:\n\tGib 2 zurück.\n"
        "Und überlädt den \"plus\" Operator.\n")
_OVL_MAIN = AUSGABE + 'Binde "m" ein.\nDer Vektor v ist ein Vektor mit 3.\nSchreibe (v plus v) auf eine Zeile.\n'


def catalogue():
    c = []
    # --- the comparator of ast.IterateImportedDecls
    c.append(prog("cmp_min_names", "catalogue:import comparator, name clashes", {
        "m.ddp": "Die öffentliche Zahl a ist 1. Die öffentliche Zahl b ist 2.\nDie öffentliche Zahl c ist 3.\n",
        "main.ddp": "Die Zahl b ist 10.\nDie Zahl c ist 20.\nBinde \"m\" ein.\n"}, positions={"m.ddp": "inconsistent"}, expect="import_decl_order"))
    c.append(prog("cmp_ctl_names", "catalogue:import comparator control (one declaration per line)", {
        "m.ddp": "Die öffentliche Zahl a ist 1.\nDie öffentliche Zahl b ist 2.\nDie öffentliche Zahl c ist 3.\n",
        "main.ddp": "Die Zahl b ist 10.\nDie Zahl c ist 20.\nBinde \"m\" ein.\n"}, positions={"m.ddp": "total"}))
    c.append(prog("cmp_ctl_sameline", "catalogue:import comparator control (all on one line)", {
        "m.ddp": "Die öffentliche Zahl a ist 1. Die öffentliche Zahl b ist 2. Die öffentliche Zahl c ist 3.\n",
        "main.ddp": "Die Zahl b ist 10.\nDie Zahl c ist 20.\nBinde \"m\" ein.\n"}, positions={"m.ddp": "total"}))
    c.append(prog("cmp_min_overload", "catalogue:import comparator, overload ties (valid program)", {
        "m.ddp": _OVL % "Die öffentliche Zahl q ist 1. ", "main.ddp": _OVL_MAIN}, positions={"m.ddp": "inconsistent"}, expect="import_decl_order"))
    c.append(prog("cmp_ctl_overload", "catalogue:overload ties control (one declaration per line)", {
        "m.ddp": _OVL % "Die öffentliche Zahl q ist 1.\n", "main.ddp": _OVL_MAIN}, positions={"m.ddp": "total"}))
    c.append(prog("cmp_min_alias", "catalogue:import comparator, alias clashes", {
        "erst.ddp": func_decl("h0", ["a"], ["Zahl"], "a", ["mach 0 mit <a>"], public=True) + func_decl("h1", ["a"], ["Zahl"], "a", ["mach 1 mit <a>"], public=True),
        "m.ddp": "Die öffentliche Zahl q ist 1. " + func_decl("j0", ["a"], ["Zahl"], "a", ["mach 0 mit <a>"], public=True) + func_decl("j1", ["a"], ["Zahl"], "a", ["mach 1 mit <a>"], public=True),
        "main.ddp": 'Binde "erst" ein.\nBinde "m" ein.\n'}, positions={"m.ddp": "inconsistent", "erst.ddp": "total"}, expect="import_decl_order"))
    # --- argument maps
    c.append(prog("args_min_types", "catalogue:call with 3 wrong argument types", {"main.ddp": _F3 + "\nDie Zahl z ist f \"x\" wahr 'c'.\n"}, expect="typechecker_funccall_args"))
    c.append(prog("args_min_two", "catalogue:call with 2 wrong argument types", {"main.ddp": _F3 + "\nDie Zahl z ist f \"x\" 2 'c'.\n"}, expect="typechecker_funccall_args"))
    c.append(prog("args_min_nested", "catalogue:call with 3 arguments that each contain a type error of their own",
                  {"main.ddp": _F3 + "\nDie Zahl z ist f (1 plus \"x\") (2 plus \"y\") (3 plus \"z\").\n"}, expect="typechecker_funccall_args"))
    c.append(prog("struct_min_nested", "catalogue:struct literal with 3 fields that each contain a type error of their own",
                  {"main.ddp": _V3 + "\nDer Vektor v ist ein Vektor mit (1 plus \"x\") (2 plus \"y\") (3 plus \"z\").\n"}, expect="typechecker_structliteral_args"))
    c.append(prog("args_ctl_one", "catalogue:call with 1 wrong argument type", {"main.ddp": _F3 + "\nDie Zahl z ist f 1 wahr 3.\n"}))
    c.append(prog("args_min_undef", "catalogue:call with 3 undefined arguments", {"main.ddp": _F3 + "\nDie Zahl z ist f u1 u2 u3.\n"}, expect="resolver_args"))
    c.append(prog("args_ctl_nested", "catalogue:valid call with nested expressions in all arguments",
                  {"main.ddp": AUSGABE + _F3 + "\nDie Zahl z ist f (1 plus 2) (f 1 2 3) (-3).\nSchreibe z auf eine Zeile.\n"}))
    c.append(prog("struct_min_types", "catalogue:struct literal with 3 wrong fields", {"main.ddp": _V3 + "\nDer Vektor v ist ein Vektor mit \"a\" wahr 'c'.\n"}, expect="typechecker_structliteral_args"))
    c.append(prog("struct_min_undef", "catalogue:struct literal with 3 undefined fields", {"main.ddp": _V3 + "\nDer Vektor v ist ein Vektor mit u1 u2 u3.\n"}, expect="resolver_args"))
    c.append(prog("struct_ctl_one", "catalogue:struct literal with 1 wrong field", {"main.ddp": _V3 + "\nDer Vektor v ist ein Vektor mit 1 wahr 3.\n"}))
    c.append(prog("generic_alias_min", "catalogue:generic Kombination, alias leaves 3 type parameters open", {
        "main.ddp": "Wir nennen die generische Kombination aus\n\tdem T a,\n\tdem R b,\n\tdem Z c,\neine Struktur, und erstellen sie so:\n\t\"eine leere Struktur\"\n"},
        expect="struct_alias_generic_map"))
    c.append(prog("generic_alias_ctl", "catalogue:generic Kombination, alias leaves 1 type parameter open", {
        "main.ddp": "Wir nennen die generische Kombination aus\n\tdem T a,\n\tdem T b,\neine Struktur, und erstellen sie so:\n\t\"eine leere Struktur\"\n"}))
    # --- linker
    c.append(prog("link_min_archives", "catalogue:two static libraries, the first needs the second", {
        "a.c": "long long hilf_b(long long);\nlong long ext_a(long long a) { return hilf_b(a) + 1; }\n",
        "b.c": "long long hilf_b(long long a) { return a * 2; }\nlong long ext_b(long long a) { return a - 3; }\n",
        "main.ddp": AUSGABE + extern_func_decl("ext_a", "liba.a", "aa <a>") + extern_func_decl("ext_b", "libb.a", "bb <a>") + "Schreibe (aa 1) auf eine Zeile.\n"},
        prep=[{"lib": "liba.a", "src": ["a.c"]}, {"lib": "libb.a", "src": ["b.c"]}], inproc=False, expect="linker_dependency_map"))
    c.append(prog("link_ctl_archive", "catalogue:one static library", {
        "b.c": "long long ext_b(long long a) { return a - 3; }\n",
        "main.ddp": AUSGABE + extern_func_decl("ext_b", "libb.a", "bb <a>") + "Schreibe (bb 1) auf eine Zeile.\n"},
        prep=[{"lib": "libb.a", "src": ["b.c"]}], inproc=False))
    c.append(prog("link_min_broken", "catalogue:two extern C files that do not compile", {
        "x1.c": "long long ext_x1(long long a) { return a + ; }\n", "x2.c": "long long ext_x2(long long a) { return b; }\n",
        "main.ddp": extern_func_decl("ext_x1", "x1.c", "eins <a>") + extern_func_decl("ext_x2", "x2.c", "zwei <a>") + "Die Zahl z ist eins 1.\n"},
        inproc=False, expect="linker_dependency_map"))
    c.append(prog("link_ctl_three", "catalogue:three extern C files in main and an imported module", {
        "e1.c": "long long ext_eins(long long a) { return a + 1; }\n", "e2.c": "long long ext_zwei(long long a) { return a * 2; }\n",
        "e3.c": "long long ext_drei(long long a) { return a - 3; }\n",
        "m.ddp": extern_func_decl("ext_drei", "e3.c", "drei <a>", public=True),
        "main.ddp": AUSGABE + 'Binde "m" ein.\n' + extern_func_decl("ext_eins", "e1.c", "eins <a>") + extern_func_decl("ext_zwei", "e2.c", "zwei <a>")
        + "Schreibe (eins 1) auf eine Zeile.\nSchreibe (zwei 4) auf eine Zeile.\nSchreibe (drei 4) auf eine Zeile.\n"}))
    # --- same extern-visible symbol in three modules (llvm module link order)
    mods = {}
    for n in ("ma", "mb", "mc"):
        mods[n + ".ddp"] = (AUSGABE + "Die öffentliche Funktion gleich_%s gibt nichts zurück, ist extern sichtbar, macht:\n\tSchreibe \"%s\" auf eine Zeile.\n"
                            "Und kann so benutzt werden:\n\t\"rufe %s\"\nDie öffentliche, extern sichtbare Zahl Gemeinsam ist 1.\n" % (n, n, n))
    mods["main.ddp"] = 'Binde gleich_ma aus "ma" ein.\nBinde gleich_mb aus "mb" ein.\nBinde gleich_mc aus "mc" ein.\nrufe ma.\nrufe mb.\nrufe mc.\n'
    c.append(prog("llvm_dup_symbol", "catalogue:three modules define the same extern-visible variable", mods))
    return c
