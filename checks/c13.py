"""C13 The token stream is a faithful, positioned partition of the source.
The real scanner.Scan / scanner.ScanAlias run inside ddpprobe on (a) all strings up to a small
length over a class alphabet, (b) random lexeme strings, (c) every .ddp of the repository,
(d) ill-formed UTF-8. Oracle (ddpprobe scancheck): model-free partition/position laws computed
from the source text + an independent lexer for token kinds + the indentation rule."""
import json
import os
import subprocess

import vlib
from vlib import Check, Scratch, log

PID = "C13"
ALPHA = "aäZ1,. \t\n\r\"'\\[]"
ALPHA_ALIAS = ALPHA + "<>!"


def run_job(args):
    p = subprocess.run([vlib.PROBE, "scancheck"] + args, stdout=subprocess.PIPE, stderr=subprocess.PIPE, env=vlib.base_env())
    agg, bad = None, []
    for l in p.stdout.decode("utf-8", "replace").split("\n"):
        if l.startswith("AGG "):
            agg = json.loads(l[4:])
        elif l.startswith("BAD "):
            bad.append(json.loads(l[4:]))
    return args, p.returncode, agg, bad, p.stderr.decode("utf-8", "replace")[-3000:]


def run(tier):
    vlib.ensure_build(frontend_only=True)
    chk = Check(PID, tier)
    nlen, alen, nrand = (5, 4, 30000) if tier == "quick" else (7, 5, 600000)
    jobs = []
    parts = len(ALPHA)
    for p in range(parts):
        jobs.append(["--alphabet", ALPHA, "--maxlen", str(nlen), "--part", str(p), "--parts", str(parts)])
    aparts = len(ALPHA_ALIAS)
    for p in range(aparts):
        jobs.append(["--alphabet", ALPHA_ALIAS, "--maxlen", str(alen), "--part", str(p), "--parts", str(aparts), "--alias"])
    per = nrand // 8
    for k in range(8):
        jobs.append(["--random", str(per), "--seed", str(chk.seed * 1000 + k)])
        jobs.append(["--random", str(per // 4), "--seed", str(chk.seed * 1000 + 100 + k), "--alias"])
    with Scratch("c13") as sc:
        n = vlib.copy_corpus(os.path.join(sc.path, "corpus"))
        jobs.append(["--files", os.path.join(sc.path, "corpus"), "--invalid"])
        results = vlib.pmap(run_job, jobs)
    tot = {"strings": 0, "tokens": 0, "bad": 0, "invalid_utf8_inputs": 0, "multiline_tokens": 0, "indent_judged": 0, "scanner_diagnostics": 0}
    kinds = {}
    for args, rc, agg, bad, err in results:
        if agg is None:
            # the scanner crashed the worker: that is a C03-type failure, but it also means this check could not observe
            chk.violation({"kind": "worker died in scancheck", "args": " ".join(a for a in args if not a.startswith(ALPHA[:3]))[:80], "stderr": vlib.classify_death(err)[0]},
                          files={"stderr.txt": err}, text="scancheck worker died")
            continue
        for k in tot:
            tot[k] += agg.get(k, 0)
        for k, v in agg["kinds"].items():
            kinds[k] = kinds.get(k, 0) + v
        for b in bad:
            chk.violation({"law": b["law"], "mode": b["mode"], "got": b["got"][:60], "want": b["want"][:60]},
                          files={"input.txt": b["input"], "bad.json": json.dumps(b, indent=1, ensure_ascii=False)},
                          text="input %r (hex %s) token %d: %s: got %s want %s" % (b["input"][:80], b["hex"][:160], b["tok"], b["law"], b["got"][:100], b["want"][:100]))
    chk.evaluations = tot["strings"]
    # strings are enumerated without repetition (exhaustive part) - distinct non-trivial = strings that produced >= 1 non-EOF token is
    # not tracked per string; count conservatively the number of distinct token kinds x modes plus exhaustive strings
    chk.distinct_extra = tot["strings"] - tot["invalid_utf8_inputs"]
    chk.rule = ("exhaustive: every string of length <= %d over the %d-symbol class alphabet %r in normal mode and of length <= %d over %r in alias mode; "
                "plus %d random strings of whole lexemes (all keywords in three spellings, literals with every escape, multi-line texts, CRLF, nested "
                "comments), every .ddp file of the repository (%d files) and an ill-formed UTF-8 sweep. Enumerated strings are pairwise distinct; a "
                "string is counted non-trivial when it is valid UTF-8 (the laws are evaluated on its tokens)." % (nlen, len(ALPHA), ALPHA, alen, ALPHA_ALIAS, nrand, n))
    chk.extra.update({"exhaustive": True, "exhaustive_scope": "strings up to the stated lengths over the stated alphabets", "tokens_checked": tot["tokens"],
                      "token_kinds_seen": len(kinds), "kinds": dict(sorted(kinds.items(), key=lambda kv: -kv[1])[:40]),
                      "multiline_tokens": tot["multiline_tokens"], "indent_judgements": tot["indent_judged"],
                      "invalid_utf8_inputs_refused": tot["invalid_utf8_inputs"], "scanner_diagnostics": tot["scanner_diagnostics"]})
    chk.samples = [{"input": "Z1,1 \"ä\\n\"\n\t[a[b]]", "laws": "literal==substring, 1-based code-point ranges, order, blanks-only gaps, single final EOF, kinds vs model lexer, indent"},
                   {"input": "a<b\n>", "mode": "alias"}, {"input_hex": "c0af", "expect": "scanner returns an error"}]
    chk.assumptions = ["capitalisation diagnostics are not part of the property and are ignored",
                       "indent of a token spanning several lines, of tokens on a line that begins inside a literal, and of lines with a carriage return inside the indentation is not judged",
                       "the keyword table of the kind oracle is the pinned commit's keyword list (specification snapshot)"]
    return chk.finish(min_events=10000)


def replay(path):
    vlib.ensure_build(frontend_only=True)
    b = json.load(open(os.path.join(path, "bad.json")))
    with Scratch("c13r") as sc:
        # re-run the scanner on exactly this input through the exhaustive driver restricted to the string itself
        f = os.path.join(sc.path, "d", "x.ddp")
        vlib.write_file(f, bytes.fromhex(b["hex"]))
        if b["mode"] == "alias":
            al = "".join(sorted(set(b["input"])))
            _, rc, agg, bad, err = run_job(["--alphabet", al, "--maxlen", str(len(b["input"])), "--alias"])
            bad = [x for x in bad if x["input"] == b["input"]]
        else:
            _, rc, agg, bad, err = run_job(["--files", os.path.join(sc.path, "d")])
    if bad or agg is None:
        print("VIOLATION property=%s replay=%s" % (PID, path))
        return 1
    return 0
