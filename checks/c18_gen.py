"""C18 generator: extern signatures, C callees, DDP callers and the expected observation lines.

A *program spec* (plain JSON data) describes a batch of extern functions with their calls; `render(spec)`
turns it into files (DDP modules, C callee) and the list of expected output blocks. Everything the
oracle knows is computed here from the spec alone (identity model): what the callee must print for each
parameter, what the caller must print after the call, what a sink must print for a passed-on result.

Value representation (JSON friendly):
  Z int | K decimal literal text ("-2,25") | B int | W bool | C code point | T str
  lists: list of elements | P [z, t] | S [b, k, l, c, w, tl] | V None or [inner kind, value]
  VL list of V | PL list of P
"""
import struct

I64MIN = -(2 ** 63)


class Kind:
    def __init__(self, code, ddp, ref, ret, art, test_art, cbase, cprint, prim=False, elem=None, cref=None):
        self.code, self.ddp, self.ref, self.ret, self.art, self.test_art = code, ddp, ref, ret, art, test_art
        self.cbase, self.cprint, self.prim, self.elem = cbase, cprint, prim, elem
        self.cref = cref or (cbase + " *")


_K = [
    Kind("Z", "Zahl", "Zahlen Referenz", "eine Zahl", "Die", "eine", "ddpint", "c18_p_int", True, cref="ddpintref"),
    Kind("K", "Kommazahl", "Kommazahlen Referenz", "eine Kommazahl", "Die", "eine", "ddpfloat", "c18_p_float", True, cref="ddpfloatref"),
    Kind("B", "Byte", "Byte Referenz", "einen Byte", "Der", "ein", "ddpbyte", "c18_p_byte", True, cref="ddpbyteref"),
    Kind("W", "Wahrheitswert", "Wahrheitswert Referenz", "einen Wahrheitswert", "Der", "ein", "ddpbool", "c18_p_bool", True, cref="ddpboolref"),
    Kind("C", "Buchstabe", "Buchstaben Referenz", "einen Buchstaben", "Der", "ein", "ddpchar", "c18_p_char", True, cref="ddpcharref"),
    Kind("T", "Text", "Text Referenz", "einen Text", "Der", "ein", "ddpstring", "c18_p_string", cref="ddpstringref"),
    Kind("ZL", "Zahlen Liste", "Zahlen Listen Referenz", "eine Zahlen Liste", "Die", "eine", "ddpintlist", "c18_p_intlist", elem="Z", cref="ddpintlistref"),
    Kind("KL", "Kommazahlen Liste", "Kommazahlen Listen Referenz", "eine Kommazahlen Liste", "Die", "eine", "ddpfloatlist", "c18_p_floatlist", elem="K", cref="ddpfloatlistref"),
    Kind("BL", "Byte Liste", "Byte Listen Referenz", "eine Byte Liste", "Die", "eine", "ddpbytelist", "c18_p_bytelist", elem="B", cref="ddpbytelistref"),
    Kind("WL", "Wahrheitswert Liste", "Wahrheitswert Listen Referenz", "eine Wahrheitswert Liste", "Die", "eine", "ddpboollist", "c18_p_boollist", elem="W", cref="ddpboollistref"),
    Kind("CL", "Buchstaben Liste", "Buchstaben Listen Referenz", "eine Buchstaben Liste", "Die", "eine", "ddpcharlist", "c18_p_charlist", elem="C", cref="ddpcharlistref"),
    Kind("TL", "Text Liste", "Text Listen Referenz", "eine Text Liste", "Die", "eine", "ddpstringlist", "c18_p_stringlist", elem="T", cref="ddpstringlistref"),
    Kind("VL", "Variablen Liste", "Variablen Listen Referenz", "eine Variablen Liste", "Die", "eine", "ddpanylist", "c18_p_anylist", elem="V", cref="ddpanylistref"),
    Kind("PL", "Paar Liste", "Paar Listen Referenz", "eine Paar Liste", "Die", "eine", "PaarList", "c18_p_paarlist", elem="P"),
    Kind("P", "Paar", "Paar Referenz", "ein Paar", "Das", "ein", "Paar", "c18_p_paar"),
    Kind("S", "Satz", "Satz Referenz", "einen Satz", "Der", "ein", "Satz", "c18_p_satz"),
    Kind("V", "Variable", "Variablen Referenz", "eine Variable", "Die", "eine", "ddpany", "c18_p_any", cref="ddpanyref"),
]
KINDS = {k.code: k for k in _K}
KIND_CODES = [k.code for k in _K]
LISTOF = {k.elem: k.code for k in _K if k.elem}          # element kind -> list kind
# fields usable as Referenz / by-value argument sources: kind -> (container kind, field name, index in the value)
FIELDOF = {"Z": ("P", "z", 0), "T": ("P", "t", 1), "B": ("S", "b", 0), "K": ("S", "k", 1), "ZL": ("S", "l", 2),
           "C": ("S", "c", 3), "W": ("S", "w", 4), "TL": ("S", "tl", 5)}
S_FIELDS = [("b", "B"), ("k", "K"), ("l", "ZL"), ("c", "C"), ("w", "W"), ("tl", "TL")]
P_FIELDS = [("z", "Z"), ("t", "T")]
V_INNER = ["Z", "K", "B", "W", "C", "T", "ZL", "TL", "P", "S"]      # S: a Kombination with narrow fields next to wide ones (padding) inside a Variable
VL_INNER = ["Z", "K", "B", "W", "C", "T"]

# ------------------------------------------------------------------ value pools

POOL_Z = [0, -1, 2 ** 63 - 1, I64MIN, 1, 255, 256, -256, 2 ** 31, -(2 ** 31) - 1, 1234567890123, 42, -7]
POOL_K = ["0,5", "-2,25", "1000000000000000,0", "0,1", "3,0", "-0,000001", "123456,789", "0,0", "255,0", "-1,0", "0,0078125"]
POOL_B = [0, 255, 1, 127, 128, 200]
POOL_C = [ord("a"), 0x1F600, 0x20AC, 0xE4, ord("Z"), ord("0"), ord(" "), 0xDF, 0x7E]
POOL_T = ["", "äöü€😀", "a", "abc", "Hallo Welt", "xxxxxxx", "yyyyyyyy", "zzzzzzzzz", "€uro 😀 und mehr Text, der länger als 32 Byte ist",
          "mit \"Anführung\"", "rück\\strich", " ", "ß"]
LIST_LENS = [0, 1, 2, 3, 7, 8, 9, 13]


def kfloat(lit):
    return float(lit.replace(",", "."))


def gen_value(rng, kind, extreme=False, min_len=0):
    """a value of the kind; `extreme` prefers the first (boundary) entries of the pools"""
    def pick(pool):
        if extreme:
            return pool[rng.randrange(min(4, len(pool)))]
        return rng.choice(pool)
    if kind == "Z":
        return pick(POOL_Z)
    if kind == "K":
        return pick(POOL_K)
    if kind == "B":
        return pick(POOL_B)
    if kind == "W":
        return rng.random() < 0.5
    if kind == "C":
        return pick(POOL_C)
    if kind == "T":
        return pick(POOL_T)
    if kind == "P":
        return [gen_value(rng, "Z", extreme), gen_value(rng, "T", extreme)]
    if kind == "S":
        return [gen_value(rng, k, extreme) for _, k in S_FIELDS]
    if kind == "V":
        if rng.random() < 0.15:
            return None
        inner = rng.choice(V_INNER)
        return [inner, gen_value(rng, inner, extreme)]
    k = KINDS[kind]
    if k.elem:
        lens = [n for n in LIST_LENS if n >= min_len]
        if kind in ("PL", "VL"):
            lens = [n for n in lens if n <= 9]
        n = rng.choice(lens)
        if k.elem == "V":
            out = []
            for _ in range(n):
                if rng.random() < 0.2:
                    out.append(None)
                else:
                    inner = rng.choice(VL_INNER)
                    out.append([inner, gen_value(rng, inner, extreme)])
            return out
        return [gen_value(rng, k.elem, extreme and rng.random() < 0.5) for _ in range(n)]
    raise ValueError(kind)


# ------------------------------------------------------------------ canonical forms

def canon_c(kind, v):
    """what the C callee prints for a value (c18_support.h)"""
    if kind == "Z":
        return str(v)
    if kind == "K":
        return "K%016x" % struct.unpack("<Q", struct.pack("<d", kfloat(v)))[0]
    if kind == "B":
        return str(v)
    if kind == "W":
        return "w1" if v else "w0"
    if kind == "C":
        return str(v)
    if kind == "T":
        b = v.encode("utf-8")
        return "T%d:%s" % (len(b), b.hex())
    if kind == "P":
        return "{%s;%s}" % (canon_c("Z", v[0]), canon_c("T", v[1]))
    if kind == "S":
        return "{" + ";".join(canon_c(k, x) for (_, k), x in zip(S_FIELDS, v)) + "}"
    if kind == "V":
        if v is None:
            return "V()"
        inner, x = v
        if inner == "Z":
            return "V(p8:%016x)" % (x & (2 ** 64 - 1))
        if inner == "K":
            return "V(p8:%016x)" % struct.unpack("<Q", struct.pack("<d", kfloat(x)))[0]
        if inner == "B":
            return "V(p1:%02x)" % x
        if inner == "W":
            return "V(p1:%02x)" % (1 if x else 0)
        if inner == "C":
            return "V(p4:%08x)" % x
        return "V(%s:%s)" % (inner, canon_c(inner, x))
    k = KINDS[kind]
    if k.elem:
        return "[%d|%s]" % (len(v), "".join(canon_c(k.elem, x) + "," for x in v))
    raise ValueError(kind)


def canon_d(kind, v):
    """what the DDP caller prints for a value (zeige_* functions of the generated prelude)"""
    if kind == "Z":
        return str(v)
    if kind == "K":
        return ("%.16g" % kfloat(v)).replace(".", ",")
    if kind == "B":
        return str(v)
    if kind == "W":
        return "wahr" if v else "falsch"
    if kind == "C":
        return str(v)
    if kind == "T":
        return "T%d:%s" % (len(v), "".join("%d." % ord(c) for c in v))
    if kind == "P":
        return "{%s;%s}" % (canon_d("Z", v[0]), canon_d("T", v[1]))
    if kind == "S":
        return "{" + ";".join(canon_d(k, x) for (_, k), x in zip(S_FIELDS, v)) + "}"
    if kind == "V":
        if v is None:
            return "V()"
        if v[0] == "B":
            return "V(B)"
        return "V(%s:%s)" % (v[0], canon_d(v[0], v[1]))
    k = KINDS[kind]
    if k.elem:
        return "[%d|%s]" % (len(v), "".join(canon_d(k.elem, x) + "," for x in v))
    raise ValueError(kind)


# ------------------------------------------------------------------ DDP text

def zlit(v):
    if v == I64MIN:
        return "(-9223372036854775807 minus 1)"
    return str(v)


def clit(cp):
    ch = chr(cp)
    if ch in "'\\":
        return "(%d als Buchstabe)" % cp
    return "'%s'" % ch


def tlit(s):
    return '"' + s.replace("\\", "\\\\").replace('"', '\\"') + '"'


def prim_lit(kind, v, in_list=False):
    if kind == "Z":
        return zlit(v)
    if kind == "K":
        return v
    if kind == "B":
        return "%d als Byte" % v if in_list else str(v)
    if kind == "W":
        return "wahr" if v else "falsch"
    if kind == "C":
        return clit(v)
    if kind == "T":
        return tlit(v)
    raise ValueError(kind)


def ddp_decl(kind, nm, v):
    """statements declaring variable nm of the kind with value v"""
    k = KINDS[kind]
    if k.prim or kind == "T":
        return ["%s %s %s ist %s." % (k.art, k.ddp, nm, prim_lit(kind, v))]
    if kind == "P":
        return ["Das Paar %s ist ein Paar." % nm,
                "Speichere %s in z von %s." % (zlit(v[0]), nm),
                "Speichere %s in t von %s." % (tlit(v[1]), nm)]
    if kind == "S":
        out = ddp_decl("ZL", nm + "_l", v[2]) + ddp_decl("TL", nm + "_tl", v[5])
        out += ["Der Satz %s ist ein Satz." % nm,
                "Speichere %d in b von %s." % (v[0], nm),
                "Speichere %s in k von %s." % (v[1], nm),
                "Speichere %s_l in l von %s." % (nm, nm),
                "Speichere %s in c von %s." % (clit(v[3]), nm),
                "Speichere %s in w von %s." % ("wahr" if v[4] else "falsch", nm),
                "Speichere %s_tl in tl von %s." % (nm, nm)]
        return out
    if kind == "V":
        if v is None:
            return ["Die Variable %s ist der Standardwert von einer Variable." % nm]
        inner, x = v
        if KINDS[inner].prim or inner == "T":
            return ["Die Variable %s ist %s." % (nm, prim_lit(inner, x, in_list=True))]
        return ddp_decl(inner, nm + "_i", x) + ["Die Variable %s ist %s_i." % (nm, nm)]
    if kind == "PL":
        out = ["Die Paar Liste %s ist eine leere Paar Liste." % nm]
        for j, p in enumerate(v):
            out += ddp_decl("P", "%s_%d" % (nm, j), p)
            out.append("Speichere %s verkettet mit %s_%d in %s." % (nm, nm, j, nm))
        return out
    if kind == "VL":
        if not v:
            return ["Die Variablen Liste %s ist eine leere Variablen Liste." % nm]
        out = []
        elems = []
        if any(x is None for x in v):
            out.append("Die Variable %s_e ist der Standardwert von einer Variable." % nm)
        for x in v:
            if x is None:
                elems.append("%s_e" % nm)
            elif x[0] == "B":
                elems.append("(%d als Byte) als Variable" % x[1])
            else:
                elems.append("(%s) als Variable" % prim_lit(x[0], x[1]))
        out.append("Die Variablen Liste %s ist eine Liste, die aus %s besteht." % (nm, ", ".join(elems)))
        return out
    if k.elem:
        if not v:
            return ["%s %s %s ist eine leere %s." % (k.art, k.ddp, nm, k.ddp)]
        return ["%s %s %s ist eine Liste, die aus %s besteht." % (k.art, k.ddp, nm, ", ".join(prim_lit(k.elem, x, in_list=True) for x in v))]
    raise ValueError(kind)


def _zeige_fn(pub, code, body):
    k = KINDS[code]
    return ("Die %sFunktion zeige_%s mit dem Parameter x vom Typ %s, gibt nichts zurück, macht:\n%s\nUnd kann so benutzt werden:\n\t\"zeige_%s <x>\"\n"
            % (pub, code, k.ddp, "\n".join("\t" + l for l in body), code))


def prelude(public):
    """type declarations, printers (zeige_*) and identity functions (gleich_*)"""
    pub = "öffentliche " if public else ""
    out = ['Binde "Duden/Ausgabe" ein.\n']
    out.append("Wir nennen die öffentliche Kombination aus\n\tder öffentlichen Zahl z,\n\tdem öffentlichen Text t,\nein Paar, und erstellen sie so:\n\t\"ein Paar\"\n")
    out.append("Wir nennen die öffentliche Kombination aus\n\tdem öffentlichen Byte b,\n\tder öffentlichen Kommazahl k,\n\tder öffentlichen Zahlen Liste l,\n"
               "\tdem öffentlichen Buchstabe c,\n\tdem öffentlichen Wahrheitswert w,\n\tder öffentlichen Text Liste tl,\neinen Satz, und erstellen sie so:\n\t\"ein Satz\"\n")
    out.append(_zeige_fn(pub, "Z", ["Schreibe x."]))
    out.append(_zeige_fn(pub, "K", ["Schreibe x."]))
    out.append(_zeige_fn(pub, "B", ["Schreibe x."]))
    out.append(_zeige_fn(pub, "W", ["Schreibe x."]))
    out.append(_zeige_fn(pub, "C", ["Schreibe (x als Zahl)."]))
    out.append(_zeige_fn(pub, "T", ['Schreibe "T".', "Schreibe (die Länge von x).", 'Schreibe ":".',
                                     "Für jede Zahl i von 1 bis (die Länge von x), mache:",
                                     "\tSchreibe ((x an der Stelle i) als Zahl).", '\tSchreibe ".".']))
    out.append(_zeige_fn(pub, "P", ['Schreibe "{".', "zeige_Z (z von x).", 'Schreibe ";".', "zeige_T (t von x).", 'Schreibe "}".']))

    def list_body(elem):
        return ['Schreibe "[".', "Schreibe (die Länge von x).", 'Schreibe "|".',
                "Für jede Zahl i von 1 bis (die Länge von x), mache:",
                "\tzeige_%s (x an der Stelle i)." % elem, '\tSchreibe ",".', 'Schreibe "]".']
    for code in ("ZL", "KL", "BL", "WL", "CL", "TL", "PL"):
        out.append(_zeige_fn(pub, code, list_body(KINDS[code].elem)))
    body = ['Schreibe "{".']
    for i, (f, kc) in enumerate(S_FIELDS):
        body.append("zeige_%s (%s von x)." % (kc, f))
        body.append('Schreibe "%s".' % (";" if i < len(S_FIELDS) - 1 else "}"))
    out.append(_zeige_fn(pub, "S", body))
    body = []
    for i, inner in enumerate(V_INNER):
        k = KINDS[inner]
        body.append("%s x %s %s ist, dann:" % ("Wenn" if i == 0 else "Wenn aber", k.test_art, k.ddp))
        if inner == "B":      # `Variable als Byte` does not compile on the pinned tree (invalid IR, C02's business): only the dynamic type is shown
            body.append('\tSchreibe "V(B)".')
            continue
        body.append('\tSchreibe "V(%s:".' % inner)
        body.append("\tzeige_%s (x als %s)." % (inner, k.ddp))
        body.append('\tSchreibe ")".')
    body += ["Sonst:", '\tSchreibe "V()".']
    out.append(_zeige_fn(pub, "V", body))
    out.append(_zeige_fn(pub, "VL", list_body("V")))
    for code in KIND_CODES:
        k = KINDS[code]
        out.append("Die %sFunktion gleich_%s mit dem Parameter x vom Typ %s, gibt %s zurück, macht:\n\tGib x zurück.\nUnd kann so benutzt werden:\n\t\"gleich_%s <x>\"\n"
                   % (pub, code, k.ddp, k.ret, code))
    # a DDP function whose Wahrheitswert result comes out of a short-circuit: the argument form "calc" passes such a result on
    out.append("Die %sFunktion kurz_W mit den Parametern l und t vom Typ Zahl und Text Referenz, gibt einen Wahrheitswert zurück, macht:\n"
               "\tWenn l kleiner als 2 ist oder (die Länge von t) ungleich 1 ist, gib falsch zurück.\n\tGib wahr zurück.\n"
               "Und kann so benutzt werden:\n\t\"kurz_W <l> <t>\"\n" % pub)
    return "\n".join(out)


def join_und(items):
    if len(items) == 1:
        return items[0]
    return ", ".join(items[:-1]) + " und " + items[-1]


def extern_decl(public, name, params, ret, lib):
    """params: list of (kind code, is_ref)"""
    pub = "öffentliche " if public else ""
    s = "Die %sFunktion %s" % (pub, name)
    if params:
        names = ["p%d" % i for i in range(len(params))]
        types = [KINDS[k].ref if r else KINDS[k].ddp for k, r in params]
        if len(params) == 1:
            s += " mit dem Parameter %s vom Typ %s," % (names[0], types[0])
        else:
            s += " mit den Parametern %s vom Typ %s," % (join_und(names), join_und(types))
    s += " gibt %s zurück,\n" % (KINDS[ret].ret if ret else "nichts")
    s += 'ist in "%s" definiert\nund kann so benutzt werden:\n\t"%s"\n' % (lib, " ".join([name] + ["<p%d>" % i for i in range(len(params))]))
    return s


# ------------------------------------------------------------------ C text

def c_int(v):
    if v == I64MIN:
        return "(-9223372036854775807LL - 1)"
    return "%dLL" % v


def c_str(s):
    return '"' + "".join("\\%03o" % b for b in s.encode("utf-8")) + '"'


def c_prim(kind, v):
    if kind == "Z":
        return c_int(v)
    if kind == "K":
        return kfloat(v).hex()
    if kind == "B":
        return "%du" % v
    if kind == "W":
        return "1" if v else "0"
    if kind == "C":
        return "%d" % v
    raise ValueError(kind)


_MK = {"ZL": "c18_mk_intlist", "KL": "c18_mk_floatlist", "BL": "c18_mk_bytelist", "WL": "c18_mk_boollist", "CL": "c18_mk_charlist"}
_FREE = {"T": "ddp_free_string", "ZL": "ddp_free_ddpintlist", "KL": "ddp_free_ddpfloatlist", "BL": "ddp_free_ddpbytelist",
         "WL": "ddp_free_ddpboollist", "CL": "ddp_free_ddpcharlist", "TL": "ddp_free_ddpstringlist", "VL": "ddp_free_ddpanylist",
         "PL": "c18_free_paarlist", "P": "c18_free_paar", "S": "c18_free_satz", "V": "ddp_free_any"}


def c_make(kind, ptr, v, salt):
    """C statements storing a freshly allocated value v into the (uninitialised or released) object *ptr"""
    k = KINDS[kind]
    extra = (0, 3, 8)[salt % 3]
    if k.prim:
        return ["*(%s) = %s;" % (ptr, c_prim(kind, v))]
    if kind == "T":
        return ["c18_mk_string(%s, %s, %d);" % (ptr, c_str(v), salt & 1)]
    if kind in _MK:
        ek = KINDS[k.elem]
        init = ", ".join(c_prim(k.elem, x) for x in v) or "0"
        return ["{ static const %s v[] = {%s}; %s(%s, %d, v, %d); }" % (ek.cbase, init, _MK[kind], ptr, len(v), extra)]
    if kind == "TL":
        init = ", ".join(c_str(x) for x in v) or '""'
        return ["{ static const char *const v[] = {%s}; c18_mk_stringlist(%s, %d, v, %d); }" % (init, ptr, len(v), extra)]
    if kind == "P":
        return ["c18_mk_paar(%s, %s, %s);" % (ptr, c_int(v[0]), c_str(v[1]))]
    if kind == "S":
        out = ["(%s)->b = %s;" % (ptr, c_prim("B", v[0])), "(%s)->k = %s;" % (ptr, c_prim("K", v[1]))]
        out += c_make("ZL", "&(%s)->l" % ptr, v[2], salt + 1)
        out += ["(%s)->c = %s;" % (ptr, c_prim("C", v[3])), "(%s)->w = %s;" % (ptr, c_prim("W", v[4]))]
        out += c_make("TL", "&(%s)->tl" % ptr, v[5], salt + 2)
        return out
    if kind == "PL":
        zs = ", ".join(c_int(p[0]) for p in v) or "0"
        ts = ", ".join(c_str(p[1]) for p in v) or '""'
        return ["{ static const ddpint zs[] = {%s}; static const char *const ts[] = {%s}; c18_mk_paarlist(%s, %d, zs, ts, %d); }" % (zs, ts, ptr, len(v), extra)]
    if kind == "V":
        if v is None:
            return ["*(%s) = DDP_EMPTY_ANY;" % ptr]
        assert v[0] == "copy"
        return ["ddp_deep_copy_any(%s, p%d);" % (ptr, v[1])]
    if kind == "VL":
        assert all(x is None for x in v)
        return ["c18_mk_anylist_empty(%s, %d, %d);" % (ptr, len(v), extra)]
    raise ValueError(kind)


def c_release(kind, ptr):
    if KINDS[kind].prim:
        return []
    return ["%s(%s);" % (_FREE[kind], ptr)]


def c_set_empty(kind, ptr):
    if kind == "T":
        return ["*(%s) = DDP_EMPTY_STRING;" % ptr]
    if kind == "V":
        return ["*(%s) = DDP_EMPTY_ANY;" % ptr]
    if kind == "P":
        return ["(%s)->z = -1;" % ptr]        # c18_free_paar already left an empty text
    if kind in ("S", "PL"):
        return []                            # the release helpers leave empty members
    return ["*(%s) = DDP_EMPTY_LIST(%s);" % (ptr, KINDS[kind].cbase)]


def c_sinks():
    out = []
    for code in KIND_CODES:
        k = KINDS[code]
        if k.prim:
            out.append('void senke_%s(%s x) { printf("S %s "); %s(x); printf("\\n"); fflush(stdout); }' % (code, k.cbase, code, k.cprint))
        else:
            out.append('void senke_%s(%s *x) { printf("S %s "); %s(x); printf("\\n"); fflush(stdout); }' % (code, k.cbase, code, k.cprint))
    return "\n".join(out) + "\n"


def c_function(fn):
    """the callee of one extern function: prints what it received, then per call number returns / writes / mutates"""
    name, params, ret = fn["name"], fn["params"], fn["ret"]
    cparams = []
    rk = KINDS[ret] if ret else None
    if rk and not rk.prim:
        cparams.append("%s *ret" % rk.cbase)
    for i, p in enumerate(params):
        k = KINDS[p["kind"]]
        if p["ref"]:
            cparams.append("%s p%d" % (k.cref, i))
        elif k.prim:
            cparams.append("%s p%d" % (k.cbase, i))
        else:
            cparams.append("%s *p%d" % (k.cbase, i))
    rtype = rk.cbase if rk and rk.prim else "void"
    L = ["static int n_%s = 0;" % name, "%s %s(%s) {" % (rtype, name, ", ".join(cparams) or "void"), "\tint n = n_%s++;" % name]
    if rk and rk.prim:
        L.append("\t%s r = 0;" % rk.cbase)
    if not params:
        L.append('\tprintf("C %s %%d -\\n", n);' % name)
    for i, p in enumerate(params):
        k = KINDS[p["kind"]]
        arg = ("*p%d" if (k.prim and p["ref"]) else "p%d") % i
        L.append('\tprintf("C %s %%d p%d ", n); %s(%s); printf("\\n");' % (name, i, k.cprint, arg))
    L.append("\tfflush(stdout);")
    L.append("\tswitch (n) {")
    for n, call in enumerate(fn["calls"]):
        L.append("\tcase %d: {" % n)
        body = []
        if rk:
            body += c_make(ret, "&r" if rk.prim else "ret", call["ret"], n)
        for i, p in enumerate(params):
            if p["ref"]:
                ptr = "p%d" % i
                body += c_release(p["kind"], ptr) + c_make(p["kind"], ptr, call["writes"][str(i)], n + i + 1)
        for i, p in enumerate(params):
            if not p["ref"] and not KINDS[p["kind"]].prim and p.get("by", "keep") != "keep":
                ptr = "p%d" % i
                body += c_release(p["kind"], ptr)
                if p["by"] == "replace" and str(i) in call.get("repl", {}):
                    body += c_make(p["kind"], ptr, call["repl"][str(i)], n + i + 2)
                else:
                    body += c_set_empty(p["kind"], ptr)
        L += ["\t\t" + s for s in body]
        L.append("\t} break;")
    L.append('\tdefault: printf("C %s %%d unexpected-call\\n", n); break;' % name)
    L.append("\t}")
    L.append("\tfflush(stdout);")
    if rk and rk.prim:
        L.append("\treturn r;")
    L.append("}")
    return "\n".join(L) + "\n"


# ------------------------------------------------------------------ semantics of a call (identity model)

def _get(storage, arg):
    v = storage[arg["var"]]
    path = arg.get("path")
    if not path:
        return v
    if path[0] == "elem":
        return v[path[1] - 1]
    return v[path[2]]


def _set(storage, arg, new):
    path = arg.get("path")
    if not path:
        storage[arg["var"]] = new
    elif path[0] == "elem":
        storage[arg["var"]][path[1] - 1] = new
    else:
        storage[arg["var"]][path[2]] = new


def _copy(v):
    if isinstance(v, list):
        return [_copy(x) for x in v]
    return v


def simulate(fn, call):
    """-> (incoming values per parameter, result value, storage after the call)"""
    storage = {v["name"]: _copy(v["value"]) for v in call["vars"]}
    incoming = [_copy(_get(storage, a)) for a in call["args"]]

    def resolve(kind, w):
        if kind == "V" and w is not None:
            return _copy(incoming[w[1]])
        return _copy(w)
    result = resolve(fn["ret"], call["ret"]) if fn["ret"] else None
    for i, p in enumerate(fn["params"]):
        if p["ref"]:
            _set(storage, call["args"][i], resolve(p["kind"], call["writes"][str(i)]))
    return incoming, result, storage


def arg_expr(fn, call, i):
    a = call["args"][i]
    path = a.get("path")
    if a.get("calc"):       # Wahrheitswert computed by a DDP function (optionally negated) instead of read from the variable
        v = {x["name"]: x["value"] for x in call["vars"]}[a["var"]]
        if a["calc"] == "calc":
            return "(kurz_W %d %s_h)" % (2 if v else 1, a["var"])
        return "(nicht (kurz_W %d %s_h))" % (1 if v else 2, a["var"])
    if not path:
        e = a["var"]
    elif path[0] == "elem":
        e = "(%s an der Stelle %d)" % (a["var"], path[1])
    else:
        e = "(%s von %s)" % (path[1], a["var"])
    if a.get("temp"):
        e = "(gleich_%s %s)" % (fn["params"][i]["kind"], e)
    return e


def var_kind(call, name):
    for v in call["vars"]:
        if v["name"] == name:
            return v["kind"]
    raise KeyError(name)


def call_block(fn, n, call):
    """-> (DDP statements of this call, expected lines [(text, meta)])"""
    name = fn["name"]
    stmts = []
    for v in call["vars"]:
        stmts += ddp_decl(v["kind"], v["name"], v["value"])
    for a in call["args"]:
        if a.get("calc"):
            stmts.append('Der Text %s_h ist "x".' % a["var"])
    tag = "%s %d" % (name, n)
    stmts.append('Schreibe "B %s" auf eine Zeile.' % tag)
    expr = " ".join([name] + [arg_expr(fn, call, i) for i in range(len(fn["params"]))])
    incoming, result, storage = simulate(fn, call)
    exp = [("B " + tag, {"what": "begin"})]
    if not fn["params"]:
        exp.append(("C %s -" % tag, {"what": "callee-entered"}))
    for i, p in enumerate(fn["params"]):
        exp.append(("C %s p%d %s" % (tag, i, canon_c(p["kind"], incoming[i])), {"what": "callee-sees", "param": i}))
    use = call["use"] if fn["ret"] else "stmt"
    if use == "store":
        rk = KINDS[fn["ret"]]
        rn = "r_%s_%d" % (name, n)
        stmts.append("%s %s %s ist %s." % (rk.art, rk.ddp, rn, expr if len(fn["params"]) else name))
        stmts += ['Schreibe "D %s r ".' % tag, "zeige_%s %s." % (fn["ret"], rn), "Schreibe '\\n'."]
        exp.append(("D %s r %s" % (tag, canon_d(fn["ret"], result)), {"what": "result"}))
    elif use == "pass":
        stmts.append("senke_%s (%s)." % (fn["ret"], expr))
        exp.append(("S %s %s" % (fn["ret"], canon_c(fn["ret"], result)), {"what": "result-passed-on"}))
    else:
        stmts.append(expr + ".")
    for i, p in enumerate(fn["params"]):
        vn = call["args"][i]["var"]
        vk = var_kind(call, vn)
        stmts += ['Schreibe "D %s a%d ".' % (tag, i), "zeige_%s %s." % (vk, vn), "Schreibe '\\n'."]
        exp.append(("D %s a%d %s" % (tag, i, canon_d(vk, storage[vn])), {"what": "after-call", "param": i}))
    stmts.append('Schreibe "E %s" auf eine Zeile.' % tag)
    exp.append(("E " + tag, {"what": "end"}))
    return stmts, exp


def param_label(fn, call, i):
    p = fn["params"][i]
    a = call["args"][i] if call else {}
    form = a.get("calc") or ("temp" if a.get("temp") else (a["path"][0] if a.get("path") else "var"))
    mode = "Referenz" if p["ref"] else ("value" if KINDS[p["kind"]].prim else "value/" + p.get("by", "keep"))
    return "%s/%s/%s" % (p["kind"], mode, form)


def sig_label(fn):
    ps = ", ".join(("%s Referenz" if p["ref"] else "%s") % p["kind"] + ("" if p["ref"] or KINDS[p["kind"]].prim else ":" + p.get("by", "keep")) for p in fn["params"])
    return "(%s) -> %s" % (ps, fn["ret"] or "nichts")


# ------------------------------------------------------------------ rendering a program

def render(spec):
    """-> (files {relative path: text}, main path, expected blocks [(fn index, call index, [(line, meta)])])"""
    imported = spec.get("variant") == "import"
    libname = "libc18callee.a" if spec.get("lib") == "a" else "callee.c"
    decls = [prelude(imported)]
    for code in KIND_CODES:
        decls.append(extern_decl(imported, "senke_" + code, [(code, False)], None, libname))
    for fn in spec["fns"]:
        decls.append(extern_decl(imported, fn["name"], [(p["kind"], p["ref"]) for p in fn["params"]], fn["ret"], libname))
    body = []
    blocks = []
    k = 0
    for fi, fn in enumerate(spec["fns"]):
        for n, call in enumerate(fn["calls"]):
            stmts, exp = call_block(fn, n, call)
            blocks.append((fi, n, exp))
            if call.get("toplevel"):
                body += stmts
            else:
                body.append("Die Funktion fall_%d gibt nichts zurück, macht:" % k)
                body += ["\t" + s for s in stmts]
                body += ["Und kann so benutzt werden:", "\t\"fall_%d\"" % k, "", "fall_%d." % k]
            body.append("")
            k += 1
    body.append('Schreibe "ENDE" auf eine Zeile.')
    csrc = '#include "c18_support.h"\n\n' + c_sinks() + "\n" + "\n".join(c_function(fn) for fn in spec["fns"])
    files = {}
    if imported:
        files["mod/a.ddp"] = "\n".join(decls)
        files["mod/callee.c"] = csrc
        files["main.ddp"] = 'Binde "Duden/Ausgabe" ein.\nBinde "mod/a" ein.\n\n' + "\n".join(body) + "\n"
    else:
        files["callee.c"] = csrc
        files["main.ddp"] = "\n".join(decls) + "\n" + "\n".join(body) + "\n"
    return files, "main.ddp", blocks


# ------------------------------------------------------------------ generating signatures and calls

def random_sig(rng, arity=None):
    if arity is None:
        arity = rng.choice([0, 1, 1, 2, 2, 3, 3, 4, 4, 5, 5, 6, 6])
    params = []
    for _ in range(arity):
        kind = rng.choice(KIND_CODES)
        ref = rng.random() < 0.5
        p = {"kind": kind, "ref": ref}
        if not ref and not KINDS[kind].prim:
            p["by"] = rng.choice(["keep", "keep", "steal", "replace"])
        params.append(p)
    ret = rng.choice([None] + KIND_CODES)
    return {"params": params, "ret": ret}


def sig_cells(sig):
    cells = [(i, p["kind"], p["ref"]) for i, p in enumerate(sig["params"])]
    pairs = set()
    for a in range(len(cells)):
        for b in range(a + 1, len(cells)):
            pairs.add((cells[a], cells[b]))
        pairs.add((("ret", sig["ret"]), cells[a]))
    return cells, pairs


N_CELLS = 6 * len(KIND_CODES) * 2
N_PAIRS = 15 * (len(KIND_CODES) * 2) ** 2 + 6 * len(KIND_CODES) * 2 * (len(KIND_CODES) + 1)


def select_signatures(rng, total):
    """greedy pair-covering selection of (kind x value/Referenz x position) for 50 % of the budget, seeded random for the rest"""
    cov_cells, cov_pairs = set(), set()
    sigs = []
    # phase 1: every (position, kind, mode) cell once: 34 signatures of arity 6, each position walks through a shuffled list of the 34 (kind, mode)
    columns = []
    for _ in range(6):
        col = [(k, r) for k in KIND_CODES for r in (False, True)]
        rng.shuffle(col)
        columns.append(col)
    for j in range(min(len(columns[0]), max(1, total // 3))):
        params = []
        for pos in range(6):
            kind, ref = columns[pos][j]
            p = {"kind": kind, "ref": ref}
            if not ref and not KINDS[kind].prim:
                p["by"] = rng.choice(["keep", "keep", "steal", "replace"])
            params.append(p)
        sg = {"params": params, "ret": ([None] + KIND_CODES)[j % (len(KIND_CODES) + 1)]}
        cells, pairs = sig_cells(sg)
        cov_cells.update(cells)
        cov_pairs.update(pairs)
        sigs.append(sg)
    # phase 2: greedy on pairs up to half of the budget
    n_cover = int(total * 0.5)
    while len(sigs) < n_cover:
        best, best_score = None, -1
        arity = rng.choice([2, 3, 4, 5, 6, 6])
        for _ in range(24):
            cand = random_sig(rng, arity=arity)
            cells, pairs = sig_cells(cand)
            score = 40 * len([c for c in cells if c not in cov_cells]) + len([p for p in pairs if p not in cov_pairs])
            if score > best_score:
                best, best_score = cand, score
        cells, pairs = sig_cells(best)
        cov_cells.update(cells)
        cov_pairs.update(pairs)
        sigs.append(best)
    rets = [None] + KIND_CODES           # return kinds with arity 0 (all of them when the budget allows)
    rng.shuffle(rets)
    for r in rets[:max(4, min(len(rets), total // 12))]:
        if len(sigs) < total:
            sigs.append({"params": [], "ret": r})
    while len(sigs) < total:
        s = random_sig(rng, arity=rng.choice([1, 1, 2, 2, 3, 3, 4, 4, 5, 6]))
        cells, pairs = sig_cells(s)
        cov_cells.update(cells)
        cov_pairs.update(pairs)
        sigs.append(s)
    # twin signatures: two by-value parameters of the same non-primitive kind (called with ONE variable for both, see gen_call):
    # each parameter must be a value of its own (the callee may change one of them) and each is released exactly once
    nonprim = [k for k in KIND_CODES if not KINDS[k].prim]
    rng.shuffle(nonprim)
    ntwin = max(4, total // 8)
    for j in range(min(ntwin, len(sigs))):
        kind = nonprim[j % len(nonprim)]
        ps = [{"kind": kind, "ref": False, "by": rng.choice(["keep", "steal", "replace"])}, {"kind": kind, "ref": False, "by": rng.choice(["keep", "keep", "replace"])}]
        if rng.random() < 0.5:
            ps.insert(1, {"kind": rng.choice(["Z", "K", "C", "B"]), "ref": False})
        if rng.random() < 0.3:
            ps.append({"kind": kind, "ref": True})
        sigs[len(sigs) - 1 - j] = {"params": ps, "ret": rng.choice([None, kind, "Z"]), "twin": True}
    rng.shuffle(sigs)
    return sigs, len(cov_cells), len(cov_pairs)


def gen_call(rng, fn, fi, n):
    """one call of fn: variables, argument forms, values written by the callee"""
    params = fn["params"]
    pre = "v%d_%d_" % (fi, n)
    vars_, args = [], []
    extreme = n == 0
    ref_vars = {}      # kind -> variable name of an earlier plain-variable Referenz argument
    val_vars = {}      # kind -> variable name of an earlier plain-variable by-value argument
    for i, p in enumerate(params):
        kind = p["kind"]
        k = KINDS[kind]
        nm = "%s%d" % (pre, i)
        choices = ["var"] * 5
        if kind in LISTOF:
            choices += ["elem"] * 2
        if kind in FIELDOF:
            choices += ["field"] * 2
        form = rng.choice(choices)
        if fn.get("twin") and not p["ref"]:
            form = "var"
        calc = None
        if kind == "W" and not p["ref"] and n % 3 != 2:     # call 0: result of a DDP function, call 1: its negation, call 2: variable/element/field
            form, calc = "var", ("calc", "calcnot")[n % 3]
        arg = None
        if form == "var" and not calc and kind in ref_vars and rng.random() < (0.25 if p["ref"] else 0.2):
            arg = {"var": ref_vars[kind]}           # aliasing: same variable for two parameters
        elif form == "var" and not calc and not p["ref"] and kind in val_vars and rng.random() < (0.8 if fn.get("twin") else 0.45):
            arg = {"var": val_vars[kind], "same_value_twice": True}      # the same variable for two by-value parameters: each parameter is a value of its own
        elif form == "var":
            vars_.append({"name": nm, "kind": kind, "value": gen_value(rng, kind, extreme)})
            arg = {"var": nm}
            if calc:
                arg["calc"] = calc
                if i % 2 == 0:
                    vars_[-1]["value"] = calc == "calc"     # wahr from the function, falsch from its negation
            if p["ref"]:
                ref_vars.setdefault(kind, nm)
            elif not calc:
                val_vars.setdefault(kind, nm)
        elif form == "elem":
            lk = LISTOF[kind]
            lv = gen_value(rng, lk, extreme, min_len=1)
            if kind == "V":
                lv = [None if x is None else x for x in lv]
            vars_.append({"name": nm, "kind": lk, "value": lv})
            arg = {"var": nm, "path": ["elem", rng.randrange(len(lv)) + 1]}
        else:
            ck, fname, idx = FIELDOF[kind]
            vars_.append({"name": nm, "kind": ck, "value": gen_value(rng, ck, extreme)})
            arg = {"var": nm, "path": ["field", fname, idx]}
        if not p["ref"] and not k.prim and not arg.get("same_value_twice") and rng.random() < 0.3:
            arg["temp"] = True
        args.append(arg)
    call = {"vars": vars_, "args": args, "toplevel": rng.random() < 0.4, "writes": {}, "repl": {}}
    vsrc = [i for i, p in enumerate(params) if p["kind"] == "V" and not p["ref"]]

    def written(kind, avoid=None):
        if kind == "V":
            return ["copy", rng.choice(vsrc)] if vsrc and rng.random() < 0.7 else None
        if kind == "VL":
            return [None] * rng.choice([0, 1, 3, 9])
        v = gen_value(rng, kind)
        for _ in range(3):
            if v != avoid:
                break
            v = gen_value(rng, kind)
        return v
    storage = {v["name"]: v["value"] for v in vars_}
    for i, p in enumerate(params):
        if p["ref"]:
            call["writes"][str(i)] = written(p["kind"], _get(storage, args[i]))
        elif p.get("by") == "replace" and p["kind"] != "V":
            call["repl"][str(i)] = written(p["kind"])
    call["ret"] = written(fn["ret"]) if fn["ret"] else None
    call["use"] = ["store", "pass", "discard"][(n + fi) % 3] if fn["ret"] else "stmt"
    return call


def make_specs(rng, total_sigs, per_program, ncalls):
    sigs, ncells, npairs = select_signatures(rng, total_sigs)
    specs = []
    for b in range(0, len(sigs), per_program):
        chunk = sigs[b:b + per_program]
        pi = len(specs)
        fns = []
        for fi, s in enumerate(chunk):
            fn = {"name": "fx%d" % fi, "params": s["params"], "ret": s["ret"], "calls": [], "twin": bool(s.get("twin"))}
            for n in range(ncalls):
                fn["calls"].append(gen_call(rng, fn, fi, n))
            fns.append(fn)
        specs.append({"id": pi, "O": pi % 3, "variant": "import" if pi % 3 == 1 else "direct", "lib": "a" if pi % 4 == 3 else "c",
                      "ledger": pi % 4 != 2, "fns": fns})
    return specs, ncells, npairs
