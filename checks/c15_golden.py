"""C15 helper: positive controls. The upstream golden tests of tests/testdata/kddp/generics/** written in the
description language; both renderings (G and M) must be accepted and print the upstream expected.txt.
A control that fails means printer/specialiser (or the build) is broken -> the run is void, not a violation."""
import os

from checks.c15_lang import (FuncDef, StructDef, V, L, GI, S, D, A, ZAHL, KOMMA, TEXT)
from checks.c15_prog import Program, Module


def lit(t, s):
    return ('lit', t, s)


def var(n):
    return ('var', n)


def call(f, *args):
    return ('call', f, list(args))


T = V('T')


def g_generics(spec_mode, mono):
    pr = Program(spec_mode, mono)
    m = Module('main', 'M')
    pr.modules = [m]
    pr.add_func(m, FuncDef('Tausche', [('a', T, True), ('b', T, True)], None, 'Tausche <a> und <b>',
                           [('decl', 'temp', T, var('a')), ('assign', var('a'), var('b')), ('assign', var('b'), var('temp'))], tparams=['T']))
    pz = [('print', var('z')), ('print', var('z2'))]
    sw = [('expr', call('Tausche', var('z'), var('z2')))]
    m.add('stmts', [('decl', 'z', ZAHL, lit(ZAHL, '1')), ('decl', 'z2', ZAHL, lit(ZAHL, '2'))] + pz + sw + pz + sw + pz)
    pr.add_func(m, FuncDef('Plus1', [('a', T, False)], T, '<a> + 1', [('ret', ('bin', 'plus', var('a'), lit(ZAHL, '1')))], tparams=['T']))
    m.add('stmts', [('print', call('Plus1', lit(ZAHL, '1'))), ('print', call('Plus1', lit(KOMMA, '1,5')))])
    pr.add_func(m, FuncDef('Anhängen', [('a', L(T), False), ('b', T, False)], L(T), '<a> + <b>', [('ret', ('concat', var('a'), var('b')))], tparams=['T']))
    m.add('stmts', [('decl', 'l', L(ZAHL), ('listlit', ZAHL, [lit(ZAHL, '1'), lit(ZAHL, '2'), lit(ZAHL, '3')])),
                    ('print', call('Anhängen', var('l'), lit(ZAHL, '4'))),
                    ('decl', 't', L(TEXT), ('listlit', TEXT, [lit(TEXT, '"a"'), lit(TEXT, '"b"'), lit(TEXT, '"c"')])),
                    ('print', call('Anhängen', var('t'), lit(TEXT, '"d"')))])
    return pr, 'generics/expected.txt'


def g_imports(spec_mode, mono):
    pr = Program(spec_mode, mono)
    d = Module('decl', 'D')
    m = Module('main', 'M', ['decl'])
    pr.modules = [d, m]
    d.add('global', 'global', ZAHL, lit(ZAHL, '22'), False)
    pr.add_func(d, FuncDef('bar', [('a', T, False)], T, 'bar <a>', [('ret', ('bin', 'plus', var('a'), var('global')))], tparams=['T']))
    pr.add_func(d, FuncDef('foo', [('a', T, False)], T, 'foo <a>', [('ret', call('bar', var('a')))], tparams=['T'], public=True))
    m.add('stmts', [('print', call('foo', lit(ZAHL, '2'))), ('print', call('foo', lit(KOMMA, '2,0')))])
    return pr, 'generics/imports/expected.txt'


def g_nested(spec_mode, mono):
    pr = Program(spec_mode, mono)
    m = Module('main', 'M')
    pr.modules = [m]
    pr.add_func(m, FuncDef('Setze_Auf_1', [('a', T, True)], None, 'Setze <a> auf 1', [('assign', var('a'), ('cast', lit(ZAHL, '1'), T))], tparams=['T']))
    pr.add_func(m, FuncDef('Tausche_Und_Setze', [('a', T, True), ('b', T, True)], None, 'Tausche <a> und <b>',
                           [('assign', var('b'), var('a')), ('expr', call('Setze_Auf_1', var('a')))], tparams=['T']))
    for t, a, b, x, y in ((ZAHL, 'z', 'z2', '2', '5'), (KOMMA, 'kz', 'kz2', '2,0', '5,0')):
        p2 = [('print', var(a)), ('print', var(b))]
        m.add('stmts', [('decl', a, t, lit(t, x)), ('decl', b, t, lit(t, y))] + p2 + [('expr', call('Tausche_Und_Setze', var(a), var(b)))] + p2)
    return pr, 'generics/nested/expected.txt'


def g_operators(spec_mode, mono):
    pr = Program(spec_mode, mono)
    m = Module('main', 'M')
    pr.modules = [m]
    pr.structs['Struktur'] = StructDef('Struktur', 'f', [('z', ZAHL), ('t', TEXT)])
    m.add('raw', 'Wir nennen die Kombination aus\n\tder Zahl z mit Standardwert 0,\n\tdem Text t mit Standardwert "hi",\neine Struktur, und erstellen sie so:\n\t"eine Struktur mit z gleich <z>"\n')
    St = S('Struktur')
    pr.add_func(m, FuncDef('foo', [('a', T, False), ('b', T, False)], ZAHL, '', [('ret', ('bin', 'plus', ('field', 'z', var('a')), ('field', 'z', var('b'))))],
                           tparams=['T'], operator='plus'))
    m.add('stmts', [('decl', 'a', St, ('rawexpr', St, 'eine Struktur mit z gleich 2')), ('decl', 'b', St, ('rawexpr', St, 'eine Struktur mit z gleich 3')),
                    ('print', ('opcall', 'foo', [var('a'), var('b')])), ('print', ('opcall', 'foo', [var('a'), var('b')]))])
    pr.add_func(m, FuncDef('bar', [('a', T, False)], ZAHL, '', [('ret', ('field', 'z', var('a')))], tparams=['T'], operator='als'))
    pr.add_func(m, FuncDef('baz', [('a', T, False)], TEXT, '', [('ret', ('field', 't', var('a')))], tparams=['T'], operator='als'))
    m.add('stmts', [('print', ('opcall', 'bar', [var('a')])), ('print', ('opcall', 'baz', [var('a')]))])
    return pr, 'generics/operator_overloading/expected.txt'


def g_structs(spec_mode, mono):
    """first two blocks of generics/structs (Vektor2 with Zahl, Text and nested instantiation) and structs/imports"""
    pr = Program(spec_mode, mono)
    d = Module('decl', 'D')
    m = Module('main', 'M', ['decl'])
    pr.modules = [d, m]
    pr.structs['Vektor2'] = StructDef('Vektor2', 'm', [('x', T), ('y', T)], tparams=['T'])
    d.add('struct', 'Vektor2')
    VZ, VT = GI('Vektor2', ZAHL), GI('Vektor2', TEXT)
    d.add('global', 'vec2_zahl', VZ, ('ctor', 'Vektor2', [lit(ZAHL, '1'), lit(ZAHL, '2')]), True)
    d.add('global', 'vec2_text', VT, ('ctor', 'Vektor2', [lit(TEXT, '"x"'), lit(TEXT, '"y"')]), True)
    VK = GI('Vektor2', KOMMA)
    m.add('stmts', [('print', ('field', 'x', var('vec2_zahl'))), ('print', ('field', 'y', var('vec2_zahl'))),
                    ('print', ('field', 'x', var('vec2_text'))), ('print', ('field', 'y', var('vec2_text'))),
                    ('write', lit(('p', 'Buchstabe'), "'\\n'")),
                    ('decl', 'vec2_text2', VT, ('ctor', 'Vektor2', [lit(TEXT, '"x2"'), lit(TEXT, '"y2"')])),
                    ('decl', 'vec2_kommazahl', VK, ('ctor', 'Vektor2', [lit(KOMMA, '1,5'), lit(KOMMA, '2,3')])),
                    ('print', ('field', 'x', var('vec2_text2'))), ('print', ('field', 'y', var('vec2_text2'))),
                    ('print', ('field', 'x', var('vec2_kommazahl'))), ('print', ('field', 'y', var('vec2_kommazahl')))])
    return pr, 'generics/structs/imports/expected.txt'


def g_structs_nested(spec_mode, mono):
    pr = Program(spec_mode, mono)
    m = Module('main', 'M')
    pr.modules = [m]
    pr.structs['Vektor2'] = StructDef('Vektor2', 'm', [('x', T), ('y', T)], tparams=['T'])
    m.add('struct', 'Vektor2')
    VZ = GI('Vektor2', ZAHL)
    VV = GI('Vektor2', VZ)

    def v(a, b):
        return ('ctor', 'Vektor2', [lit(ZAHL, a), lit(ZAHL, b)])
    m.add('stmts', [('decl', 'vec2_vec2', VV, ('ctor', 'Vektor2', [v('1', '2'), v('3', '4')])),
                    ('print', ('field', 'x', ('field', 'x', var('vec2_vec2')))), ('print', ('field', 'y', ('field', 'x', var('vec2_vec2')))),
                    ('print', ('field', 'x', ('field', 'y', var('vec2_vec2')))), ('print', ('field', 'y', ('field', 'y', var('vec2_vec2'))))])
    return pr, None, '1\n2\n3\n4\n'


def g_typedefs(spec_mode, mono):
    """not upstream's: the demo of the seeded defect C15c (one generic Kombination and one generic function instantiated with a type
    definition, with its base and with an alias of the base); the expected output follows from the language rules: a definition is a
    new type (its own overload of `zeige`), an alias is its target. M always with monomorphic Kombinationen: the control is about
    instantiations of the generic Kombination, the reference must not contain any"""
    pr = Program(spec_mode, True)
    m = Module('main', 'M')
    pr.modules = [m]
    meter, nummer = D('Meter', ZAHL, 'm'), A('Nummer', ZAHL, 'f')
    for t in (meter, nummer):
        pr.named_mod[t] = 'main'
        m.add('named', t)
    pr.structs['Kiste'] = StructDef('Kiste', 'f', [('wert', T)], tparams=['T'])
    m.add('struct', 'Kiste')
    m.add('zeige')
    pr.add_func(m, FuncDef('inhalt', [('k', GI('Kiste', T), False)], T, 'der gezeigte Inhalt von <k>',
                           [('decl', 'w', T, ('field', 'wert', var('k'))), ('show', var('w')), ('ret', var('w'))], tparams=['T']))
    KZ, KM, KN = GI('Kiste', ZAHL), GI('Kiste', meter), GI('Kiste', nummer)
    m.add('stmts', [('decl', 'km', KM, ('ctor', 'Kiste', [('cast', lit(ZAHL, '3'), meter)])),
                    ('decl', 'kz', KZ, ('ctor', 'Kiste', [lit(ZAHL, '7')])),
                    ('decl', 'n', nummer, lit(ZAHL, '9')),
                    ('decl', 'kn', KN, ('ctor', 'Kiste', [var('n')])),
                    ('show', call('inhalt', var('kz'))), ('show', call('inhalt', var('km'))), ('show', call('inhalt', var('kn'))),
                    ('assign', var('kn'), var('kz')), ('show', call('inhalt', var('kn'))),
                    ('show', ('field', 'wert', var('km')))])
    return pr, None, 'M:7\nM:7\nM:Meter(3)\nM:Meter(3)\nM:9\nM:9\nM:7\nM:7\nM:Meter(3)\n'


GOLDEN = [g_generics, g_imports, g_nested, g_operators, g_structs, g_structs_nested, g_typedefs]


def expected_of(repo, res):
    if len(res) == 3:
        return res[2]
    with open(os.path.join(repo, 'tests/testdata/kddp', res[1]), encoding='utf-8') as f:
        return f.read()
