"""C15 helper: program description (modules, items) -> source files, as G (generic) or M (specialised)."""
from checks.c15_lang import (Lang, Ctx, FuncDef, subst, subst_body, is_concrete, mangle, list_depth, show_word, canon, named_in,
                             ART_DAT, ADJ_PUB_DAT, ART_ACC_INDEF, ART_NOM, TypeErrorInModel)


class Module:
    def __init__(self, name, tag, imports=()):
        self.name, self.tag, self.imports = name, tag, list(imports)
        self.items = []
        self.shows = []

    def add(self, *item):
        self.items.append(tuple(item))


class Program:
    """items of a module, in order:
      ('struct', name) ('global', name, type, expr, public) ('func', fname) ('fwd', fname)
      ('zeige',) ('stmts', [stmts]) ('raw', text)
      ('named', type)   declaration of a type definition ('d',..) or type alias ('a',..); public unless in the main module.
                        M with monomorphic Kombinationen: the instantiations that mention the type and cannot be declared in
                        the module of the generic Kombination (which cannot name the type) follow immediately
      ('spechome',)     M only: the specialisations of imported generic functions whose instantiation types mention a type that
                        the declaring module of the generic function cannot name (a type definition of the CALLING module).
                        Such a specialisation exists as text only where the type can be named; the generator keeps the bodies of
                        these generic functions free of names private to their module, so the text means the same here"""

    def __init__(self, spec_mode='overload', mono=False):
        self.structs = {}
        self.funcs = {}
        self.func_module = {}
        self.modules = []          # main module last
        self.spec_mode = spec_mode
        self.mono = mono
        self.insts = None
        self.single = False
        self.named_mod = {}        # type definition / alias (the type tuple: two modules may use one NAME for different private types) -> module declaring it
        self.named_private = set() # those declared without `öffentlich` although their module is imported by others

    # ---------------- construction
    def module(self, name):
        for m in self.modules:
            if m.name == name:
                return m
        raise KeyError(name)

    def add_func(self, mod, f, item=True):
        self.funcs[f.name] = f
        self.func_module[f.name] = mod.name
        if item:
            mod.add('func', f.name)

    def global_type(self, modname, name):
        seen = set()

        def look(mn, own):
            if mn in seen:
                return None
            seen.add(mn)
            m = self.module(mn)
            for it in m.items:
                if it[0] == 'global' and it[1] == name and (own or it[4]):
                    return it[2]
            if own:
                for imp in m.imports:
                    r = look(imp, False)
                    if r is not None:
                        return r
            return None
        return look(modname, True)

    # ---------------- which module can spell which type
    def can_name(self, modname, t):
        m = self.module(modname)
        for n in named_in(t):
            home = self.named_mod.get(n)
            if home is None:
                raise TypeErrorInModel('undeclared named type ' + n[1])
            if home != modname and (home not in m.imports or n in self.named_private):
                return False
        return True

    def sig_home(self, f, sig):
        """the module that holds the textual specialisation of f for sig in M: the module of f if it can spell the types,
        otherwise the first module with a ('spechome',) item that can"""
        own = self.func_module[f.name]
        if all(self.can_name(own, t) for _, t in sig):
            return own
        for m in self.modules:
            if any(it[0] == 'spechome' for it in m.items) and all(self.can_name(m.name, t) for _, t in sig) and (own == m.name or own in m.imports):
                return m.name
        raise TypeErrorInModel('no module can hold the specialisation of %s' % f.name)

    # ---------------- instantiation closure
    def spec_word(self, f, sig):
        if self.spec_mode != 'rename' or '{W}' not in f.alias:
            return f.word
        return '%s_s%d' % (f.word, self.insts[f.name].index(sig))

    def spec_name(self, f, sig):
        return '%s_s%d' % (f.name, self.insts[f.name].index(sig))

    def close(self):
        """all instantiations (function, sigma) reachable from non-generic code; also fills module.shows"""
        self.insts = {fn: [] for fn, f in self.funcs.items() if f.generic}
        lang = Lang(self.structs)
        work = []

        def absorb(ctx, modname):
            m = self.module(modname)
            for t in ctx.shows:
                t = canon(t)
                if not is_concrete(t):
                    raise TypeErrorInModel('show of open type')
                if not self.can_name(modname, t):
                    raise TypeErrorInModel('show of a type the module cannot name')
                if t not in m.shows:
                    m.shows.append(t)
            for fn, sig in ctx.calls:
                if not all(is_concrete(t) for _, t in sig):
                    raise TypeErrorInModel('open instantiation of ' + fn)
                if sig not in self.insts[fn]:
                    self.insts[fn].append(sig)
                    work.append((fn, sig))

        for m in self.modules:
            m.shows = []
        for m in self.modules:
            top = Ctx(self, m.name, 'G')
            for it in m.items:
                if it[0] == 'func' and not self.funcs[it[1]].generic:
                    f = self.funcs[it[1]]
                    ctx = Ctx(self, m.name, 'G')
                    for pn, pt, ref in f.params:
                        ctx.bind(pn, pt)
                    lang.stmts(f.body, ctx, 1)
                    absorb(ctx, m.name)
                elif it[0] == 'stmts':
                    lang.stmts(it[1], top, 0)
                    absorb(top, m.name)
                elif it[0] == 'global':
                    ctx = Ctx(self, m.name, 'G')
                    lang.expr(it[3], ctx)
                    absorb(ctx, m.name)
        n = 0
        while work:
            fn, sig = work.pop(0)
            n += 1
            if n > 400:
                raise TypeErrorInModel('instantiation closure too large')
            f = self.funcs[fn]
            s = dict(sig)
            ctx = Ctx(self, self.func_module[fn], 'G')
            for pn, pt, ref in f.params:
                ctx.bind(pn, subst(pt, s))
            lang.stmts(subst_body(f.body, s), ctx, 1)
            absorb(ctx, self.func_module[fn])
        return self.insts

    def overload_hazard(self):
        """M in 'overload' mode gives all specialisations of a function the same alias. If their parameter types at one
        position are instantiated Kombinationen of different arity, the pinned parser crashes while trying the candidates
        (UnifyGenericType indexes the shorter argument list) - reported separately, avoided here by renaming."""
        for fn, sigs in self.insts.items():
            f = self.funcs[fn]
            for pn, pt, ref in f.params:
                ar = set()
                for sig in sigs:
                    t = subst(pt, dict(sig))
                    while t[0] == 'l':
                        t = t[1]
                    if t[0] == 'g':
                        ar.add(len(t[2]))
                if len(ar) > 1:
                    return True
        return False

    # ---------------- rendering
    def render(self, mode):
        if self.insts is None:
            self.close()
            if self.spec_mode == 'overload' and self.overload_hazard():
                self.spec_mode = 'rename'
        lang = Lang(self.structs, mono=(self.mono and mode == 'M'))
        self._ginsts = []
        lang.note_ginst = lambda t: self._collect_ginsts(lang, t)
        files = {}
        parts = {}
        for m in self.modules:
            parts[m.name] = self._render_module(lang, m, mode)
        # struct declarations last (mono mode needs to know every instantiation used anywhere)
        for m in self.modules:
            lines = []
            body = []
            for kind, payload in parts[m.name]:
                if kind == 'text':
                    body.append(payload)
                elif kind == 'structs':
                    body.append('\n'.join(self._render_structs(lang, m, payload, mode)))
                elif kind == 'monohome':
                    body.append('\n'.join(self._render_monohome(lang, m, payload[1])))
            text_body = '\n'.join(body)
            lines.append('Binde "Duden/Ausgabe" ein.')
            for imp in m.imports:
                lines.append('Binde "%s" ein.' % imp)
            lines.append('')
            files[m.name + '.ddp'] = '\n'.join(lines) + '\n' + text_body + '\n'
        return files

    def _collect_ginsts(self, lang, t):
        t = canon(t)
        k = t[0]
        if k == 'l':
            self._collect_ginsts(lang, t[1])
        elif k == 'g':
            for a in t[2]:
                self._collect_ginsts(lang, a)
            if is_concrete(t) and t not in self._ginsts:
                sd = self.structs[t[1]]
                s = dict(zip(sd.tparams, t[2]))
                for fn, ft in sd.fields:
                    self._collect_ginsts(lang, subst(ft, s))
                self._ginsts.append(t)

    def _render_module(self, lang, m, mode):
        out = []     # ('text', str) | ('structs', [names])
        lang.aliases_needed = []
        chunks = []

        def flush():
            if chunks:
                out.append(('text', '\n'.join(chunks)))
                del chunks[:]

        top = Ctx(self, m.name, mode)
        pending_structs = []
        for it in m.items:
            k = it[0]
            if k == 'struct':
                pending_structs.append(it[1])
                continue
            if pending_structs:
                flush()
                out.append(('structs', pending_structs))
                pending_structs = []
                out.append(('aliases', None))
            if k == 'global':
                ctx = Ctx(self, m.name, mode)
                pub = 'öffentliche ' if it[4] else ''
                t = it[2]
                chunks.append('%s %s%s %s ist %s.' % (ART_NOM[lang.gender(t)], pub, lang.tname(t), it[1], lang.expr(it[3], ctx)))
                chunks.append('')
            elif k == 'func':
                f = self.funcs[it[1]]
                if f.generic and mode == 'M':
                    for sig in self.insts[f.name]:
                        if self.sig_home(f, sig) == m.name:
                            chunks += self._render_func(lang, m, self._specialise(f, sig), mode, define_only=f.forward)
                else:
                    chunks += self._render_func(lang, m, f, mode)
            elif k == 'spechome':
                if mode == 'M':
                    for om in self.modules:
                        if om is m:
                            continue
                        for oit in om.items:
                            if oit[0] != 'func' or not self.funcs[oit[1]].generic:
                                continue
                            f = self.funcs[oit[1]]
                            for sig in self.insts[f.name]:
                                if self.sig_home(f, sig) == m.name:
                                    sp = self._specialise(f, sig)
                                    sp.public = m is not self.modules[-1] and not any(n in self.named_private for _, t in sig for n in named_in(t))
                                    chunks += self._render_func(lang, m, sp, mode)
            elif k == 'named':
                chunks.append(self._render_named(lang, m, it[1]))
                flush()
                out.append(('monohome', it[1]))
            elif k == 'fwd':
                f = self.funcs[it[1]]
                if mode == 'M':
                    for sig in self.insts[f.name]:
                        chunks += self._render_func(lang, m, self._specialise(f, sig), mode, forward_only=True)
            elif k == 'zeige':
                flush()
                out.append(('zeige', None))
            elif k == 'stmts':
                chunks += lang.stmts(it[1], top, 0)
                chunks.append('')
            elif k == 'raw':
                chunks.append(it[1])
            else:
                raise ValueError(k)
        if pending_structs:
            flush()
            out.append(('structs', pending_structs))
            out.append(('aliases', None))
        flush()
        # zeige set: rendered now (types are known from close()); aliases for nested lists afterwards
        res = []
        for kind, payload in out:
            if kind == 'monohome':
                res.append(('monohome', (m, payload)))
            elif kind == 'zeige':
                z = []
                for t in m.shows:
                    z += self._render_zeige(lang, m, t, mode)
                res.append(('text', '\n'.join(z)))
            else:
                res.append((kind, payload))
        al = []
        i = 0
        while i < len(lang.aliases_needed):     # naming an element type may need further aliases
            lang.tname(lang.aliases_needed[i])
            i += 1
        for e in sorted(lang.aliases_needed, key=list_depth):
            al.append('Wir nennen eine %s auch eine Reihe_%s.' % (lang.tname(e), mangle(e)))
        final = []
        placed = False
        last = max([i for i, (kind, _) in enumerate(res) if kind == 'aliases'] or [-1])
        for i, (kind, payload) in enumerate(res):
            if kind == 'aliases':
                if i == last:        # after the last block of Kombinationen (a type definition of a Kombination splits them)
                    final.append(('text', '\n'.join(al) + ('\n' if al else '')))
                    placed = True
            else:
                final.append((kind, payload))
        if not placed and al:
            final.insert(0, ('text', '\n'.join(al) + '\n'))
        return final

    def _specialise(self, f, sig):
        s = dict(sig)
        g = FuncDef(self.spec_name(f, sig), [(pn, subst(pt, s), ref) for pn, pt, ref in f.params],
                    None if f.ret is None else subst(f.ret, s), f.alias, subst_body(f.body, s), tparams=(), public=f.public,
                    operator=f.operator, word=self.spec_word(f, sig))
        return g

    def _render_func(self, lang, m, f, mode, forward_only=False, define_only=False):
        out = []
        ctx = Ctx(self, m.name, mode)
        for pn, pt, ref in f.params:
            ctx.bind(pn, pt)
        if define_only:
            out.append('Die Funktion %s macht:' % f.name)
            out += lang.stmts(f.body, ctx, 1)
            out.append('')
            return out
        head = 'Die %s%sFunktion %s' % ('öffentliche ' if f.public else '', 'generische ' if f.generic else '', f.name)
        if f.params:
            names = [p[0] for p in f.params]
            types = [lang.tname_ref(p[1]) if p[2] else lang.tname(p[1]) for p in f.params]
            if len(names) == 1:
                head += ' mit dem Parameter %s vom Typ %s' % (names[0], types[0])
            else:
                head += ' mit den Parametern %s und %s vom Typ %s und %s' % (', '.join(names[:-1]), names[-1], ', '.join(types[:-1]), types[-1])
            head += ','
        head += ' gibt %s zurück,' % lang.ret_phrase(f.ret)
        if forward_only:
            out.append(head)
            out.append('wird später definiert')
            out.append('und kann so benutzt werden:')
            out.append('\t"%s"' % f.alias.replace('{W}', f.word))
            out.append('')
            return out
        out.append(head + ' macht:')
        out += lang.stmts(f.body, ctx, 1)
        if f.operator:
            out.append('Und überlädt den "%s" Operator.' % f.operator)
        else:
            out.append('Und kann so benutzt werden:')
            out.append('\t"%s"' % f.alias.replace('{W}', f.word))
        out.append('')
        return out

    # ---------------- type definitions and aliases
    def _render_named(self, lang, m, t):
        pub = 'öffentlich ' if (not self.single and m is not self.modules[-1] and t not in self.named_private) else ''
        a_new = ART_ACC_INDEF[lang.gender(t)]
        a_old = ART_ACC_INDEF[lang.gender(t[2])]
        if t[0] == 'd':
            return 'Wir definieren %s %s %sals %s %s.' % (a_new, t[1], pub, a_old, lang.tname_after(t[2], a_old))
        return 'Wir nennen %s %s %sauch %s %s.' % (a_old, lang.tname_after(t[2], a_old), pub, a_new, t[1])

    def _struct_home(self, t):
        """module that declares the monomorphic counterpart of the instantiation t: the module of the generic Kombination if it
        can spell the type arguments, else the module of the first named type it cannot spell"""
        for mod in self.modules:
            if any(it[0] == 'struct' and it[1] == t[1] for it in mod.items):
                if self.can_name(mod.name, t):
                    return mod.name, None
                for n in named_in(t):
                    if not self.can_name(mod.name, n):
                        return self.named_mod[n], n
        raise KeyError(t[1])

    def _render_monohome(self, lang, m, named):
        out = []
        if not lang.mono:
            return out
        pub = not self.single and m is not self.modules[-1] and named not in self.named_private
        for t in self._ginsts:          # dependency order
            home, after = self._struct_home(t)
            if home == m.name and after == named:
                sd = self.structs[t[1]]
                out += self._render_struct(lang, sd, lang.mono_name(t), dict(zip(sd.tparams, t[2])), pub, False)
        return out

    # ---------------- zeige
    def _leaves(self, e, t, depth=0):
        t = canon(t)
        k = t[0]
        if k == 'p':
            return [('write', e)]
        if k == 'd':
            # the NAME of the type definition is part of the output: which overload of `zeige` ran is observable
            return ([('write', ('lit', ('p', 'Text'), '"%s("' % t[1]))] + self._leaves(('cast', e, t[2]), t[2], depth + 1) +
                    [('write', ('lit', ('p', 'Text'), '")"'))])
        if k == 'l':
            el = t[1]
            if el[0] == 'p':
                return [('write', e)]
            if el[0] == 'l' or depth > 2:
                return [('write', ('len', e))]
            inner = self._leaves(('index', e, ('lit', ('p', 'Zahl'), '1')), el, depth + 1)
            return [('write', ('len', e)), ('write', ('lit', ('p', 'Text'), '":"')),
                    ('if', ('gt', ('len', e), ('lit', ('p', 'Zahl'), '0')), inner, [])]
        sd = self.structs[t[1]]
        s = dict(zip(sd.tparams, t[2])) if k == 'g' else {}
        out = [('write', ('lit', ('p', 'Text'), '"<"'))]
        for i, (fn, ft) in enumerate(sd.fields):
            if i:
                out.append(('write', ('lit', ('p', 'Text'), '" "')))
            out += self._leaves(('field', fn, e), subst(ft, s), depth + 1)
        out.append(('write', ('lit', ('p', 'Text'), '">"')))
        return out

    def _render_zeige(self, lang, m, t, mode):
        body = [('write', ('lit', ('p', 'Text'), '"%s:"' % m.tag))] + self._leaves(('var', 'zx'), t) + [('write', ('lit', ('p', 'Buchstabe'), "'\\n'"))]
        f = FuncDef('zeige_' + mangle(t), [('zx', t, False)], None, show_word(t) + ' <zx>', body)
        return self._render_func(lang, m, f, mode)

    # ---------------- Kombinationen
    def _render_structs(self, lang, m, names, mode):
        out = []
        plain = [n for n in names if not self.structs[n].generic]
        gen = [n for n in names if self.structs[n].generic]
        pub = not self.single and m is not self.modules[-1]
        for n in plain:
            out += self._render_struct(lang, self.structs[n], n, {}, pub, False)
        if lang.mono:
            todo = [t for t in self._ginsts if t[1] in gen and self._struct_home(t)[0] == m.name and self._struct_home(t)[1] is None]
            for t in todo:   # _ginsts is in dependency order (inner instantiations were appended first)
                sd = self.structs[t[1]]
                out += self._render_struct(lang, sd, lang.mono_name(t), dict(zip(sd.tparams, t[2])), pub, False)
        else:
            for n in gen:
                out += self._render_struct(lang, self.structs[n], n, {}, pub, True)
        return out

    def _render_struct(self, lang, sd, name, s, pub, generic):
        out = ['Wir nennen die %s%sKombination aus' % ('öffentliche ' if pub else '', 'generische ' if generic else '')]
        for fn, ft in sd.fields:
            t = subst(ft, s)
            out.append('\t%s %s%s %s,' % (ART_DAT[lang.gender(t)], ADJ_PUB_DAT + ' ' if pub else '', lang.tname(t), fn))
        art = ART_ACC_INDEF[sd.gender]
        if sd.ctor:
            out.append('%s %s, und erstellen sie so:' % (art, name))
            out.append('\t"%s(%s)"' % (name, ', '.join('<%s>' % fn for fn, _ in sd.fields)))
        else:
            out.append('%s %s.' % (art, name))
        out.append('')
        return out
