"""C09 Calls resolve to the longest type-matching alias; arguments bind by name.

Workload: generated alias populations over a small vocabulary, built to collide (prefixes, moved and permuted
placeholders, same pattern with other parameter types, Referenz/value twins, generic/concrete twins, Kombination
constructors, imported declarations, negation markers, > 12 candidates at one call site) with call sites in every
argument form, and populations of operator overloads over user Kombinationen with the built-in meaning as fallback.
Oracle: checks/c09_model.py, an independent matcher implementing the rule as stated by the property.
Observed twice: FuncCall.Func / StructLiteral.Struct / OverloadedBy + argument maps dumped from the real AST by
ddpprobe, and (for a seeded sample of programs) the output of the executable produced by the real kddp, in which every
function body prints its own name and its arguments."""
import hashlib
import json
import os
import random
import re
import shutil
import threading

import vlib
from vlib import Check, Scratch, Probe, ProbeDied, log
from checks import c09_gen as gen

PID = "C09"
DUP_MSG = re.compile(r"steht bereits für|bereits überladen")
AUX_LINE = re.compile(r'^\t?(Schreibe |Zeig )')


def _norm(s):
    return gen._norm_arg(s)


# ---------------------------------------------------------------- cases

def make_case(seed, kind, i, words, nsites):
    rng = random.Random("C09|%d|%s|%d" % (seed, kind, i))
    skipped = 0
    if kind == "a":
        pop = gen.gen_population(rng, words)
        sites = gen.gen_sites(rng, pop, nsites)
    else:
        pop = gen.gen_op_population(rng)
        sites, skipped = gen.gen_op_sites(rng, pop, nsites)
    files, aux = gen.layout(pop, sites)
    return {
        "name": "%s%d" % (kind, i), "kind": kind, "files": files,
        "sites": [s.to_json() for s in sites],
        "aux": [{"line": a[0], "col": a[1], "name": a[2], "args": a[3]} for a in aux],
        "skipped_sites": skipped, "skipped_word_call": pop.skipped_word_call,
        "population": {"decls": len(pop.decls), "aliases": len(pop.aliases()) if kind == "a" else len(pop.decls), "types": pop.tpool,
                       "vocab": pop.vocab, "mode": pop.mode, "pun": pop.pun,
                       "imported": sum(1 for d in pop.decls if d.module != "main"),
                       "popkey": sorted(repr(a.key()) for a in pop.aliases()) if kind == "a" else sorted(repr(gen._op_key(d)) for d in pop.decls)},
    }


def materialize(d, files):
    for name, content in files.items():
        vlib.write_file(os.path.join(d, name), content)


# ---------------------------------------------------------------- static judgement (AST dump)

def judge_static(case, r):
    """returns (verdict, problems, judged) - verdict: 'ok' | 'discard-duplicate' | 'inconclusive';
    problems: [(signature dict, text)]; judged: {site id: 'ok'|'bad'}"""
    problems, judged = [], {}
    if r.get("panic") or r.get("err") or r.get("nil_module"):
        return "inconclusive", [], {}
    main_lines = case["files"]["main.ddp"].split("\n")
    site_lines = {}
    for s in case["sites"]:
        n = len(_site_lines(case, s))
        for l in range(s["line"], s["line"] + n):
            site_lines[l] = s
    errs = [d for d in (r.get("diags") or []) if d["level"] == 2]
    decl_errs, site_errs = [], {}
    for d in errs:
        fname = os.path.basename(d["file"])
        if fname == "main.ddp" and d["l1"] in site_lines:
            site_errs.setdefault(site_lines[d["l1"]]["id"], []).append(d)
        else:
            decl_errs.append((fname, d))
    if any(DUP_MSG.search(d["msg"]) for f, d in decl_errs):
        return "discard-duplicate", [], {}
    hard = False
    for fname, d in decl_errs:
        src = case["files"].get(fname)
        line = ""
        if src is not None:
            ls = src.split("\n")
            if 1 <= d["l1"] <= len(ls):
                line = ls[d["l1"] - 1]
        if src is not None and AUX_LINE.match(line):
            problems.append(({"kind": "call-rejected", "site": "fixed call in a function body or trace marker", "shape": _aux_shape(line),
                              "code": d["code"], "population": case["kind"]},
                             "%s:%d `%s`: %s" % (fname, d["l1"], line.strip(), d["msg"][:200])))
        else:
            hard = True
    if hard and not problems:
        return "inconclusive", [], {}
    calls = r.get("calls") or []
    bypos = {}
    for c in calls:
        bypos.setdefault((c["l1"], c["c1"]), []).append(c)
    # fixed calls (bodies of non-generic functions, markers)
    for a in case["aux"]:
        ent = [c for c in bypos.get((a["line"], a["col"]), []) if c["kind"] == "call"]
        if not ent:
            if not any(d["l1"] == a["line"] for f, d in decl_errs if f == "main.ddp"):
                problems.append(({"kind": "no-call-node", "site": "fixed call", "shape": _aux_shape(main_lines[a["line"] - 1]), "population": case["kind"]},
                                 "main.ddp:%d `%s`: no call at column %d" % (a["line"], main_lines[a["line"] - 1].strip(), a["col"])))
            continue
        e = ent[0]
        got_args = {k: _norm(v) for k, v in (e.get("args") or {}).items()}
        if e["name"] != a["name"] or got_args != {k: _norm(v) for k, v in a["args"].items()}:
            problems.append(({"kind": "wrong-callee", "site": "fixed call", "shape": _aux_shape(main_lines[a["line"] - 1]), "expected": a["name"], "got": e["name"],
                              "population": case["kind"]},
                             "main.ddp:%d `%s`: expected %s%s, parser chose %s%s" % (a["line"], main_lines[a["line"] - 1].strip(), a["name"], a["args"], e["name"], got_args)))
    # generated call sites
    for s in case["sites"]:
        pos = (s["line"], s["col"])
        ent = [c for c in bypos.get(pos, []) if c["kind"] == s["kind"]]
        negs = [c for c in bypos.get(pos, []) if c["kind"] == "unary:nicht"] if s["kind"] == "call" else []
        here = site_errs.get(s["id"], [])
        base = {"population": case["kind"], "expected": _types_only(s["exp_shape"])}
        acc = s["accepted"]
        if not ent:
            sig = dict(base, kind="call-rejected" if here else "no-call-node", code=here[0]["code"] if here else 0)
            problems.append((sig, "main.ddp:%d `%s`: expected %s, no %s node at column %d; diagnostics: %s" % (
                s["line"], s["text"], _acc_text(acc), s["kind"], s["col"], [d["msg"][:160] for d in here])))
            judged[s["id"]] = "bad"
            continue
        e = ent[0]
        got = (e["name"], bool(negs), {k: _norm(v) for k, v in (e.get("args") or {}).items()})
        ok = any(got == (a["name"], a["negated"], a["args"]) for a in acc)
        if ok:
            # the declaration must be the one of the right module (an instantiation of a generic belongs to the instantiating module)
            a = [a for a in acc if got == (a["name"], a["negated"], a["args"])][0]
            want_mod = "" if a["name"] == "<builtin>" else a["module"] + ".ddp"
            if not a["generic"] and e.get("module", "") != want_mod:
                judged[s["id"]] = "bad"
                problems.append((dict(base, kind="wrong-module", got=e.get("module", "")),
                                 "main.ddp:%d `%s`: callee %s resolved in module %r, declared in %r" % (s["line"], s["text"], e["name"], e.get("module"), want_mod)))
                continue
        if ok and not here:
            judged[s["id"]] = "ok"
            continue
        judged[s["id"]] = "bad"
        if ok:
            sig = dict(base, kind="diagnostic-on-resolved-site", code=here[0]["code"])
            problems.append((sig, "main.ddp:%d `%s`: resolved to %s as expected but the front end reports: %s" % (s["line"], s["text"], e["name"], [d["msg"][:160] for d in here])))
            continue
        names = {a["name"] for a in acc}
        if e["name"] not in names:
            kind = "wrong-callee"
        elif not any((a["name"], a["args"]) == (got[0], got[2]) for a in acc):
            kind = "wrong-binding"
        else:
            kind = "wrong-negation"
        gname = e["name"] + ("!" if negs else "")
        if gname not in s["cands"] and e["name"] in s["cands"]:
            gname = e["name"]
        sig = dict(base, kind=kind, got=_types_only(s["cands"].get(gname, "not a typed candidate")), relation=_relation(s, gname) if kind == "wrong-callee" else kind)
        problems.append((sig, "main.ddp:%d `%s`: rule selects %s; parser chose %s%s args=%s; typed candidates: %s" % (
            s["line"], s["text"], _acc_text(acc), "NOT " if negs else "", e["name"], got[2], s["cands"])))
    return "ok", problems, judged


def _types_only(shape):
    """signature form of an alias shape: its length and the placeholder types (words dropped)"""
    if "<" not in shape and not shape.startswith("w"):
        return shape
    toks = shape.split(" ")
    return "len%d:%s" % (len(toks), "".join(t for t in toks if t.startswith("<")))


def _relation(s, gname):
    """how the chosen declaration relates to the one the rule selects"""
    g, w = (s.get("cinfo") or {}).get(gname), s.get("winfo") or {}
    if g is None:
        return "chosen declaration does not match the argument types"
    if g["len"] != w.get("len"):
        return "shorter pattern chosen" if g["len"] < w.get("len", 0) else "longer pattern chosen"
    sfx = " (chosen declaration is generic only through 'T Liste' parameters)" if g["only_list_generic"] else ""
    if g["generic"] and not w.get("generic"):
        return "generic chosen over non-generic of equal length" + sfx
    if g["refs"] < w.get("refs", 0):
        return "fewer Referenz parameters chosen at equal length" + sfx
    return "other declaration of equal rank" + sfx


def _aux_shape(line):
    line = line.strip()
    line = re.sub(r'"(?:[^"\\]|\\.)*"', "<Text>", line)
    line = re.sub(r"\bZeig \w+\.", "Zeig <v>.", line)
    return line[:60]


def _acc_text(acc):
    return " | ".join("%s%s%s" % ("NOT " if a["negated"] else "", a["name"], a["args"]) for a in acc)


def _site_lines(case, s):
    """source lines belonging to a site (call line + the lines printing its result)"""
    lines = case["files"]["main.ddp"].split("\n")
    out, i = [], s["line"] - 1
    while i < len(lines) and not lines[i].startswith('Schreibe "@'):
        out.append(lines[i])
        i += 1
    while out and out[-1] == "":
        out.pop()
    return out


# ---------------------------------------------------------------- dynamic judgement (compiled by the real kddp)

def judge_dynamic(case, stdout, static_judged):
    problems, n = [], 0
    segs, cur = {}, None
    for line in stdout.split("\n"):
        m = re.match(r"^@(\d+)$", line)
        if m:
            cur = int(m.group(1))
            segs[cur] = []
        elif cur is not None:
            segs[cur].append(line)
    for s in case["sites"]:
        if static_judged.get(s["id"]) != "ok":
            continue
        n += 1
        seg = segs.get(s["id"])
        got = None if seg is None else "\n".join(seg)
        if got is not None and any(_same_out(got, a["stdout"]) for a in s["accepted"]):
            continue
        sig = {"kind": "runtime-trace", "population": case["kind"], "expected": _types_only(s["exp_shape"])}
        problems.append((sig, "main.ddp:%d `%s`: executable printed %r, expected %r" % (s["line"], s["text"], got, [a["stdout"] for a in s["accepted"]])))
    return problems, n


def _same_out(got, exp):
    return got.rstrip("\n") == exp.rstrip("\n")


# ---------------------------------------------------------------- run

def run(tier):
    vlib.ensure_build(asan=False)
    chk = Check(PID, tier)
    seed = chk.seed
    n_alias, n_ops, nsites, dyn_every = (300, 60, 10, 8) if tier == "quick" else (8000, 1500, 10, 12)
    words, bad = gen.usable_words(vlib.REPO)
    if bad or len(words) < 6:
        log("[C09] vocabulary clashes with the keyword table: %s" % bad)
        chk.inconclusive += 1000
        return chk.finish(min_events=1)
    chk.rule = ("oracle: independent matcher for the stated rule (pattern match on call-site units, exact parameter types with consistent generic "
                "substitution, Referenz needs an assignable, order: longer > non-generic > more Referenz); a site is judged (non-trivial) when the "
                "maximal candidate is unique under both readings of a parenthesised variable as Referenz argument, otherwise any maximal candidate is "
                "accepted (trivial). distinct = (population alias keys, call-site text) pairs. Operators: same exact-type rule on positional operands, "
                "built-in meaning when no overload matches. Observed in the AST dump of ddpprobe (callee, module, argument map by parameter name, "
                "UN_NOT wrapper) for every site and in the output of the kddp-compiled executable for every %d-th program." % dyn_every)
    chk.assumptions = [
        "alias words are non-keywords (checked against token.KeywordMap of the tree) and variable names are disjoint from them, except one deliberately "
        "shared name per 'pun' population, whose type is known",
        "argument static types are known by construction: literals, declared variables, -literal, -variable, simple parenthesised expressions",
        "a parenthesised variable passed where a Referenz twin exists is judged under both readings (assignable / temporary)",
        "two generic declarations with a different number of generic parameters are not ordered by the property: accepted either way",
        "generic operator overloads are only judged for operands involving a Kombination (typechecker documents that restriction); sites where a generic "
        "overload would match primitive operands are not generated",
        "populations the front end rejects with a duplicate-alias/duplicate-overload diagnostic are discarded (C20)",
        "run-time traces need LOCPATH=/verif/build/locale (decimal comma)",
    ]
    cases_spec = [("a", i) for i in range(n_alias)] + [("o", i) for i in range(n_ops)]
    feat_keys = ["gt12", "negated", "struct", "imported", "generic", "ref_vs_value", "generic_vs_concrete", "same_pattern_other_types",
                 "permuted", "decl_order_differs", "pun", "builtin"]
    lock = threading.Lock()
    it = iter(cases_spec)
    state = {"dyn_ok": 0, "dyn_tried": 0, "maxcand": 0, "samples_a": {}, "samples_o": {}, "unrelated": {}}

    def account(case, r, verdict, problems, judged, dyn):
        idx = int(case["name"][1:])
        chk.count("programs")
        chk.count("programs_" + ("alias" if case["kind"] == "a" else "operator"))
        chk.count("sites_skipped_generic_overload_on_primitives", case["skipped_sites"])
        chk.count("sites_skipped_word_is_itself_a_call", case.get("skipped_word_call", 0))
        if verdict == "discard-duplicate":
            chk.count("discarded_duplicate_alias(C20)")
            return
        if verdict == "inconclusive":
            chk.count("programs_rejected_for_unrelated_reason")
            with lock:
                chk.inconclusive += 1
                state["unrelated"][case["name"]] = {"case": case["name"], "panic": r.get("panic"), "err": r.get("err"),
                                                    "diags": [(os.path.basename(d["file"]), d["l1"], d["code"], d["msg"][:120]) for d in (r.get("diags") or []) if d["level"] == 2][:4]}
            return
        pk = hashlib.sha1("|".join(case["population"]["popkey"]).encode()).hexdigest()[:16]
        chk.count("declarations", case["population"]["decls"])
        chk.count("aliases_or_overloads", case["population"]["aliases"])
        chk.count("fixed_calls_checked", len(case["aux"]))
        for s in case["sites"]:
            if s["id"] not in judged:
                continue
            chk.note_case((pk, s["text"]), nontrivial=s["unique"])
            chk.count("sites_judged_unique" if s["unique"] else "sites_tied_any_accepted(trivial)")
            chk.count("sites_" + ("alias" if case["kind"] == "a" else "operator"))
            for k in feat_keys:
                if s["feat"].get(k):
                    chk.count("site_" + k)
            if s["feat"].get("shorter_typed"):
                chk.count("site_shorter_typed_candidate_exists")
            if s["feat"].get("refs"):
                chk.count("site_winner_has_referenz")
            for f in s["feat"].get("forms", []):
                chk.count("argform_" + f)
            chk.count("ctx_" + s["ctx"])
        for sig, text in problems:
            chk.violation(sig, files=_replay_files(case, r), text=text)
        if dyn is not None:
            dprob, nd, status = dyn
            chk.count("dynamic_" + status)
            with lock:
                state["dyn_tried"] += 1
                if status == "ok":
                    state["dyn_ok"] += 1
                elif status == "timeout":
                    chk.inconclusive += 1
            if status == "ok":
                chk.count("dynamic_sites_compared", nd)
            for sig, text in dprob:
                chk.violation(sig, files=_replay_files(case, r, dynamic=True), text=text)
        with lock:
            state["maxcand"] = max([state["maxcand"]] + [s["feat"].get("pattern_candidates", 0) for s in case["sites"]])
            if not problems and case["sites"]:
                if case["kind"] == "a":
                    good = [s for s in case["sites"] if s["unique"] and s["feat"].get("shorter_typed") and judged.get(s["id"]) == "ok"]
                    if good and (len(state["samples_a"]) < 4 or idx < max(state["samples_a"])):
                        s = good[0]
                        state["samples_a"][idx] = {"case": case["name"], "call_site": s["text"], "typed_candidates": s["cands"], "rule_selects": ("NOT " if s["accepted"][0]["negated"] else "") + s["accepted"][0]["name"],
                                                   "binding": s["accepted"][0]["args"], "pattern_candidates": s["feat"].get("pattern_candidates"), "parser_agreed": True,
                                                   "executable_printed_expected_trace": bool(dyn and dyn[2] == "ok")}
                        for k in sorted(state["samples_a"])[4:]:
                            del state["samples_a"][k]
                elif len(state["samples_o"]) < 2 or idx < max(state["samples_o"]):
                    s = case["sites"][0]
                    state["samples_o"][idx] = {"case": case["name"], "operator_site": s["text"], "overloads": s["cands"], "rule_selects": s["accepted"][0]["name"],
                                               "binding": s["accepted"][0]["args"], "parser_agreed": judged.get(s["id"]) == "ok"}
                    for k in sorted(state["samples_o"])[2:]:
                        del state["samples_o"][k]

    with Scratch("c09") as sc:
        def worker(_):
            pr = Probe(sc.path)
            while True:
                with lock:
                    spec = next(it, None)
                if spec is None:
                    break
                kind, i = spec
                case = make_case(seed, kind, i, words, nsites)
                d = os.path.join(sc.path, case["name"])
                materialize(d, case["files"])
                try:
                    r = pr.request({"op": "parse", "id": case["name"], "file": os.path.join(d, "main.ddp"), "dump": True, "cpu_sec": 30})
                except ProbeDied as e:
                    r = {"panic": "probe died: %s" % e.marker}
                verdict, problems, judged = judge_static(case, r)
                dyn = None
                if verdict == "ok" and not r.get("faulty") and i % dyn_every == 0 and case["sites"]:
                    dyn = run_dynamic(case, d, judged)
                account(case, r, verdict, problems, judged, dyn)
                shutil.rmtree(d, ignore_errors=True)
            pr.close()

        vlib.pmap(worker, range(vlib.NCPU))

    chk.samples = [state["samples_a"][k] for k in sorted(state["samples_a"])] + [state["samples_o"][k] for k in sorted(state["samples_o"])]
    if state["unrelated"]:
        chk.extra["unrelated_rejections"] = [state["unrelated"][k] for k in sorted(state["unrelated"])[:5]]
    chk.extra["max_pattern_candidates"] = state["maxcand"]
    chk.extra["dynamic_programs_ok"] = state["dyn_ok"]
    if state["dyn_tried"] and state["dyn_ok"] * 2 < state["dyn_tried"]:
        log("[C09] most sampled programs could not be compiled and run: the run-time half observed too little")
        chk.inconclusive += state["dyn_tried"]
    return chk.finish(min_events=1500 if tier == "quick" else 30000)


def run_dynamic(case, d, judged):
    exe = os.path.join(d, "main_exe")
    pr = vlib.kddp_compile(os.path.join(d, "main.ddp"), exe, O=1, wall_s=180)
    if pr.timed_out:
        return [], 0, "timeout"
    if pr.rc != 0 or not os.path.exists(exe):
        return [], 0, "compile_failed_left_to_C02"
    rr = vlib.run_exe(exe)
    if rr.timed_out:
        return [], 0, "timeout"
    if rr.rc != 0:
        return [({"kind": "runtime-exit", "population": case["kind"], "rc": rr.rc, "stderr": rr.err[:80]},
                 "%s: executable exit status %s stderr %r" % (case["name"], rr.rc, rr.err[:300]))], 0, "run_failed"
    probs, n = judge_dynamic(case, rr.out, judged)
    return probs, n, "ok"


def _replay_files(case, r, dynamic=False):
    files = dict(case["files"])
    slim = {k: case.get(k) for k in ("name", "kind", "sites", "aux", "population", "skipped_sites", "skipped_word_call")}
    slim["dynamic"] = dynamic
    files["case.json"] = json.dumps(slim, indent=1, ensure_ascii=False)
    files["probe_result.json"] = json.dumps({k: r.get(k) for k in ("faulty", "err", "panic", "diags", "calls")}, indent=1, ensure_ascii=False)
    return files


def replay(path):
    vlib.ensure_build(asan=False)
    case = json.load(open(os.path.join(path, "case.json")))
    case["files"] = {}
    for f in ("main.ddp", "m1.ddp", "pre.ddp"):
        p = os.path.join(path, f)
        if os.path.exists(p):
            case["files"][f] = open(p, encoding="utf-8").read()
    bad = 0
    with Scratch("c09r") as sc:
        d = sc.sub("r")
        materialize(d, case["files"])
        pr = Probe(sc.path)
        r = pr.request({"op": "parse", "id": "replay", "file": os.path.join(d, "main.ddp"), "dump": True, "cpu_sec": 30})
        pr.close()
        verdict, problems, judged = judge_static(case, r)
        for sig, text in problems:
            bad += 1
            print("  static:", json.dumps(sig, ensure_ascii=False), "\n   ", text)
        if verdict == "ok" and not r.get("faulty"):
            dprob, n, status = run_dynamic(case, d, judged)
            for sig, text in dprob:
                bad += 1
                print("  dynamic:", json.dumps(sig, ensure_ascii=False), "\n   ", text)
        else:
            print("  verdict:", verdict, "faulty:", r.get("faulty"))
    if bad:
        print("VIOLATION property=%s replay=%s" % (PID, path))
        return 1
    return 0
