"""C15 helper: verdict pairs. Each case is two programs that differ in ONE place:
  ok  - must be accepted by the front end (and, when `expect` is given, print it),
  bad - must be rejected with at least one error diagnostic (not by a crash).
Families: (a) one type parameter bound to two different argument types, (b) identity of instantiated
generic Kombinationen (equal type arguments: one type, in whichever module; different: different types),
(c) the same two questions for a type DEFINITION versus its base type (two different types: `Meter-Vektor2` is not a
`Zahl-Vektor2`, T cannot be Meter and Zahl at once - exactly like the monomorphic MeterVektor2 / ZahlVektor2) and for a type
ALIAS versus its target (one type: `Nummer-Vektor2` IS `Zahl-Vektor2`); the ok side uses the alias, the bad side the definition.
If `ok` is rejected the generator made a mistake: the pair is counted as trivial, never as a violation."""
import random

ART = {'Zahl': ('Die', 'eine'), 'Kommazahl': ('Die', 'eine'), 'Text': ('Der', 'einen'), 'Buchstabe': ('Der', 'einen'),
       'Wahrheitswert': ('Der', 'einen'), 'Byte': ('Der', 'einen')}
VAL = {'Zahl': ['1', '42', '-3'], 'Kommazahl': ['1,5', '0,25'], 'Text': ['"x"', '"äö"'], 'Buchstabe': ["'c'", "'ß'"],
       'Wahrheitswert': ['wahr', 'falsch'], 'Byte': ['(7 als Byte)']}
PLURAL = {'Zahl': 'Zahlen', 'Kommazahl': 'Kommazahlen', 'Text': 'Text', 'Buchstabe': 'Buchstaben', 'Wahrheitswert': 'Wahrheitswert', 'Byte': 'Byte'}
PRIMS = list(ART)

HEAD = 'Binde "Duden/Ausgabe" ein.\n'

VEKTOR = ('Wir nennen die {pub}generische Kombination aus\n\tdem {pubf}T vx,\n\tdem {pubf}T vy,\neinen Vektor2, und erstellen sie so:\n'
          '\t"Vektor2(<vx>, <vy>)"\n\n')
PAAR = ('Wir nennen die {pub}generische Kombination aus\n\tdem {pubf}A pa,\n\tdem {pubf}B pb,\neinen Paar, und erstellen sie so:\n'
        '\t"Paar(<pa>, <pb>)"\n\n')


def structs(pub):
    d = dict(pub='öffentliche ' if pub else '', pubf='öffentlichen ' if pub else '')
    return VEKTOR.format(**d) + PAAR.format(**d)


def two_types(r):
    a = r.choice(PRIMS)
    b = r.choice([t for t in PRIMS if t != a])
    return a, b


def val(r, t):
    return r.choice(VAL[t])


def decl(t, name, v):
    return '%s %s %s ist %s.\n' % (ART[t][0], t, name, v)


def gfunc(pub, name, params, ret, body, alias):
    names = [p[0] for p in params]
    types = [p[1] for p in params]
    if len(params) == 1:
        ps = 'mit dem Parameter %s vom Typ %s' % (names[0], types[0])
    else:
        ps = 'mit den Parametern %s und %s vom Typ %s und %s' % (', '.join(names[:-1]), names[-1], ', '.join(types[:-1]), types[-1])
    return 'Die %sgenerische Funktion %s %s, gibt %s zurück, macht:\n%sUnd kann so benutzt werden:\n\t"%s"\n\n' % (
        'öffentliche ' if pub else '', name, ps, ret, ''.join('\t' + l + '\n' for l in body), alias)


def split(two_modules, decls, main_body):
    """declarations in module decl (public) or in main itself"""
    if two_modules:
        return {'decl.ddp': HEAD + '\n' + decls, 'main.ddp': HEAD + 'Binde "decl" ein.\n\n' + main_body}
    return {'main.ddp': HEAD + '\n' + decls + main_body}


def gen_pairs(seed, n):
    out = []
    fams = [f for f in globals() if f.startswith('fam_')]
    fams.sort()
    for i in range(n):
        r = random.Random('%d/pair/%d' % (seed, i))
        fam = fams[i % len(fams)]
        two = r.random() < 0.5
        c = globals()[fam](r, two)
        if c is None:
            continue
        c['name'] = '%s#%d' % (fam[4:], i)
        c['family'] = fam[4:]
        c['modules'] = 2 if two else 1
        out.append(c)
    return out


# ------------------------------------------------------------------ (a) conflicting bindings

def fam_bind_TT(r, two):
    a, b = two_types(r)
    d = gfunc(two, 'wähle', [('x', 'T'), ('y', 'T')], 'ein T', ['Gib x zurück.'], 'wähle <x> oder <y>')
    ok = decl(a, 'e', '(wähle %s oder %s)' % (val(r, a), val(r, a))) + 'Schreibe e auf eine Zeile.\n'
    bad = 'wähle %s oder %s.\n' % (val(r, a), val(r, b))
    return dict(construct='f(T, T) called with (%s, %s)' % (a, b), ok=split(two, d, ok), bad=split(two, d, bad))


def fam_bind_list_elem(r, two):
    a, b = two_types(r)
    d = gfunc(two, 'hänge', [('l', 'T Liste'), ('y', 'T')], 'eine T Liste', ['Gib l verkettet mit y zurück.'], 'hänge <y> an <l>')
    pre = 'Die %s Liste liste ist eine Liste, die aus %s besteht.\n' % (PLURAL[a], val(r, a))
    ok = pre + 'Die %s Liste erg ist hänge %s an liste.\nSchreibe (die Länge von erg) auf eine Zeile.\n' % (PLURAL[a], val(r, a))
    bad = pre + 'Schreibe (die Länge von (hänge %s an liste)) auf eine Zeile.\n' % val(r, b)
    return dict(construct='f(T Liste, T) called with (%s Liste, %s)' % (a, b), ok=split(two, d, ok), bad=split(two, d, bad), expect='2\n')


def fam_bind_elem_list(r, two):
    a, b = two_types(r)
    d = gfunc(two, 'stelle', [('y', 'T'), ('l', 'T Liste')], 'eine Zahl', ['Gib die Länge von l zurück.'], 'stelle <y> vor <l>')
    pre = 'Die %s Liste liste ist eine Liste, die aus %s besteht.\n' % (PLURAL[a], val(r, a))
    ok = pre + 'Schreibe (stelle %s vor liste) auf eine Zeile.\n' % val(r, a)
    bad = pre + 'Schreibe (stelle %s vor liste) auf eine Zeile.\n' % val(r, b)
    return dict(construct='f(T, T Liste) called with (%s, %s Liste)' % (b, a), ok=split(two, d, ok), bad=split(two, d, bad), expect='1\n')


def fam_bind_struct_arg(r, two):
    a, b = two_types(r)
    d = structs(two) + gfunc(two, 'setze', [('v', 'T-Vektor2'), ('y', 'T')], 'einen T-Vektor2', ['Gib Vektor2((vx von v), y) zurück.'], 'setze <y> in <v>')
    ok = 'Der %s-Vektor2 erg ist setze %s in (Vektor2(%s, %s)).\nSchreibe "ok" auf eine Zeile.\n' % (a, val(r, a), val(r, a), val(r, a))
    bad = 'setze %s in (Vektor2(%s, %s)).\n' % (val(r, b), val(r, a), val(r, a))
    return dict(construct='f(T-Vektor2, T) called with (%s-Vektor2, %s)' % (a, b), ok=split(two, d, ok), bad=split(two, d, bad), expect='ok\n')


def fam_bind_TRT(r, two):
    a, b = two_types(r)
    c = r.choice(PRIMS)
    d = gfunc(two, 'drei', [('x', 'T'), ('y', 'R'), ('z', 'T')], 'ein R', ['Gib y zurück.'], 'drei <x> <y> <z>')
    ok = decl(c, 'e', '(drei %s %s %s)' % (val(r, a), val(r, c), val(r, a))) + 'Schreibe "ok" auf eine Zeile.\n'
    bad = decl(c, 'e', '(drei %s %s %s)' % (val(r, a), val(r, c), val(r, b)))
    return dict(construct='f(T, R, T) called with (%s, %s, %s)' % (a, c, b), ok=split(two, d, ok), bad=split(two, d, bad), expect='ok\n')


def fam_bind_refs(r, two):
    a, b = two_types(r)
    if 'Byte' in (a, b):
        a, b = 'Zahl', 'Text'
    d = gfunc(two, 'tausche', [('x', 'T Referenz'), ('y', 'T Referenz')], 'nichts', ['Das T tmp ist x.', 'Speichere y in x.', 'Speichere tmp in y.'], 'tausche <x> mit <y>')
    pre = decl(a, 'eins', val(r, a)) + decl(a, 'zwei', val(r, a)) + decl(b, 'drei', val(r, b))
    ok = pre + 'tausche eins mit zwei.\nSchreibe "ok" auf eine Zeile.\n'
    bad = pre + 'tausche eins mit drei.\n'
    return dict(construct='f(T Referenz, T Referenz) called with (%s, %s)' % (a, b), ok=split(two, d, ok), bad=split(two, d, bad), expect='ok\n')


def fam_bind_pair_field(r, two):
    a, b = two_types(r)
    d = structs(two) + gfunc(two, 'zweites', [('p', 'T-R-Paar'), ('y', 'R')], 'ein R', ['Gib y zurück.'], 'zweites <p> <y>')
    ok = decl(b, 'e', '(zweites (Paar(%s, %s)) %s)' % (val(r, a), val(r, b), val(r, b))) + 'Schreibe "ok" auf eine Zeile.\n'
    bad = 'zweites (Paar(%s, %s)) %s.\n' % (val(r, a), val(r, b), val(r, a))
    return dict(construct='f(T-R-Paar, R) called with (%s-%s-Paar, %s)' % (a, b, a), ok=split(two, d, ok), bad=split(two, d, bad), expect='ok\n')


def fam_bind_ctor(r, two):
    a, b = two_types(r)
    d = structs(two)
    ok = 'Der %s-Vektor2 v ist Vektor2(%s, %s).\nSchreibe "ok" auf eine Zeile.\n' % (a, val(r, a), val(r, a))
    bad = 'Der %s-Vektor2 v ist Vektor2(%s, %s).\n' % (a, val(r, a), val(r, b))
    return dict(construct='constructor of Kombination(T, T) called with (%s, %s)' % (a, b), ok=split(two, d, ok), bad=split(two, d, bad), expect='ok\n')


def fam_bind_operator(r, two):
    """the result type does not depend on T and the result is only printed: nothing but the binding of T can reject `bad`"""
    a, b = two_types(r)
    op = r.choice(['plus', 'minus', 'mal'])
    d = structs(two) + ('Die %sgenerische Funktion addiere mit den Parametern l und r vom Typ T-Vektor2 und T-Vektor2, gibt eine Zahl zurück, macht:\n'
                        '\tGib 1 zurück.\nUnd überlädt den "%s" Operator.\n\n' % ('öffentliche ' if two else '', op))
    pre = 'Der %s-Vektor2 v ist Vektor2(%s, %s).\nDer %s-Vektor2 w ist Vektor2(%s, %s).\nDer %s-Vektor2 u ist Vektor2(%s, %s).\n' % (
        a, val(r, a), val(r, a), a, val(r, a), val(r, a), b, val(r, b), val(r, b))
    ok = pre + 'Schreibe (v %s w) auf eine Zeile.\n' % op
    bad = pre + 'Schreibe (v %s u) auf eine Zeile.\n' % op
    return dict(construct='generic operator %s(T-Vektor2, T-Vektor2) applied to (%s-Vektor2, %s-Vektor2)' % (op, a, b), ok=split(two, d, ok), bad=split(two, d, bad), expect='1\n')


def fam_bind_result(r, two):
    a, b = two_types(r)
    d = gfunc(two, 'gleiche', [('x', 'T')], 'ein T', ['Gib x zurück.'], 'gleiche <x>')
    ok = decl(a, 'e', '(gleiche %s)' % val(r, a)) + 'Schreibe "ok" auf eine Zeile.\n'
    bad = decl(b, 'e', '(gleiche %s)' % val(r, a))
    num = ('Zahl', 'Kommazahl', 'Byte')
    if (a in num and b in num) or {a, b} == {'Buchstabe', 'Text'}:
        return None   # initialising a variable with an implicitly convertible value is not this property's subject
    return dict(construct='result of f(T):T with T=%s used as %s' % (a, b), ok=split(two, d, ok), bad=split(two, d, bad), expect='ok\n')


# ------------------------------------------------------------------ (b) identity of instantiations

def fam_ident_assign(r, two):
    a, b = two_types(r)
    d = structs(two) + 'Der %s%s-Vektor2 fern ist Vektor2(%s, %s).\n\n' % ('öffentliche ' if two else '', a, val(r, a), val(r, a))
    x, y = val(r, a), val(r, a)
    pre = 'Der %s-Vektor2 nah ist Vektor2(%s, %s).\nDer %s-Vektor2 fremd ist Vektor2(%s, %s).\n' % (a, x, y, b, val(r, b), val(r, b))
    ok = pre + 'Speichere nah in fern.\nSpeichere fern in nah.\nSchreibe (vx von fern) auf eine Zeile.\n'
    bad = pre + 'Speichere fremd in fern.\n'
    return dict(construct='assignment %s-Vektor2 := %s-Vektor2' % (a, b), ok=split(two, d, ok), bad=split(two, d, bad))


def fam_ident_compare(r, two):
    a, b = two_types(r)
    x, y = val(r, a), val(r, a)
    d = structs(two) + 'Der %s%s-Vektor2 fern ist Vektor2(%s, %s).\n\n' % ('öffentliche ' if two else '', a, x, y)
    pre = 'Der %s-Vektor2 nah ist Vektor2(%s, %s).\nDer %s-Vektor2 fremd ist Vektor2(%s, %s).\n' % (a, x, y, b, val(r, b), val(r, b))
    ok = pre + 'Schreibe (nah gleich fern ist) auf eine Zeile.\nSchreibe (fern ungleich nah ist) auf eine Zeile.\n'
    bad = pre + 'Schreibe (fremd gleich fern ist) auf eine Zeile.\n'
    return dict(construct='comparison %s-Vektor2 gleich %s-Vektor2' % (a, b), ok=split(two, d, ok), bad=split(two, d, bad))


def fam_ident_param(r, two):
    a, b = two_types(r)
    d = structs(two) + ('Die %sFunktion nimm mit dem Parameter v vom Typ %s-Vektor2, gibt %s %s zurück, macht:\n\tGib vy von v zurück.\nUnd kann so benutzt werden:\n\t"nimm <v>"\n\n' % (
        'öffentliche ' if two else '', a, ART[a][1], 'Buchstaben' if a == 'Buchstabe' else a))
    ok = 'Der %s-Vektor2 nah ist Vektor2(%s, %s).\n' % (a, val(r, a), val(r, a)) + decl(a, 'e', '(nimm nah)') + 'Schreibe "ok" auf eine Zeile.\n'
    bad = 'Der %s-Vektor2 nah ist Vektor2(%s, %s).\n' % (b, val(r, b), val(r, b)) + decl(a, 'e', '(nimm nah)')
    return dict(construct='non-generic parameter %s-Vektor2 given a %s-Vektor2' % (a, b), ok=split(two, d, ok), bad=split(two, d, bad), expect='ok\n')


def fam_ident_list(r, two):
    a, b = two_types(r)
    d = structs(two) + 'Der %s%s-Vektor2 fern ist Vektor2(%s, %s).\n\n' % ('öffentliche ' if two else '', a, val(r, a), val(r, a))
    pre = 'Der %s-Vektor2 nah ist Vektor2(%s, %s).\nDer %s-Vektor2 fremd ist Vektor2(%s, %s).\n' % (a, val(r, a), val(r, a), b, val(r, b), val(r, b))
    ok = pre + 'Die %s-Vektor2 Liste beide ist eine Liste, die aus nah, fern besteht.\nSchreibe (die Länge von beide) auf eine Zeile.\n' % a
    bad = pre + 'Die %s-Vektor2 Liste beide ist eine Liste, die aus nah, fremd besteht.\n' % a
    return dict(construct='list of %s-Vektor2 with an element %s-Vektor2' % (a, b), ok=split(two, d, ok), bad=split(two, d, bad), expect='2\n')


def fam_ident_nested(r, two):
    a, b = two_types(r)
    d = structs(two)
    pre = ('Der (%s-Vektor2)-Vektor2 groß ist Vektor2((Vektor2(%s, %s)), (Vektor2(%s, %s))).\nDer %s-Vektor2 klein ist Vektor2(%s, %s).\nDer %s-Vektor2 fremd ist Vektor2(%s, %s).\n' % (
        a, val(r, a), val(r, a), val(r, a), val(r, a), a, val(r, a), val(r, a), b, val(r, b), val(r, b)))
    ok = pre + 'Speichere klein in vx von groß.\nSpeichere vy von groß in klein.\nSchreibe "ok" auf eine Zeile.\n'
    bad = pre + 'Speichere fremd in vx von groß.\n'
    return dict(construct='field of (%s-Vektor2)-Vektor2 := %s-Vektor2' % (a, b), ok=split(two, d, ok), bad=split(two, d, bad), expect='ok\n')


def fam_ident_order(r, two):
    a, b = two_types(r)
    d = structs(two) + 'Der %s%s-%s-Paar fern ist Paar(%s, %s).\n\n' % ('öffentliche ' if two else '', a, b, val(r, a), val(r, b))
    pre = 'Der %s-%s-Paar nah ist Paar(%s, %s).\nDer %s-%s-Paar fremd ist Paar(%s, %s).\n' % (a, b, val(r, a), val(r, b), b, a, val(r, b), val(r, a))
    ok = pre + 'Speichere nah in fern.\nSchreibe "ok" auf eine Zeile.\n'
    bad = pre + 'Speichere fremd in fern.\n'
    return dict(construct='assignment %s-%s-Paar := %s-%s-Paar' % (a, b, b, a), ok=split(two, d, ok), bad=split(two, d, bad), expect='ok\n')


def fam_ident_generic_result(r, two):
    """the instantiation produced inside a generic function is the type named at the call site"""
    a, b = two_types(r)
    d = structs(two) + gfunc(two, 'doppel', [('x', 'T')], 'einen T-Vektor2', ['Gib Vektor2(x, x) zurück.'], 'doppel <x>')
    ok = 'Der %s-Vektor2 v ist doppel %s.\nDer %s-Vektor2 w ist Vektor2(%s, %s).\nSpeichere v in w.\nSchreibe "ok" auf eine Zeile.\n' % (a, val(r, a), a, val(r, a), val(r, a))
    bad = 'Der %s-Vektor2 v ist doppel %s.\n' % (b, val(r, a))
    return dict(construct='f(T):T-Vektor2 with T=%s used as %s-Vektor2' % (a, b), ok=split(two, d, ok), bad=split(two, d, bad), expect='ok\n')


def fam_ident_arity(r, two):
    """a Kombination with two type parameters is not one with one type parameter"""
    a, b = two_types(r)
    d = structs(two) + ('Die %sFunktion nimm mit dem Parameter v vom Typ %s-%s-Paar, gibt eine Zahl zurück, macht:\n\tGib 1 zurück.\nUnd kann so benutzt werden:\n\t"nimm <v>"\n\n' % (
        'öffentliche ' if two else '', a, b))
    ok = 'Schreibe (nimm (Paar(%s, %s))) auf eine Zeile.\n' % (val(r, a), val(r, b))
    bad = 'Schreibe (nimm (Vektor2(%s, %s))) auf eine Zeile.\n' % (val(r, a), val(r, a))
    return dict(construct='non-generic parameter A-B-Paar given a T-Vektor2 with T=A', ok=split(two, d, ok), bad=split(two, d, bad), expect='1\n')


# ------------------------------------------------------------------ (c) type definitions and type aliases as type arguments

# (definition, article acc., article nom., base, alias of the base, article nom. of the alias, alias of the definition, values of the base)
TDEFS = [('Meter', 'einen', 'Der', 'Zahl', 'Nummer', 'Die', 'Strecke', ['1', '42', '7']),
         ('Begriff', 'einen', 'Der', 'Text', 'Silbe', 'Die', 'Floskel', ['"x"', '"äö"', '"ab"']),
         ('Pegel', 'einen', 'Der', 'Kommazahl', 'Quote', 'Die', 'Marke', ['1,5', '0,25'])]


class TD:
    """one definition + aliases; declarations (public in a declaring module) and values"""

    def __init__(self, r, pub):
        self.d, self.acc, self.nom, self.base, self.al, self.alnom, self.ald, self.vals = r.choice(TDEFS)
        self.r = r
        # half of the cases build no value with the constructor (default values only): if two instantiations were wrongly ONE type, a
        # constructor call of the second would be refused on the ok side as well and the pair would not be judged
        self.bydefault = r.random() < 0.5
        p = 'öffentlich ' if pub else ''
        dl = 'Wir definieren %s %s %sals %s %s.' % (self.acc, self.d, p, ART[self.base][1], self.base)
        lines = [dl, 'Wir nennen %s %s %sauch eine %s.' % (ART[self.base][1], self.base, p, self.al)]
        r.shuffle(lines)
        # the alias of the definition: anywhere after the definition
        lines.insert(r.randint(lines.index(dl) + 1, len(lines)), 'Wir nennen %s %s %sauch eine %s.' % (self.acc, self.d, p, self.ald))
        self.decls = '\n'.join(lines) + '\n\n'

    def bv(self):
        return self.r.choice(self.vals)

    def dv(self):
        return '(%s als %s)' % (self.bv(), self.d)

    def vek(self, kind, name):
        """declaration of a Vektor2 variable instantiated with base / alias / definition / alias of the definition"""
        t = {'base': self.base, 'alias': self.al, 'def': self.d, 'aliasdef': self.ald}[kind]
        v = (self.bv, self.bv, self.dv, self.dv)[('base', 'alias', 'def', 'aliasdef').index(kind)]
        if self.bydefault:
            return 'Der %s-Vektor2 %s ist der Standardwert von einem %s-Vektor2.\n' % (t, name, t)
        return 'Der %s-Vektor2 %s ist Vektor2(%s, %s).\n' % (t, name, v(), v())

    def shuffled(self, *lines):
        lines = list(lines)
        self.r.shuffle(lines)
        return ''.join(lines)


def fam_tdef_ident_assign(r, two):
    t = TD(r, two)
    side = r.choice(['base', 'def'])         # the type of the variable assigned to
    same, other = ('alias', 'def') if side == 'base' else ('aliasdef', r.choice(['base', 'alias']))
    d = structs(two) + t.decls
    pre = t.shuffled(t.vek(side, 'fern'), t.vek(same, 'nah'), t.vek(other, 'fremd'))
    ok = pre + 'Speichere nah in fern.\nSpeichere fern in nah.\nSchreibe "ok" auf eine Zeile.\n'
    bad = pre + 'Speichere fremd in fern.\n'
    return dict(construct='assignment D-Vektor2 / B-Vektor2 with D a type definition of B (%s := %s)' % (side, other), ok=split(two, d, ok), bad=split(two, d, bad), expect='ok\n')


def fam_tdef_ident_param(r, two):
    t = TD(r, two)
    side = r.choice(['base', 'def'])
    same, other = ('alias', 'def') if side == 'base' else ('aliasdef', r.choice(['base', 'alias']))
    pt = t.base if side == 'base' else t.d
    d = structs(two) + t.decls + ('Die %sFunktion nimm mit dem Parameter v vom Typ %s-Vektor2, gibt eine Zahl zurück, macht:\n\tGib 1 zurück.\nUnd kann so benutzt werden:\n\t"nimm <v>"\n\n' % (
        'öffentliche ' if two else '', pt))
    pre = t.shuffled(t.vek(same, 'nah'), t.vek(other, 'fremd'))
    ok = pre + 'Schreibe (nimm nah) auf eine Zeile.\n'
    bad = pre + 'Schreibe (nimm fremd) auf eine Zeile.\n'
    return dict(construct='non-generic parameter %s-Vektor2 given a %s-Vektor2 (type definition vs base)' % (side, other), ok=split(two, d, ok), bad=split(two, d, bad), expect='1\n')


def fam_tdef_ident_list(r, two):
    t = TD(r, two)
    d = structs(two) + t.decls
    pre = t.shuffled(t.vek('base', 'eins'), t.vek('alias', 'nah'), t.vek('def', 'fremd'))
    ok = pre + 'Die %s-Vektor2 Liste beide ist eine Liste, die aus eins, nah besteht.\nSchreibe (die Länge von beide) auf eine Zeile.\n' % t.base
    bad = pre + 'Die %s-Vektor2 Liste beide ist eine Liste, die aus eins, fremd besteht.\n' % t.base
    return dict(construct='list of B-Vektor2 with an element D-Vektor2 (D a type definition of B)', ok=split(two, d, ok), bad=split(two, d, bad), expect='2\n')


def fam_tdef_ident_compare(r, two):
    t = TD(r, two)
    d = structs(two) + t.decls
    pre = t.shuffled(t.vek('base', 'eins'), t.vek('alias', 'nah'), t.vek('def', 'fremd'))
    ok = pre + 'Schreibe (nah ungleich nah ist) auf eine Zeile.\nWenn eins gleich nah ist, dann:\n\tSchreibe "g" auf eine Zeile.\nSonst:\n\tSchreibe "g" auf eine Zeile.\n'
    bad = pre + 'Schreibe (fremd gleich eins ist) auf eine Zeile.\n'
    return dict(construct='comparison D-Vektor2 gleich B-Vektor2 (D a type definition of B)', ok=split(two, d, ok), bad=split(two, d, bad), expect='falsch\ng\n')


def fam_tdef_bind_TT(r, two):
    t = TD(r, two)
    d = t.decls + gfunc(two, 'wähle', [('x', 'T'), ('y', 'T')], 'ein T', ['Gib x zurück.'], 'wähle <x> oder <y>')
    pre = '%s %s al ist %s.\n' % (t.alnom, t.al, t.bv())
    if r.random() < 0.5:
        ok = pre + decl(t.base, 'e', '(wähle %s oder al)' % t.bv()) + 'Schreibe "ok" auf eine Zeile.\n'
        bad = pre + 'wähle %s oder %s.\n' % (t.bv(), t.dv())
    else:
        ok = pre + decl(t.base, 'e', '(wähle al oder %s)' % t.bv()) + 'Schreibe "ok" auf eine Zeile.\n'
        bad = pre + 'wähle %s oder al.\n' % t.dv()
    return dict(construct='f(T, T) called with a type definition and its base', ok=split(two, d, ok), bad=split(two, d, bad), expect='ok\n')


def fam_tdef_bind_struct_arg(r, two):
    t = TD(r, two)
    d = structs(two) + t.decls + gfunc(two, 'setze', [('v', 'T-Vektor2'), ('y', 'T')], 'einen T-Vektor2', ['Gib Vektor2((vx von v), y) zurück.'], 'setze <y> in <v>')
    pre = t.shuffled(t.vek('alias', 'nah'), t.vek('def', 'fremd'), t.vek('base', 'eins'))
    ok = pre + 'Der %s-Vektor2 erg ist setze %s in nah.\nSchreibe "ok" auf eine Zeile.\n' % (t.base, t.bv())
    bad = pre + r.choice(['setze %s in fremd.\n' % t.bv(), 'setze %s in eins.\n' % t.dv(), 'setze %s in nah.\n' % t.dv()])
    return dict(construct='f(T-Vektor2, T) called with a type definition on one side and its base on the other', ok=split(two, d, ok), bad=split(two, d, bad), expect='ok\n')


def fam_tdef_bind_refs(r, two):
    """the demo of the seeded defect: T-Vektor2 Referenz twice"""
    t = TD(r, two)
    d = structs(two) + t.decls + gfunc(two, 'tausche', [('x', 'T-Vektor2 Referenz'), ('y', 'T-Vektor2 Referenz')], 'nichts',
                                       ['Das T tmp ist vx von x.', 'Speichere vx von y in vx von x.', 'Speichere tmp in vx von y.'], 'tausche <x> mit <y>')
    pre = t.shuffled(t.vek('alias', 'nah'), t.vek('def', 'fremd'), t.vek('base', 'eins'))
    ok = pre + 'tausche eins mit nah.\ntausche nah mit eins.\nSchreibe "ok" auf eine Zeile.\n'
    bad = pre + r.choice(['tausche eins mit fremd.\n', 'tausche fremd mit nah.\n'])
    return dict(construct='f(T-Vektor2 Referenz, T-Vektor2 Referenz) called with (B-Vektor2, D-Vektor2), D a type definition of B', ok=split(two, d, ok), bad=split(two, d, bad), expect='ok\n')


def fam_tdef_ident_generic_result(r, two):
    t = TD(r, two)
    d = structs(two) + t.decls + gfunc(two, 'doppel', [('x', 'T')], 'einen T-Vektor2', ['Gib Vektor2(x, x) zurück.'], 'doppel <x>')
    pre = '%s %s al ist %s.\n' % (t.alnom, t.al, t.bv())
    ok = pre + 'Der %s-Vektor2 v ist doppel al.\nDer %s-Vektor2 w ist doppel %s.\nSpeichere v in w.\nSpeichere w in v.\nSchreibe "ok" auf eine Zeile.\n' % (t.base, t.al, t.bv())
    bad = pre + r.choice(['Der %s-Vektor2 v ist doppel %s.\n' % (t.base, t.dv()), 'Der %s-Vektor2 v ist doppel al.\n' % t.d, 'Der %s-Vektor2 v ist doppel %s.\n' % (t.al, t.dv())])
    return dict(construct='f(T):T-Vektor2 with T a type definition used as the instantiation with its base (or the reverse)', ok=split(two, d, ok), bad=split(two, d, bad), expect='ok\n')
