"""C16 Compilation is repeatable: same sources, same verdict, same diagnostics.

Repetition monitor with an order-injection hook. Two observation levels:
  in-process  `ddpprobe repeat`: the real parser.Parse N times in one process (natural randomisation of every
              Go map range) plus once per perturbation seed with verifhook.Order permuting the slice that
              ast.IterateImportedDecls fills from the PublicDecls map (every permutation is a legal map order).
              Compared per run: faulty flag, returned error, panic, the delivered sequence of diagnostics
              (code, level, file, range, message) and the set of call / operator / struct-literal resolutions.
  fresh       K fresh processes of the real `kddp kompiliere` on the same directory (plus 2 with VERIF_PERTURB):
              exit status, stderr and stdout of kddp (only the scratch directory is normalised), and exit status,
              stdout and stderr of the produced executable.  IR and binaries are not compared.
Any difference between two repetitions of one program is a violation."""
import json
import os
import random
import re
import shutil
import time

import vlib
from vlib import Check, Scratch, Probe, ProbeDied, log
from checks import c16_gen as gen

PID = "C16"
HOOK_SITE = "ast.IterateImportedDecls"

# tier -> (generated programs, natural in-process runs, perturbation seeds, programs at the fresh level, fresh natural runs)
BOUNDS = {"quick": (60, 20, 8, 25, 3), "thorough": (800, 50, 40, 200, 5)}
FRESH_PERTURBED = 2


# ------------------------------------------------------------------ materialise

def materialize(root, p):
    d = os.path.join(root, p["name"])
    for rel, content in p["files"].items():
        vlib.write_file(os.path.join(d, rel), content)
    for step in p["prep"]:
        objs = []
        for src in step["src"]:
            o = os.path.join(d, src[:-2] + ".o")
            r = vlib.run(["gcc", "-O1", "-c", os.path.join(d, src), "-o", o], cwd=d)
            if r.rc != 0:
                return d, "gcc failed: " + r.err[-300:]
            objs.append(o)
        r = vlib.run(["ar", "rcs", os.path.join(d, step["lib"])] + objs, cwd=d)
        if r.rc != 0:
            return d, "ar failed: " + r.err[-300:]
        for o in objs:
            os.unlink(o)
    return d, None


# ------------------------------------------------------------------ classification of a difference

MSG_SITES = [
    # (regex on a diagnostic message, site, effect)
    (r"Die Funktion \S+ erwartet einen Wert vom Typ .* für den Parameter", "typechecker.VisitFuncCall args map", "which wrong argument is reported"),
    (r"Die Struktur \S+ erwartet einen Wert vom Typ .* für das Feld", "typechecker.VisitStructLiteral args map", "which wrong field is reported"),
    (r"Der Name '\S+' wurde noch nicht als Variable deklariert", "resolver.VisitFuncCall/VisitStructLiteral args map", "which undefined argument is reported"),
    (r"Der generische Typ \S+ konnte nicht unifiziert werden", "parser struct alias validation genericUnifiedMap", "which type parameter is reported"),
    (r"Der Name '\S+' aus dem Modul '.*' existiert bereits in diesem Modul", "ast.IterateImportedDecls comparator", "which clashing imported name is reported"),
    (r"Der Alias .* steht bereits für die (Funktion|Struktur)", "ast.IterateImportedDecls comparator", "which clashing imported alias is reported"),
    (r"Fehler beim Kompilieren von '.*\.c'", "linker.LinkDDPFiles dependency map", "which faulty extern C file is reported"),
    (r"Fehler beim Linken: exit status", "linker.LinkDDPFiles dependency map", "order of static libraries on the gcc command line"),
]


def _site_of(msg):
    for rx, site, effect in MSG_SITES:
        if re.search(rx, msg):
            return site, effect
    return None, None


def prog_positions(p):
    return "inconsistent" if "inconsistent" in p["positions"].values() else "total"


def import_form(p, file_base=None, line=None):
    """form of the import statement a diagnostic points at (or of all import statements of the main module)"""
    def form(l):
        if re.match(r'\s*Binde "[^"]*" ein\.', l):
            return "whole module"
        if re.match(r"\s*Binde (rekursiv )?alle Module aus", l):
            return "directory"
        if re.match(r"\s*Binde .* aus ", l):
            return "selective"
        return None
    if file_base is not None and line is not None:
        for k, v in p["files"].items():
            if os.path.basename(k) == file_base and isinstance(v, str):
                ls = v.split("\n")
                if 1 <= line <= len(ls) and form(ls[line - 1]):
                    return form(ls[line - 1])
    forms = {form(l) for l in p["files"][p["main"]].split("\n")} - {None}
    return forms.pop() if len(forms) == 1 else "mixed"


def _finish_sig(sig, p, file_base=None, line=None):
    if sig["site"].startswith("ast.IterateImportedDecls"):
        # the comparator can only disagree with itself for declarations on different lines whose columns are reversed,
        # and it is only consulted for imports of whole modules
        sig["positions"] = prog_positions(p)
        sig["import"] = import_form(p, file_base, line)
        if sig["import"] != "whole module":
            sig["site"] = "ast.IterateImportedDecls (%s import, comparator not consulted)" % sig["import"]
    if sig["site"] == "unclassified":
        sig["family"] = p["family"]
    return sig


def _diag_key(d):
    return (d["code"], d["level"], os.path.basename(d["file"]), d["l1"], d["c1"], d["l2"], d["c2"], d["msg"])


def _calls_key(r):
    return sorted(json.dumps(c, sort_keys=True, ensure_ascii=False) for c in (r.get("calls") or []))


def classify_inproc(first, other, p):
    """signature of the difference between two in-process runs of the same sources"""
    v0 = (first.get("faulty"), first.get("err") or "", first.get("panic") or "")
    v1 = (other.get("faulty"), other.get("err") or "", other.get("panic") or "")
    d0 = [_diag_key(d) for d in first.get("diags") or []]
    d1 = [_diag_key(d) for d in other.get("diags") or []]
    if d0 != d1:
        i = 0
        while i < len(d0) and i < len(d1) and d0[i] == d1[i]:
            i += 1
        a = d0[i] if i < len(d0) else None
        b = d1[i] if i < len(d1) else None
        site = effect = None
        if a and b:
            sa, ea = _site_of(a[7])
            sb, eb = _site_of(b[7])
            same_stmt = a[2] == b[2] and a[3] == b[3]
            if sa and sa == sb and (same_stmt or sa.startswith("ast.Iterate")):
                site, effect = sa, ea
        kind = "verdict" if v0[0] != v1[0] else ("diagnostic choice" if len(d0) == len(d1) else "diagnostic sequence")
        return _finish_sig({"kind": kind, "site": site or "unclassified", "effect": effect or "diagnostics differ",
                            "codes": sorted({x[0] for x in (a, b) if x})}, p, a[2] if a else None, a[3] if a else None)
    if v0 != v1:
        return _finish_sig({"kind": "verdict", "site": "unclassified", "effect": "faulty/err/panic differ with equal diagnostics"}, p)
    c0, c1 = _calls_key(first), _calls_key(other)
    if c0 != c1:
        diff = [json.loads(x) for x in c0 if x not in c1] + [json.loads(x) for x in c1 if x not in c0]
        kinds = sorted({c["kind"].split(":")[0] for c in diff})
        others = "\n".join(v for k, v in p["files"].items() if k != p["main"] and isinstance(v, str))
        imported = bool(diff) and all(re.search(r"Funktion %s\b" % re.escape(c.get("name", "?")), others) for c in diff)
        if imported and set(kinds) <= {"binary", "unary", "ternary", "cast"}:
            return _finish_sig({"kind": "call resolution", "site": "ast.IterateImportedDecls comparator",
                                "effect": "which of several fitting imported operator overloads is used"}, p)
        return _finish_sig({"kind": "call resolution", "site": "unclassified", "effect": "resolutions differ: " + ",".join(kinds)}, p)
    return None  # equal after normalisation (hash collision or dump order only)


def norm_text(s, d):
    """only the scratch directory and the names of the C toolchain's temporary files are normalised"""
    s = s.replace(os.path.realpath(d), "<DIR>").replace(d, "<DIR>")
    return re.sub(r"/tmp/cc[A-Za-z0-9]{6}\.[a-z0-9.]+", "<TMPFILE>", s)


def classify_fresh(r0, r1, p, inproc_sig):
    """r = (kddp rc, kddp stderr, kddp stdout, exe record or None)"""
    if r0[:3] == r1[:3]:
        # same compilation outcome, different behaviour of the executable
        if inproc_sig is not None and inproc_sig["kind"] == "call resolution":
            return dict(inproc_sig, kind="behaviour")
        return _finish_sig({"kind": "behaviour", "site": "unclassified", "effect": "executables behave differently"}, p)
    l0 = [l for l in r0[1].splitlines() if l.strip()]
    l1 = [l for l in r1[1].splitlines() if l.strip()]
    only0 = [l for l in l0 if l not in l1]
    only1 = [l for l in l1 if l not in l0]
    kind = "verdict" if (r0[0] == 0) != (r1[0] == 0) else "diagnostic choice"
    sites = set()
    for group in (only0, only1):
        for l in group:
            s, e = _site_of(l)
            if s:
                sites.add((s, e))
    if kind == "verdict":
        # one run linked, the other did not
        bad = r0 if r0[0] != 0 else r1
        if "Fehler beim Linken" in bad[1] and "undefined reference" in bad[1] and p["prep"]:
            return _finish_sig({"kind": "verdict", "site": "linker.LinkDDPFiles dependency map",
                                "effect": "order of static libraries on the gcc command line"}, p)
        return _finish_sig({"kind": "verdict", "site": "unclassified", "effect": "kddp exit status differs"}, p)
    if len(sites) == 1:
        s, e = next(iter(sites))
        sig = _finish_sig({"kind": kind, "site": s, "effect": e}, p)
        if inproc_sig is not None and inproc_sig.get("site", "").startswith("ast.IterateImportedDecls") and s.startswith("ast.IterateImportedDecls"):
            sig["import"], sig["site"] = inproc_sig["import"], inproc_sig["site"]
        return sig
    if only0 and only1 and all("Fehler beim Kompilieren von" in (r[1].splitlines() or [""])[0] for r in (r0, r1)):
        return _finish_sig({"kind": kind, "site": "linker.LinkDDPFiles dependency map", "effect": "which faulty extern C file is reported"}, p)
    return _finish_sig({"kind": kind, "site": "unclassified", "effect": "kddp stderr differs"}, p)


# ------------------------------------------------------------------ the two observation levels

def inproc_case(pr, p, d, n, seeds):
    """returns dict(distinct, digests_nat, digests_pert, first, other, other_tag, sites_nat, sites_pert) or raises ProbeDied"""
    main = os.path.join(d, p["main"])
    a = pr.request({"op": "repeat", "id": p["name"] + "#nat", "file": main, "n": n, "perturb": [], "cpu_sec": 60}, wall_s=300)
    b = pr.request({"op": "repeat", "id": p["name"] + "#pert", "file": main, "n": 0, "perturb": seeds, "cpu_sec": 60}, wall_s=300)
    return a, b


def fresh_once(p, d, perturb=None):
    exe = os.path.join(d, "out_exe")
    for f in (exe, exe + ".o"):
        if os.path.exists(f):
            os.unlink(f)
    env = vlib.base_env({"VERIF_PERTURB": str(perturb)} if perturb is not None else None)
    r = vlib.run([vlib.KDDP, "kompiliere", os.path.join(d, p["main"]), "-o", exe, "-O", "1"], cwd=d, env=env, wall_s=180, cpu_s=120)
    if r.timed_out:
        return None
    exrec = None
    if r.rc == 0 and os.path.exists(exe):
        q = vlib.run_exe(exe, cwd=d)
        if q.timed_out:
            return None
        exrec = (q.rc, norm_text(q.out, d), norm_text(q.err, d))
    elif r.rc == 0:
        exrec = ("no executable",)
    leftovers = tuple(sorted(f for f in os.listdir(d) if f.startswith("ddpextern_")))
    return (r.rc, norm_text(r.err, d), norm_text(r.out, d), exrec, leftovers)


# ------------------------------------------------------------------ run

def _files_dump(p):
    return json.dumps({"program": {k: v for k, v in p.items() if k != "files"}, "files": p["files"]}, indent=1, ensure_ascii=False)


def fam_key(p):
    return "catalogue" if p["family"].startswith("catalogue:") else p["family"].split("(")[0]


BEHAVIOUR_FAMILIES = ("import_big", "diamond_imports", "extern_c", "extern_archives", "alias_ties", "import_overload_ties", "directory_import",
                      "selective_import", "call_args")


def select_fresh(programs, ncat, m):
    """catalogue first, then generated programs round robin over families (deterministic)"""
    sel = [p for p in programs[:ncat] if p["fresh"]]
    byfam = {}
    for p in programs[ncat:]:
        if p["fresh"]:
            byfam.setdefault(fam_key(p), []).append(p)
    fams = sorted(byfam)
    for f in fams:  # one of every family
        if len(sel) < ncat + m and byfam[f]:
            sel.append(byfam[f].pop(0))
    fams = [f for f in fams if f in BEHAVIOUR_FAMILIES]  # the rest goes to families whose programs usually compile and run
    i = 0
    while len(sel) < ncat + m and any(byfam[f] for f in fams):
        f = fams[i % len(fams)]
        if byfam[f]:
            sel.append(byfam[f].pop(0))
        i += 1
    return sel


def check_programs(chk, sc, programs, n_nat, seeds, fresh_sel, k_fresh):
    root = sc.sub("p")
    dirs = {}
    for p, (d, err) in zip(programs, vlib.pmap(lambda q: materialize(root, q), programs)):
        if err:
            log("[C16] preparation of %s failed: %s" % (p["name"], err))
            chk.inconclusive += 1
            continue
        dirs[p["name"]] = d

    log("[C16] materialised at %.1fs" % (time.time() - chk.t0))
    # ---------------- in-process level
    todo = [p for p in programs if p["inproc"] and p["name"] in dirs]
    chunks = [todo[i::vlib.NCPU] for i in range(vlib.NCPU)]

    def work(chunk):
        pr = Probe(sc.path)
        outs = []
        for p in chunk:
            try:
                a, b = inproc_case(pr, p, dirs[p["name"]], n_nat, seeds)
                outs.append((p, a, b, None))
            except ProbeDied as e:
                outs.append((p, None, None, e))
        pr.close()
        return outs

    inproc_sig = {}
    site_nat, site_pert = {}, {}
    for outs in vlib.pmap(work, [c for c in chunks if c]):
        # per worker the site counters are cumulative: take deltas in request order
        last = {}
        for p, a, b, died in outs:
            if died is not None:
                # a crash of the front end is C03's finding; here the program simply could not be observed
                chk.inconclusive += 1
                chk.count("probe_died")
                last = {}
                continue
            if a.get("read_error") or b.get("read_error"):
                chk.inconclusive += 1
                continue
            sa, sb = a.get("sites") or {}, b.get("sites") or {}
            dn = {k: v - last.get(k, 0) for k, v in sa.items()}
            dp = {k: v - sa.get(k, 0) for k, v in sb.items()}
            last = sb
            for k, v in dn.items():
                site_nat[k] = site_nat.get(k, 0) + v
            for k, v in dp.items():
                site_pert[k] = site_pert.get(k, 0) + v
            if dp.get(HOOK_SITE, 0) > 0:
                chk.count("programs_with_perturbed_hook_calls")
            dig_n, dig_p = a["digests"], b["digests"]
            runs = len(dig_n) + len(dig_p)
            chk.count("inprocess_runs", runs)
            chk.count("inprocess_runs_natural", len(dig_n))
            chk.count("inprocess_runs_perturbed", len(dig_p))
            first = a["first"]
            chk.count("programs_faulty" if (first.get("faulty") or first.get("err")) else "programs_accepted")
            chk.count("family:" + fam_key(p))
            chk.note_case(gen.prog_hash(p))
            for dg in first.get("diags") or []:
                chk.count("diagnostics_in_reference_run")
            nat_var = len(set(dig_n)) > 1
            all_var = len(set(dig_n + dig_p)) > 1
            if nat_var:
                chk.count("programs_varying_in_natural_runs")
            elif all_var:
                chk.count("programs_varying_only_under_perturbation")
            if not all_var:
                if p["expect"]:
                    chk.count("aimed_at_a_site_but_repeatable")
                chk.sample({"program": p["name"], "family": p["family"], "runs": runs, "distinct": 1, "faulty": first.get("faulty"),
                            "diagnostics": [d["msg"][:80] for d in (first.get("diags") or [])][:3], "main": p["files"][p["main"]][:300]}, limit=3)
                continue
            # pick a witness pair
            if nat_var:
                other, tag, idx = a["other"], a["other_tag"], a["other_idx"]
            elif dig_p[0] != dig_n[0]:
                other, tag, idx = b["first"], "perturb=%d" % seeds[0], len(dig_n)
            else:
                other, tag, idx = b["other"], b["other_tag"], len(dig_n) + b["other_idx"]
            sig = classify_inproc(first, other, p)
            if sig is None:
                chk.count("digest_differs_but_records_equal")
                continue
            inproc_sig[p["name"]] = sig
            sig = dict(sig, level="in-process")
            detail = ("%s (%s): %d distinct records over %d natural + %d perturbed runs of parser.Parse on identical sources; run 0 vs run %d (%s)\n"
                      "run 0: faulty=%s %s\nrun %d: faulty=%s %s" % (
                          p["name"], p["family"], len(set(dig_n + dig_p)), len(dig_n), len(dig_p), idx, tag,
                          first.get("faulty"), [d["msg"] for d in first.get("diags") or []][:4], idx,
                          other.get("faulty"), [d["msg"] for d in other.get("diags") or []][:4]))
            chk.sample({"program": p["name"], "family": p["family"], "level": "in-process", "runs": runs, "distinct": len(set(dig_n + dig_p)),
                        "differs": "run 0 vs run %d (%s)" % (idx, tag), "signature": sig,
                        "run0": [d["msg"][:90] for d in first.get("diags") or []][:2], "other": [d["msg"][:90] for d in other.get("diags") or []][:2]}, limit=8)
            chk.violation(sig, files={"program.json": _files_dump(p), "digests.json": json.dumps({"natural": dig_n, "perturbed": dig_p, "seeds": seeds}),
                                      "run_first.json": json.dumps(first, indent=1, ensure_ascii=False),
                                      "run_other.json": json.dumps(other, indent=1, ensure_ascii=False)}, text=detail)
            chk.count("violating_programs_inprocess")
    chk.extra["hook_sites"] = {
        "calls_with_>=2_elements_in_natural_runs": site_nat,
        "calls_with_>=2_elements_perturbed": site_pert,
        "note": ("the hook permutes its slice in every perturbed run; it does not record the order it was given, so the number of distinct *internal* "
                 "map orders met in the natural runs cannot be observed without a further (recording) hook - only their effect: see "
                 "programs_varying_in_natural_runs"),
    }

    log("[C16] in-process level done at %.1fs" % (time.time() - chk.t0))
    # ---------------- fresh-process level
    def fresh_work(p):
        d = dirs[p["name"]]
        recs = []
        for i in range(k_fresh):
            recs.append(("natural", fresh_once(p, d)))
        if any(k.endswith(".ddp") and k != p["main"] for k in p["files"]):
            for s in range(1, FRESH_PERTURBED + 1):
                recs.append(("perturb=%d" % s, fresh_once(p, d, perturb=s)))
        return p, recs

    for p, recs in vlib.pmap(fresh_work, [p for p in fresh_sel if p["name"] in dirs]):
        if any(r is None for _, r in recs):
            chk.inconclusive += 1
            continue
        chk.count("fresh_programs")
        chk.count("fresh_kddp_processes", len(recs))
        chk.note_case("fresh:" + gen.prog_hash(p))
        r0 = recs[0][1]
        chk.count("fresh_compiled_and_ran" if r0[0] == 0 else "fresh_rejected")
        if r0[4]:
            chk.count("fresh_leftover_temporaries")
        diff = [(t, r) for t, r in recs[1:] if r[:4] != r0[:4]]
        if not diff:
            chk.sample({"program": p["name"], "family": p["family"], "level": "fresh", "processes": len(recs), "kddp_rc": r0[0],
                        "stderr": r0[1][:200], "exe": list(r0[3]) if r0[3] else None}, limit=10)
            continue
        t1, r1 = diff[0]
        sig = classify_fresh(r0, r1, p, inproc_sig.get(p["name"]))
        sig = dict(sig, level="fresh kddp processes")
        detail = ("%s (%s): %d of %d fresh kddp processes differ from the first one; first vs %s\nfirst: rc=%s exe=%s\n%s\nother: rc=%s exe=%s\n%s" % (
            p["name"], p["family"], len(diff), len(recs), t1, r0[0], r0[3], r0[1][-700:], r1[0], r1[3], r1[1][-700:]))
        chk.violation(sig, files={"program.json": _files_dump(p),
                                  "records.json": json.dumps([{"tag": t, "rc": r[0], "stderr": r[1], "stdout": r[2], "exe": r[3]} for t, r in recs], indent=1, ensure_ascii=False)},
                      text=detail)
        chk.count("violating_programs_fresh")


LINKORDER_DDP = '''Binde "Duden/Ausgabe" ein.
Die Funktion welche gibt eine Zahl zurück,
ist in "liba/x.a" definiert
und kann so benutzt werden:
	"welche"
Die Funktion andere gibt eine Zahl zurück,
ist in "libb/y.a" definiert
und kann so benutzt werden:
	"andere"
Die Funktion dritte gibt eine Zahl zurück,
ist in "libc/z.a" definiert
und kann so benutzt werden:
	"dritte"
Schreibe (welche plus andere plus dritte) auf eine Zeile.
'''


def run_linkorder(chk, sc, n):
    """libraries from several directories: three static libraries in three directories; two of them define the function `welche`
    (in members of their own, so that no duplicate-symbol error arises) with different results. Which definition is linked depends on
    the order of the -L/-l: arguments, so that order has to be the same in every compilation. n fresh kddp processes; the program's
    output must be the same every time."""
    d = os.path.join(sc.path, "linkorder")
    for sub in ("liba", "libb", "libc"):
        os.makedirs(os.path.join(d, sub))
    inc = "-I" + os.path.join(vlib.DDP, "lib", "runtime", "include")
    srcs = {"liba/x1.c": "#include \"DDP/ddptypes.h\"\nddpint welche(void) { return 100; }\n",
            "libb/y1.c": "#include \"DDP/ddptypes.h\"\nddpint welche(void) { return 200; }\n",
            "libb/y2.c": "#include \"DDP/ddptypes.h\"\nddpint andere(void) { return 1; }\n",
            "libc/z1.c": "#include \"DDP/ddptypes.h\"\nddpint welche(void) { return 300; }\n",
            "libc/z2.c": "#include \"DDP/ddptypes.h\"\nddpint dritte(void) { return 2; }\n"}
    for rel, text in srcs.items():
        vlib.write_file(os.path.join(d, rel), text)
        c = vlib.run(["gcc", "-c", inc, "-o", os.path.join(d, rel[:-2] + ".o"), os.path.join(d, rel)])
        if c.rc != 0:
            chk.inconclusive += 1
            return
    for lib, members in (("liba/x.a", ["liba/x1.o"]), ("libb/y.a", ["libb/y1.o", "libb/y2.o"]), ("libc/z.a", ["libc/z1.o", "libc/z2.o"])):
        if vlib.run(["ar", "rcs", os.path.join(d, lib)] + [os.path.join(d, m) for m in members]).rc != 0:
            chk.inconclusive += 1
            return
    main = os.path.join(d, "main.ddp")
    vlib.write_file(main, LINKORDER_DDP)

    def once(i):
        exe = os.path.join(d, "out%d" % i)
        c = vlib.kddp_compile(main, exe)
        if c.timed_out:
            return None
        if c.rc != 0 or not os.path.exists(exe):
            return ("compile-failed", re.sub(r"/\S*/", "", (c.err or c.out).strip().split("\n")[0])[:120])
        r = vlib.run_exe(exe)
        os.unlink(exe)
        return None if r.timed_out else (r.rc, r.out)
    res = vlib.pmap(once, range(n))
    vals = [r for r in res if r is not None]
    chk.inconclusive += len(res) - len(vals)
    chk.evaluations += 1
    chk.distinct.add("linkorder")
    chk.count("linkorder_fresh_compilations", len(vals))
    kinds = {}
    for v in vals:
        kinds[v] = kinds.get(v, 0) + 1
    if len(kinds) > 1:
        chk.violation({"kind": "behaviour of the executable", "site": "linker: libraries of several directories", "effect": "which definition of a symbol is linked", "level": "fresh kddp processes"},
                      files={"main.ddp": LINKORDER_DDP, "sources.json": json.dumps(srcs, indent=1), "observed.json": json.dumps({str(k): v for k, v in kinds.items()}, indent=1)},
                      text="%d compilations of one program: %s" % (len(vals), kinds))


def run(tier):
    vlib.ensure_build(asan=False)
    chk = Check(PID, tier)
    n_gen, n_nat, n_seeds, m_fresh, k_fresh = BOUNDS[tier]
    rnd = random.Random(chk.seed * 1000003 + 16)
    cat = gen.catalogue()
    programs = cat + gen.generate(rnd, n_gen)
    seeds = [chk.seed * 1000 + i + 1 for i in range(n_seeds)]
    fresh_sel = select_fresh(programs, len(cat), m_fresh)
    chk.rule = ("programs = fixed catalogue of minimal programs (one per order-dependent site plus controls) + generated programs by (VERIF_SEED, tier) in 20 families "
                "(imported modules with 9-18 public declarations laid out one per line / several per line / indented, name and alias clashes on import, "
                "selective and directory imports, imported operator overloads with ties, calls and struct literals with >=2 wrong or undefined arguments, "
                "controls with exactly one, alias populations with ties, diamond import graphs, >=3 extern C files, interdependent static libraries). "
                "In-process: %d natural + %d hook-perturbed runs of parser.Parse per program, records compared = faulty flag, error value, panic, sequence of "
                "diagnostics (code, level, file, range, message), set of call/operator/struct resolutions. Fresh: %d kddp processes (+%d with VERIF_PERTURB for programs "
                "with imports) on %d programs: exit status, stderr, stdout, and exit status/stdout/stderr of the executable. "
                "Distinct = distinct program texts per level; a violation is any two unequal records of one program." % (
                    n_nat, n_seeds, k_fresh, FRESH_PERTURBED, len(fresh_sel)))
    chk.assumptions = [
        "repetitions at the fresh level run one after the other in the program's own directory (kddp writes ddpextern_*.o next to the sources; concurrent runs in one directory race, which is not what C16 states)",
        "only the absolute scratch directory is normalised in compared text; LOCPATH points at the de_DE.UTF-8 shim",
        "IR text, object files and executables are not compared, only the behaviour of the executable",
        "the perturbation hook exists at one site (ast.IterateImportedDecls); the orders of callExpr.Args, StructLiteral.Args, genericUnifiedMap, "
        "compiler.importedModules, ll_modules and linker dependencies are only sampled by Go's natural randomisation",
        "a front-end crash (probe death) makes the program inconclusive here; it is C03's finding",
    ]
    with Scratch("c16") as sc:
        check_programs(chk, sc, programs, n_nat, seeds, fresh_sel, k_fresh)
        run_linkorder(chk, sc, 48 if tier == "quick" else 160)
    chk.extra["bounds"] = {"programs": len(programs), "catalogue": len(cat), "natural_runs": n_nat, "perturbation_seeds": n_seeds,
                           "fresh_programs": len(fresh_sel), "fresh_processes_per_program": "%d natural + %d perturbed (programs with imports)" % (k_fresh, FRESH_PERTURBED)}
    return chk.finish(min_events=len(programs) // 2)


def replay(path):
    """re-run one replay directory (both levels, thorough repetition counts)"""
    vlib.ensure_build(asan=False)
    if os.path.exists(os.path.join(path, "sources.json")):      # the link-order scenario
        os.environ["VERIF_REPLAYING"] = "1"
        chk = Check(PID, "replay")
        with Scratch("c16r") as sc:
            run_linkorder(chk, sc, 160)
        if chk.violations:
            print("VIOLATION property=%s replay=%s" % (PID, path))
        return 1 if chk.violations else 0
    data = json.load(open(os.path.join(path, "program.json")))
    p = data["program"]
    p["files"] = data["files"]
    chk = Check(PID, "replay")
    _, n_nat, n_seeds, _, k_fresh = BOUNDS["thorough"]
    with Scratch("c16r") as sc:
        check_programs(chk, sc, [p], n_nat, list(range(1, n_seeds + 1)), [p] if p["fresh"] else [], k_fresh)
    for sig, d in chk.violations:
        log("  still differs:", json.dumps(sig, ensure_ascii=False))
    if chk.known_hits:
        log("  matched known findings:", chk.known_hits)
    return 1 if (chk.violations or chk.known_hits) else 0
