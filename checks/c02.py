"""C02 Every program the frontend accepts is compiled completely.
Outcome monitor over an exhaustively enumerated finite space: every unary/binary/ternary/cast operator applied
to every tuple of operand type classes, with operands as variables and as temporaries, in several value
contexts. Each cell is one small function. The real front end (ddpprobe) decides which cells are accepted;
a program assembled from accepted cells only, for which the front end reports no error, must be compiled
and linked by the real kddp (exit 0, no 'Unerwarteter Fehler', no IR that LLVM rejects); the textual IR kddp emits for the
same program must also pass llvm-as (LLVM's parser + verifier; kddp itself never runs the verifier)."""
import itertools
import json
import os
import random
import re

import vlib
from vlib import Check, Scratch, Probe, ProbeDied

PID = "C02"

# type classes: name -> (declaration name, gender)
TYPES = {
    "Zahl": "f", "Kommazahl": "f", "Byte": "m", "Wahrheitswert": "m", "Buchstabe": "m", "Text": "m",
    "Zahlen Liste": "f", "Kommazahlen Liste": "f", "Byte Liste": "f", "Wahrheitswert Liste": "f", "Buchstaben Liste": "f", "Text Liste": "f",
    "Punkt": "m", "Punkt Liste": "f", "Variable": "f", "Variablen Liste": "f",
    "Nummer": "f",        # alias of Zahl
    "Wort": "n",          # alias of Text
    "Hausnummer": "f",    # definition of Zahl
    "Titel": "m",         # definition of Text
    "Ort": "m",           # definition of Punkt
    "Nummer Liste": "f",
    "Reihe": "f",         # definition of Zahlen Liste
    "Zeichen": "n",       # alias of Buchstabe
}
ART = {"m": "Der", "f": "Die", "n": "Das"}
DAT = {"m": "einem", "f": "einer", "n": "einem"}
AKK = {"m": "einen", "f": "eine", "n": "ein"}


def ident(t):
    return t.replace(" ", "_")


PRELUDE = '''Wir nennen die Kombination aus
	der Zahl x mit Standardwert 0,
	dem Text name mit Standardwert "p",
einen Punkt, und erstellen sie so:
	"Standard_Punkt"
Wir nennen eine Zahl auch eine Nummer.
Wir nennen einen Text auch ein Wort.
Wir definieren eine Hausnummer als eine Zahl.
Wir definieren einen Titel als einen Text.
Wir definieren einen Ort als einen Punkt.
Wir definieren eine Reihe als eine Zahlen Liste.
Wir nennen einen Buchstaben auch ein Zeichen.
Die generische Funktion nimm mit dem Parameter a vom Typ T, gibt nichts zurück, macht:
	Das T kopie ist a.
Und kann so benutzt werden:
	"nimm <a>"
'''


def prelude():
    out = [PRELUDE]
    for t, g in TYPES.items():
        akk = "einen Buchstaben" if t == "Buchstabe" else "%s %s" % (AKK[g], t)
        out.append("%s %s v_%s ist der Standardwert von %s %s." % (ART[g], t, ident(t), DAT[g], t))
        out.append("Die Funktion t_%s gibt %s zurück, macht:\n\tGib der Standardwert von %s %s zurück.\nUnd kann so benutzt werden:\n\t\"mach_%s\"" % (
            ident(t), akk, DAT[g], t, ident(t)))
    return "\n".join(out) + "\n"


UNARY = {"neg": "-%s", "betrag": "der Betrag von %s", "nicht": "nicht %s", "lnicht": "logisch nicht %s", "laenge": "die Länge von %s"}
BINARY = {
    "plus": "%s plus %s", "minus": "%s minus %s", "mal": "%s mal %s", "durch": "%s durch %s", "modulo": "%s modulo %s", "hoch": "%s hoch %s",
    "wurzel": "die %s. Wurzel von %s", "log": "der Logarithmus von %s zur Basis %s", "und": "%s und %s", "oder": "%s oder %s", "xor": "entweder %s, oder %s",
    "lund": "%s logisch und %s", "loder": "%s logisch oder %s", "lkontra": "%s logisch kontra %s", "links": "%s um %s Bit nach links verschoben",
    "rechts": "%s um %s Bit nach rechts verschoben", "gleich": "%s gleich %s ist", "ungleich": "%s ungleich %s ist", "kleiner": "%s kleiner als %s ist",
    "groesser": "%s größer als %s ist", "kleinergleich": "%s kleiner als, oder %s ist", "groessergleich": "%s größer als, oder %s ist",
    "verkettet": "%s verkettet mit %s", "index": "%s an der Stelle %s", "ab": "%s ab dem %s. Element", "biszum": "%s bis zum %s. Element",
}
TERNARY = {"slice": "%s im Bereich von %s bis %s", "zwischen": "%s zwischen %s und %s ist", "falls": "%s, falls %s, ansonsten %s"}
TERNARY_OUTER = ["Zahl", "Kommazahl", "Byte", "Wahrheitswert", "Text", "Zahlen Liste", "Text Liste", "Punkt", "Variable", "Nummer", "Hausnummer", "Buchstabe"]

# value contexts: template with %s = expression; each is wrapped into its own function
CONTEXTS = {
    "var_init": "Die Variable r ist (%s).",
    "var_assign": "Die Variable r ist 0 als Variable.\n\tSpeichere (%s) in r.",
    "generic_arg": "nimm (%s).",
    "init_Zahl": "Die Zahl r ist (%s).",
    "init_Kommazahl": "Die Kommazahl r ist (%s).",
    "init_Byte": "Der Byte r ist (%s).",
    "init_Text": "Der Text r ist (%s).",
    "init_Wahrheitswert": "Der Wahrheitswert r ist (%s).",
    "condition": "Wenn (%s), dann:\n\t\tnimm 1.",
    "list_element": "Die Variable r ist (eine Liste, die aus (%s), (%s) besteht) als Variable.",
    "discard": "(%s).",
    "als_Text": "Der Text r ist ((%s) als Text).",
}
RETURN_TYPES = ["Zahl", "Kommazahl", "Byte", "Text", "Wahrheitswert", "Variable", "Zahlen Liste", "Text Liste"]


LIST_OF = {"Zahl": "Zahlen Liste", "Kommazahl": "Kommazahlen Liste", "Byte": "Byte Liste", "Wahrheitswert": "Wahrheitswert Liste", "Buchstabe": "Buchstaben Liste",
           "Text": "Text Liste", "Punkt": "Punkt Liste", "Variable": "Variablen Liste", "Nummer": "Nummer Liste"}
COMPLEX_FORMS = ["elem", "unbox", "falls", "sc"]


def operand(t, form):
    """operand of type class t. var: a variable; temp: a function result (temporary); the other forms are operands whose evaluation itself
    spans several basic blocks of generated code (bounds check of a list element, type check of a Variable conversion, a nested 'falls',
    a short-circuit operator / 'der Betrag von'): the enclosing operator must then join control flow that its operand opened"""
    if form == "var":
        return "v_" + ident(t)
    if form == "temp":
        return "(mach_" + ident(t) + ")"
    if form == "sc":
        if t == "Wahrheitswert":
            return "(v_Wahrheitswert oder (mach_Wahrheitswert))"
        if t == "Zahl":
            return "(der Betrag von v_Zahl)"
        form = "falls"
    if form == "elem":
        if t in LIST_OF:
            return "(v_%s an der Stelle 1)" % ident(LIST_OF[t])
        form = "unbox"
    if form == "unbox":
        return "(v_Variable als %s)" % t
    if form == "falls":
        return "(v_%s, falls v_Wahrheitswert, ansonsten (mach_%s))" % (ident(t), ident(t))
    raise ValueError(form)


def enumerate_cells(tier, rnd):
    """yields (cell id tuple, expression text)"""
    forms = ["var"] if tier == "quick" else ["var", "temp"]
    tl = list(TYPES)
    cells = []
    for op, tpl in UNARY.items():
        for t in tl:
            for f in forms:
                cells.append((("un", op, t, f), tpl % operand(t, f)))
    for op, tpl in BINARY.items():
        for a in tl:
            for b in tl:
                for f in forms:
                    fa, fb = (f, f) if f == "var" else rnd.choice([("temp", "temp"), ("var", "temp"), ("temp", "var")])
                    cells.append((("bin", op, a, b, fa + "/" + fb), tpl % (operand(a, fa), operand(b, fb))))
    for op, tpl in TERNARY.items():
        outer = TERNARY_OUTER
        for a in (tl if tier == "thorough" else outer):
            for b in outer:
                for c in outer:
                    if op == "falls" and a != c and tier == "quick":
                        continue
                    f = rnd.choice(forms)
                    cells.append((("ter", op, a, b, c, f), tpl % (operand(a, f), operand(b, f), operand(c, f))))
    for a in tl:
        for b in tl:
            for f in forms:
                cells.append((("cast", a, b, f), "%s als %s" % (operand(a, f), b)))
    # operands that span several basic blocks, one operand slot at a time (the other slots hold variables)
    common = TERNARY_OUTER
    cx = []
    for op, tpl in UNARY.items():
        for t in tl:
            for f in COMPLEX_FORMS:
                cx.append((("un", op, t, f), tpl % operand(t, f)))
    for op, tpl in BINARY.items():
        for a in (tl if tier == "thorough" else common):
            for b in (tl if tier == "thorough" else common):
                for slot in (0, 1):
                    for f in (COMPLEX_FORMS if tier == "thorough" else [rnd.choice(COMPLEX_FORMS)]):
                        fa, fb = (f, "var") if slot == 0 else ("var", f)
                        cx.append((("bin", op, a, b, fa + "/" + fb), tpl % (operand(a, fa), operand(b, fb))))
    for op, tpl in TERNARY.items():
        for a in common:
            for b in common:
                for c in common:
                    if op == "falls" and a != c and tier == "quick":
                        continue
                    if op != "falls" and tier == "quick" and rnd.random() > 0.25:
                        continue
                    for slot in (0, 1, 2):
                        for f in (COMPLEX_FORMS if (tier == "thorough" or op == "falls") else [rnd.choice(COMPLEX_FORMS)]):
                            fs = ["var", "var", "var"]
                            fs[slot] = f
                            cx.append((("ter", op, a, b, c, "/".join(fs)), tpl % (operand(a, fs[0]), operand(b, fs[1]), operand(c, fs[2]))))
    for a in common:
        for b in tl:
            for f in COMPLEX_FORMS:
                cx.append((("cast", a, b, f), "%s als %s" % (operand(a, f), b)))
    return cells + cx


JEDE = {"m": "jeden", "f": "jede", "n": "jedes"}
FIELD_DAT = {"m": "dem", "f": "der", "n": "dem"}
NUM5 = ["Zahl", "Kommazahl", "Byte", "Nummer", "Hausnummer"]
LITERALS = {"Zahl": "7", "Kommazahl": "1,5", "Byte": "(5 als Byte)", "Wahrheitswert": "wahr", "Buchstabe": "'a'", "Text": '"t"',
            "Zahlen Liste": "eine leere Zahlen Liste", "Text Liste": "eine leere Text Liste", "Nummer": "3", "Wort": '"w"'}
REF_NAMES = {"Zahl": "Zahlen Referenz", "Kommazahl": "Kommazahlen Referenz", "Byte": "Byte Referenz", "Wahrheitswert": "Wahrheitswert Referenz",
             "Buchstabe": "Buchstaben Referenz", "Text": "Text Referenz", "Zahlen Liste": "Zahlen Listen Referenz", "Text Liste": "Text Listen Referenz",
             "Punkt": "Punkt Referenz", "Variable": "Variablen Referenz", "Zeichen": "Zeichen Referenz", "Nummer": "Nummer Referenz", "Wort": "Wort Referenz",
             "Hausnummer": "Hausnummer Referenz", "Titel": "Titel Referenz"}


def akk_of(t):
    return "einen Buchstaben" if t == "Buchstabe" else "%s %s" % (AKK[TYPES[t]], t)


def enumerate_stmt_cells(tier, rnd):
    """statement-level cells: places where a STATEMENT (not an operator) consumes a value of some type class and the code generator
    has a lowering of its own: repeat counts, counting-loop counter/bounds/step, for-each collections and element types, loop conditions,
    compound assignments, plain assignments (variable, list element, field), declarations, returned values, by-value and Referenz
    arguments, default values of Kombination fields. Each cell is (id, text); text is a whole top-level fragment, %K% = unique number."""
    tl = list(TYPES)
    lists = [t for t in tl if t.endswith("Liste")]
    cells = []

    def fn(body, top=""):
        return top + "Die Funktion c%K% gibt nichts zurück, macht:\n\t" + body + "\nUnd kann so benutzt werden:\n\t\"c%K%\""
    for t in tl:
        cells.append((("stmt", "repeat-block", t), fn("Wiederhole:\n\t\tnimm 1.\n\tv_%s Mal." % ident(t))))
        cells.append((("stmt", "repeat-line", t), fn("nimm 1 v_%s Mal." % ident(t))))
        cells.append((("stmt", "while", t), fn("Solange v_%s, mache:\n\t\tVerlasse die Schleife." % ident(t))))
        cells.append((("stmt", "do-while", t), fn("Mache:\n\t\tVerlasse die Schleife.\n\tSolange v_%s." % ident(t))))
        cells.append((("stmt", "if", t), fn("Wenn v_%s, dann:\n\t\tnimm 1.\n\tSonst:\n\t\tnimm 2." % ident(t))))
        cells.append((("stmt", "negiere", t), fn("Negiere v_%s." % ident(t))))
    for ct in NUM5:
        for a in NUM5:
            for b in NUM5:
                for c in [None] + NUM5:
                    if tier == "quick" and c is not None and rnd.random() > 0.4:
                        continue
                    step = "" if c is None else " mit Schrittgröße v_%s" % ident(c)
                    cells.append((("stmt", "for", ct, a, b, c or "-"), fn("Für %s %s i%%K%% von v_%s bis v_%s%s, mache:\n\t\tnimm i%%K%%." % (
                        JEDE[TYPES[ct]], ct, ident(a), ident(b), step))))
    for et in tl:
        for coll in lists + ["Text", "Wort", "Titel"]:
            cells.append((("stmt", "foreach", et, coll), fn("Für %s %s e%%K%% in v_%s, mache:\n\t\tnimm e%%K%%." % (
                JEDE[TYPES[et]], "Buchstaben" if et == "Buchstabe" else et, ident(coll)))))
    for a in tl:
        for b in tl:
            va, vb = "v_" + ident(a), "v_" + ident(b)
            cells.append((("stmt", "assign", a, b), fn("Speichere %s in %s." % (vb, va))))
            cells.append((("stmt", "decl", a, b), fn("%s %s r ist %s." % (ART[TYPES[a]], a, vb))))
            cells.append((("stmt", "return", a, b), "Die Funktion c%%K%% gibt %s zurück, macht:\n\tGib %s zurück.\nUnd kann so benutzt werden:\n\t\"c%%K%%\"" % (akk_of(a), vb)))
            cells.append((("stmt", "arg", a, b), fn("p%%K%% %s." % vb, top="Die Funktion p%%K%% mit dem Parameter a vom Typ %s, gibt nichts zurück, macht:\n\tnimm 1.\n"
                                                     "Und kann so benutzt werden:\n\t\"p%%K%% <a>\"\n" % a)))
            if a in REF_NAMES:
                cells.append((("stmt", "refarg", a, b), fn("q%%K%% %s." % vb, top="Die Funktion q%%K%% mit dem Parameter a vom Typ %s, gibt nichts zurück, macht:\n\tnimm 1.\n"
                                                            "Und kann so benutzt werden:\n\t\"q%%K%% <a>\"\n" % REF_NAMES[a])))
            for nm, tpl in (("erhoehe", "Erhöhe %s um %s."), ("verringere", "Verringere %s um %s."), ("vervielfache", "Vervielfache %s um %s."),
                            ("teile", "Teile %s durch %s."), ("verschiebe-links", "Verschiebe %s um %s Bit nach Links."), ("verschiebe-rechts", "Verschiebe %s um %s Bit nach Rechts.")):
                cells.append((("stmt", nm, a, b), fn(tpl % (va, vb))))
                if a in lists:
                    cells.append((("stmt", nm + "-elem", a, b), fn(tpl % ("%s an der Stelle 1" % va, vb))))
            if a in lists:
                cells.append((("stmt", "assign-elem", a, b), fn("Speichere %s in %s an der Stelle 1." % (vb, va))))
            for src_kind, val in (("var", vb), ("lit", LITERALS.get(b))):
                if val is None:
                    continue
                top = ("Wir nennen die Kombination aus\n\t%s %s f mit Standardwert %s,\neinen K%%K%%, und erstellen sie so:\n\t\"mache K%%K%%\"\n" % (
                    FIELD_DAT[TYPES[a]], a, val))
                cells.append((("stmt", "field-default-" + src_kind, a, b), fn("Der K%K% k ist der Standardwert von einem K%K%.\n\tnimm (f von k).", top=top)))
    # Referenz parameters bound to PARTS of values: a character of a Text, an element of a list, a field of a Kombination
    parts = [("text-char", "(v_Text an der Stelle 1)"), ("wort-char", "(v_Wort an der Stelle 1)"), ("field-x", "(x von v_Punkt)"), ("field-name", "(name von v_Punkt)")] + \
            [("elem:" + l, "(v_%s an der Stelle 1)" % ident(l)) for l in lists]
    for a in REF_NAMES:
        for pn, pexpr in parts:
            cells.append((("stmt", "refarg-part", a, pn), fn("q%%K%% %s." % pexpr, top="Die Funktion q%%K%% mit dem Parameter a vom Typ %s, gibt nichts zurück, macht:\n\tnimm 1.\n"
                                                              "Und kann so benutzt werden:\n\t\"q%%K%% <a>\"\n" % REF_NAMES[a])))
    for b in tl:
        cells.append((("stmt", "assign-field", "Punkt.x", b), fn("Speichere v_%s in x von v_Punkt." % ident(b))))
        cells.append((("stmt", "assign-field", "Punkt.name", b), fn("Speichere v_%s in name von v_Punkt." % ident(b))))
        cells.append((("stmt", "assign-char", "Text", b), fn("Speichere v_%s in v_Text an der Stelle 1." % ident(b))))
    return cells


def cell_function(k, ctx, expr):
    if ctx == "stmt":
        return expr.replace("%K%", str(k))
    if ctx.startswith("return_"):
        rt = ctx[len("return_"):]
        g = TYPES[rt]
        akk = "%s %s" % (AKK[g], rt)
        return "Die Funktion c%d gibt %s zurück, macht:\n\tGib (%s) zurück.\nUnd kann so benutzt werden:\n\t\"c%d\"" % (k, akk, expr, k)
    tpl = CONTEXTS[ctx]
    body = tpl % ((expr,) * tpl.count("%s"))
    return "Die Funktion c%d gibt nichts zurück, macht:\n\t%s\nUnd kann so benutzt werden:\n\t\"c%d\"" % (k, body, k)


def assemble(pre, funcs):
    """returns (source, line ranges per function index)"""
    lines = pre.rstrip("\n").split("\n")
    ranges = []
    for f in funcs:
        fl = f.split("\n")
        ranges.append((len(lines) + 1, len(lines) + len(fl)))
        lines += fl
    # call every cell once so the code is not dead
    return "\n".join(lines) + "\n", ranges


def run(tier):
    vlib.ensure_build(asan=False)
    chk = Check(PID, tier)
    rnd = random.Random("%d/%s" % (chk.seed, PID))
    cells = enumerate_cells(tier, rnd)
    ctxs = ["var_init", "generic_arg", "init_Zahl", "init_Text", "condition", "als_Text"] if tier == "quick" else list(CONTEXTS) + ["return_" + r for r in RETURN_TYPES]
    pre = prelude()
    chk.rule = ("exhaustive: %d unary x %d binary x %d ternary operators and casts over %d operand type classes (primitives, their lists, Kombination, list of "
                "Kombination, Variable, list of Variable, alias of Zahl and of Text, definition of Zahl, of Text and of a Kombination, list of alias); operands as "
                "variables%s, and - one operand slot at a time - as operands that span several basic blocks (list element, Variable conversion, nested falls, short-circuit/Betrag); each in the value contexts %s. A cell is distinct by (operator, operand classes, operand form, context); non-trivial = accepted by the "
                "front end (then it must compile). Statement-level cells as well: repeat counts, counting-loop counter x from x to x step types, for-each element x collection, loop/if conditions, plain and "
                "compound assignments (variable, list element, field, character), declarations, returned values, by-value and Referenz arguments, default values of Kombination fields, each over all "
                "type classes. Oracle: only outcomes of the real tools." % (len(UNARY), len(BINARY), len(TERNARY), len(TYPES),
                                                                                             "" if tier == "quick" else " and as temporaries (function results)", ctxs))
    chk.assumptions = ["no model of typing: the front end's own verdict selects the cells", "regex/compression libraries are absent (stub archives) - no cell uses them"]
    work_items = [(cid, expr, ctx) for (cid, expr) in cells for ctx in ctxs]
    stmt_items = [(cid, text, "stmt") for cid, text in enumerate_stmt_cells(tier, rnd)]
    if tier == "quick":
        # quick keeps every unary/cast cell and every binary cell in two contexts, samples the rest
        def is_cx(w):
            return any(f in COMPLEX_FORMS for f in w[0][-1].split("/"))
        keepf = lambda w: (w[2] == "var_init") if is_cx(w) else (w[0][0] in ("un", "cast") or w[2] in ("var_init", "init_Zahl"))
        keep = [w for w in work_items if keepf(w)]
        rest = [w for w in work_items if not keepf(w)]
        rnd.shuffle(rest)
        work_items = keep + rest[:6000]
    work_items += stmt_items
    chk.count("cells_enumerated", len(work_items))
    BATCH = 400
    batches = [work_items[i:i + BATCH] for i in range(0, len(work_items), BATCH)]
    with Scratch("c02") as sc:
        # phase 1: front-end verdict per cell
        def phase1(args):
            bi, batch = args
            pr = Probe(sc.path)
            funcs = [cell_function(k, ctx, expr) for k, (cid, expr, ctx) in enumerate(batch)]
            src, ranges = assemble(pre, funcs)
            d = os.path.join(sc.path, "b%d" % bi)
            os.makedirs(d)
            sp = os.path.join(d, "all.ddp")
            open(sp, "w").write(src)
            try:
                r = pr.request({"op": "repeat", "id": "b%d" % bi, "file": sp, "n": 1}, wall_s=600)
                first = r["first"]
            except ProbeDied as e:
                pr.close()
                return bi, batch, None, "died: " + vlib.classify_death(e.stderr_tail)[0]
            pr.close()
            if first.get("panic"):
                return bi, batch, None, "panic: " + first["panic"][:100]
            bad_lines = sorted({d_["l1"] for d_ in first["diags"] if d_["level"] == 2})
            rejected = set()
            for ln in bad_lines:
                for k, (a, b) in enumerate(ranges):
                    if a <= ln <= b:
                        rejected.add(k)
                if ln <= ranges[0][0] - 1:
                    return bi, batch, None, "diagnostic in prelude line %d: %s" % (ln, [d_["msg"] for d_ in first["diags"] if d_["l1"] == ln][:1])
            accepted = [k for k in range(len(batch)) if k not in rejected]
            return bi, batch, accepted, None

        p1 = vlib.pmap(phase1, list(enumerate(batches)))
        accepted_cells = []
        for bi, batch, accepted, problem in p1:
            if problem:
                if problem.startswith("diagnostic in prelude"):
                    raise RuntimeError("C02 prelude rejected by the front end: " + problem)
                chk.count("batches_with_frontend_crash(C03)")
                continue
            for k in accepted:
                accepted_cells.append(batch[k])
            chk.count("cells_rejected_by_frontend", len(batch) - len(accepted))
        chk.count("cells_accepted_by_frontend", len(accepted_cells))

        # phase 2: assembled programs of accepted cells only: front end must report nothing, kddp must compile and link
        CB = 60
        groups = [accepted_cells[i:i + CB] for i in range(0, len(accepted_cells), CB)]

        def compile_group(tag, group):
            funcs = [cell_function(k, ctx, expr) for k, (cid, expr, ctx) in enumerate(group)]
            src, ranges = assemble(pre, funcs)
            d = os.path.join(sc.path, "g_" + tag)
            os.makedirs(d, exist_ok=True)
            sp = os.path.join(d, "m.ddp")
            open(sp, "w").write(src)
            exe = os.path.join(d, "m")
            c = vlib.kddp_compile(sp, exe, O=1)
            ok = c.rc == 0 and os.path.exists(exe)
            if ok:
                os.unlink(exe)
                # second reading of "IR that LLVM rejects": kddp does not run LLVM's verifier, and the back end sometimes survives
                # ill-formed IR (a phi naming a block that is no predecessor). The emitted textual IR must pass llvm-as (parser + verifier).
                ll = os.path.join(d, "m.ll")
                c2 = vlib.kddp_compile(sp, ll, O=1)
                if not c2.timed_out and c2.rc == 0 and os.path.exists(ll):
                    v = vlib.run(["llvm-as-14", "-o", "/dev/null", ll], wall_s=120)
                    os.unlink(ll)
                    if not v.timed_out and v.rc != 0:
                        first = re.sub(r"0x[0-9a-f]+|%\w+|\d+", "N", (v.err.strip().split("\n") or [""])[0])[:100]
                        return False, vlib.Proc(1, "", "Fehler beim Parsen (llvm-as): could not parse llvm ir: " + first + "\n" + v.err[:2000], False), src
                    chk.count("ir_modules_verified_by_llvm_as")
            return ok, c, src

        def phase2(args):
            gi, group = args
            pr = Probe(sc.path)
            found = []  # (cell, class, stderr, src)
            def rec(tag, grp, depth):
                ok, c, src = compile_group(tag, grp)
                if c.timed_out:
                    return [("inconclusive", None, None, None)]
                if ok:
                    return []
                from ddpmodel.runner import compile_class
                cls = compile_class(c.err)
                if cls.startswith("diagnostic"):
                    # the front end inside kddp rejects the assembled program: misattribution in phase 1, not a C02 event
                    if len(grp) == 1:
                        return [("frontend-rejects", grp[0], cls, None)]
                if len(grp) == 1:
                    return [("fail", grp[0], cls, (c.err[-3000:], src))]
                if depth > 8:
                    return [("fail-group", grp[0], cls, (c.err[-3000:], src))]
                mid = len(grp) // 2
                return rec(tag + "a", grp[:mid], depth + 1) + rec(tag + "b", grp[mid:], depth + 1)
            res = rec("%d" % gi, group, 0)
            pr.close()
            return group, res

        fails_by_class = {}
        for group, res in vlib.pmap(phase2, list(enumerate(groups))):
            failing = set()
            for kind, cell, cls, extra in res:
                if kind == "inconclusive":
                    chk.inconclusive += 1
                elif kind == "frontend-rejects":
                    chk.count("cells_rejected_only_in_isolation")
                    failing.add(cell[0] + (cell[2],))
                else:
                    failing.add(cell[0] + (cell[2],))
                    cid, expr, ctx = cell
                    opsig = "%s:%s" % (cid[0], cid[1]) if cid[0] != "cast" else "cast"
                    operands = ",".join(cid[2:-1]) if cid[0] != "cast" else "%s->%s" % (cid[1], cid[2])
                    if cid[0] == "stmt":
                        operands = ",".join(cid[2:])
                    sig = {"kind": "accepted by the front end but not compiled", "class": cls, "operator": opsig, "operands": operands, "context": ctx}
                    err, src = extra
                    fails_by_class.setdefault((cls, opsig), 0)
                    fails_by_class[(cls, opsig)] += 1
                    chk.violation(sig, files={"m.ddp": src, "kddp_stderr.txt": err, "cell.json": json.dumps({"cell": cid, "expr": expr, "context": ctx}, ensure_ascii=False)},
                                  text="cell %s in context %s: %s" % (cid, ctx, cls))
            for cid, expr, ctx in group:
                key = cid + (ctx,)
                chk.note_case(key, nontrivial=True)
                if key not in failing:
                    chk.count("cells_compiled_and_linked")
        some = accepted_cells[:3]
        for cid, expr, ctx in some:
            chk.sample({"cell": list(cid), "context": ctx, "function": cell_function(0, ctx, expr)})
        chk.extra["exhaustive"] = tier == "thorough"
        chk.extra["failure_classes"] = {"%s | %s" % k: v for k, v in fails_by_class.items()}
    return chk.finish(min_events=100)


def replay(path):
    vlib.ensure_build(asan=False)
    with Scratch("c02r") as sc:
        sp = os.path.join(sc.path, "m.ddp")
        open(sp, "w").write(open(os.path.join(path, "m.ddp")).read())
        c = vlib.kddp_compile(sp, os.path.join(sc.path, "m"))
        if c.rc != 0:
            from ddpmodel.runner import compile_class
            if not compile_class(c.err).startswith("diagnostic"):
                print("VIOLATION property=%s replay=%s" % (PID, path))
                return 1
    return 0
