"""C02 Every program the frontend accepts is compiled completely.
Outcome monitor over an exhaustively enumerated finite space: every unary/binary/ternary/cast operator applied
to every tuple of operand type classes, with operands as variables and as temporaries, in several value
contexts. Each cell is one small function. The real front end (ddpprobe) decides which cells are accepted;
a program assembled from accepted cells only, for which the front end reports no error, must be compiled
and linked by the real kddp (exit 0, no 'Unerwarteter Fehler', no IR that LLVM rejects)."""
import itertools
import json
import os
import random
import re

import vlib
from vlib import Check, Scratch, Probe, ProbeDied

PID = "C02"

# type classes: name -> (declaration name, gender)
TYPES = {
    "Zahl": "f", "Kommazahl": "f", "Byte": "m", "Wahrheitswert": "m", "Buchstabe": "m", "Text": "m",
    "Zahlen Liste": "f", "Kommazahlen Liste": "f", "Byte Liste": "f", "Wahrheitswert Liste": "f", "Buchstaben Liste": "f", "Text Liste": "f",
    "Punkt": "m", "Punkt Liste": "f", "Variable": "f", "Variablen Liste": "f",
    "Nummer": "f",        # alias of Zahl
    "Wort": "n",          # alias of Text
    "Hausnummer": "f",    # definition of Zahl
    "Titel": "m",         # definition of Text
    "Ort": "m",           # definition of Punkt
    "Nummer Liste": "f",
}
ART = {"m": "Der", "f": "Die", "n": "Das"}
DAT = {"m": "einem", "f": "einer", "n": "einem"}
AKK = {"m": "einen", "f": "eine", "n": "ein"}


def ident(t):
    return t.replace(" ", "_")


PRELUDE = '''Wir nennen die Kombination aus
	der Zahl x mit Standardwert 0,
	dem Text name mit Standardwert "p",
einen Punkt, und erstellen sie so:
	"Standard_Punkt"
Wir nennen eine Zahl auch eine Nummer.
Wir nennen einen Text auch ein Wort.
Wir definieren eine Hausnummer als eine Zahl.
Wir definieren einen Titel als einen Text.
Wir definieren einen Ort als einen Punkt.
Die generische Funktion nimm mit dem Parameter a vom Typ T, gibt nichts zurück, macht:
	Das T kopie ist a.
Und kann so benutzt werden:
	"nimm <a>"
'''


def prelude():
    out = [PRELUDE]
    for t, g in TYPES.items():
        akk = "einen Buchstaben" if t == "Buchstabe" else "%s %s" % (AKK[g], t)
        out.append("%s %s v_%s ist der Standardwert von %s %s." % (ART[g], t, ident(t), DAT[g], t))
        out.append("Die Funktion t_%s gibt %s zurück, macht:\n\tGib der Standardwert von %s %s zurück.\nUnd kann so benutzt werden:\n\t\"mach_%s\"" % (
            ident(t), akk, DAT[g], t, ident(t)))
    return "\n".join(out) + "\n"


UNARY = {"neg": "-%s", "betrag": "der Betrag von %s", "nicht": "nicht %s", "lnicht": "logisch nicht %s", "laenge": "die Länge von %s"}
BINARY = {
    "plus": "%s plus %s", "minus": "%s minus %s", "mal": "%s mal %s", "durch": "%s durch %s", "modulo": "%s modulo %s", "hoch": "%s hoch %s",
    "wurzel": "die %s. Wurzel von %s", "log": "der Logarithmus von %s zur Basis %s", "und": "%s und %s", "oder": "%s oder %s", "xor": "entweder %s, oder %s",
    "lund": "%s logisch und %s", "loder": "%s logisch oder %s", "lkontra": "%s logisch kontra %s", "links": "%s um %s Bit nach links verschoben",
    "rechts": "%s um %s Bit nach rechts verschoben", "gleich": "%s gleich %s ist", "ungleich": "%s ungleich %s ist", "kleiner": "%s kleiner als %s ist",
    "groesser": "%s größer als %s ist", "kleinergleich": "%s kleiner als, oder %s ist", "groessergleich": "%s größer als, oder %s ist",
    "verkettet": "%s verkettet mit %s", "index": "%s an der Stelle %s", "ab": "%s ab dem %s. Element", "biszum": "%s bis zum %s. Element",
}
TERNARY = {"slice": "%s im Bereich von %s bis %s", "zwischen": "%s zwischen %s und %s ist", "falls": "%s, falls %s, ansonsten %s"}
TERNARY_OUTER = ["Zahl", "Kommazahl", "Byte", "Wahrheitswert", "Text", "Zahlen Liste", "Text Liste", "Punkt", "Variable", "Nummer", "Hausnummer", "Buchstabe"]

# value contexts: template with %s = expression; each is wrapped into its own function
CONTEXTS = {
    "var_init": "Die Variable r ist (%s).",
    "var_assign": "Die Variable r ist 0 als Variable.\n\tSpeichere (%s) in r.",
    "generic_arg": "nimm (%s).",
    "init_Zahl": "Die Zahl r ist (%s).",
    "init_Kommazahl": "Die Kommazahl r ist (%s).",
    "init_Byte": "Der Byte r ist (%s).",
    "init_Text": "Der Text r ist (%s).",
    "init_Wahrheitswert": "Der Wahrheitswert r ist (%s).",
    "condition": "Wenn (%s), dann:\n\t\tnimm 1.",
    "list_element": "Die Variable r ist (eine Liste, die aus (%s), (%s) besteht) als Variable.",
    "discard": "(%s).",
    "als_Text": "Der Text r ist ((%s) als Text).",
}
RETURN_TYPES = ["Zahl", "Kommazahl", "Byte", "Text", "Wahrheitswert", "Variable", "Zahlen Liste", "Text Liste"]


def operand(t, form):
    return "v_" + ident(t) if form == "var" else "(mach_" + ident(t) + ")"


def enumerate_cells(tier, rnd):
    """yields (cell id tuple, expression text)"""
    forms = ["var"] if tier == "quick" else ["var", "temp"]
    tl = list(TYPES)
    cells = []
    for op, tpl in UNARY.items():
        for t in tl:
            for f in forms:
                cells.append((("un", op, t, f), tpl % operand(t, f)))
    for op, tpl in BINARY.items():
        for a in tl:
            for b in tl:
                for f in forms:
                    fa, fb = (f, f) if f == "var" else rnd.choice([("temp", "temp"), ("var", "temp"), ("temp", "var")])
                    cells.append((("bin", op, a, b, fa + "/" + fb), tpl % (operand(a, fa), operand(b, fb))))
    for op, tpl in TERNARY.items():
        outer = TERNARY_OUTER
        for a in (tl if tier == "thorough" else outer):
            for b in outer:
                for c in outer:
                    if op == "falls" and a != c and tier == "quick":
                        continue
                    f = rnd.choice(forms)
                    cells.append((("ter", op, a, b, c, f), tpl % (operand(a, f), operand(b, f), operand(c, f))))
    for a in tl:
        for b in tl:
            for f in forms:
                cells.append((("cast", a, b, f), "%s als %s" % (operand(a, f), b)))
    return cells


def cell_function(k, ctx, expr):
    if ctx.startswith("return_"):
        rt = ctx[len("return_"):]
        g = TYPES[rt]
        akk = "%s %s" % (AKK[g], rt)
        return "Die Funktion c%d gibt %s zurück, macht:\n\tGib (%s) zurück.\nUnd kann so benutzt werden:\n\t\"c%d\"" % (k, akk, expr, k)
    tpl = CONTEXTS[ctx]
    body = tpl % ((expr,) * tpl.count("%s"))
    return "Die Funktion c%d gibt nichts zurück, macht:\n\t%s\nUnd kann so benutzt werden:\n\t\"c%d\"" % (k, body, k)


def assemble(pre, funcs):
    """returns (source, line ranges per function index)"""
    lines = pre.rstrip("\n").split("\n")
    ranges = []
    for f in funcs:
        fl = f.split("\n")
        ranges.append((len(lines) + 1, len(lines) + len(fl)))
        lines += fl
    # call every cell once so the code is not dead
    return "\n".join(lines) + "\n", ranges


def run(tier):
    vlib.ensure_build(asan=False)
    chk = Check(PID, tier)
    rnd = random.Random("%d/%s" % (chk.seed, PID))
    cells = enumerate_cells(tier, rnd)
    ctxs = ["var_init", "generic_arg", "init_Zahl", "init_Text", "condition", "als_Text"] if tier == "quick" else list(CONTEXTS) + ["return_" + r for r in RETURN_TYPES]
    pre = prelude()
    chk.rule = ("exhaustive: %d unary x %d binary x %d ternary operators and casts over %d operand type classes (primitives, their lists, Kombination, list of "
                "Kombination, Variable, list of Variable, alias of Zahl and of Text, definition of Zahl, of Text and of a Kombination, list of alias); operands as "
                "variables%s; each in the value contexts %s. A cell is distinct by (operator, operand classes, operand form, context); non-trivial = accepted by the "
                "front end (then it must compile). Oracle: only outcomes of the real tools." % (len(UNARY), len(BINARY), len(TERNARY), len(TYPES),
                                                                                             "" if tier == "quick" else " and as temporaries (function results)", ctxs))
    chk.assumptions = ["no model of typing: the front end's own verdict selects the cells", "regex/compression libraries are absent (stub archives) - no cell uses them"]
    work_items = [(cid, expr, ctx) for (cid, expr) in cells for ctx in ctxs]
    if tier == "quick":
        # quick keeps every unary/cast cell and every binary cell in two contexts, samples the rest
        keep = [w for w in work_items if w[0][0] in ("un", "cast") or w[2] in ("var_init", "init_Zahl")]
        rest = [w for w in work_items if not (w[0][0] in ("un", "cast") or w[2] in ("var_init", "init_Zahl"))]
        rnd.shuffle(rest)
        work_items = keep + rest[:6000]
    chk.count("cells_enumerated", len(work_items))
    BATCH = 400
    batches = [work_items[i:i + BATCH] for i in range(0, len(work_items), BATCH)]
    with Scratch("c02") as sc:
        # phase 1: front-end verdict per cell
        def phase1(args):
            bi, batch = args
            pr = Probe(sc.path)
            funcs = [cell_function(k, ctx, expr) for k, (cid, expr, ctx) in enumerate(batch)]
            src, ranges = assemble(pre, funcs)
            d = os.path.join(sc.path, "b%d" % bi)
            os.makedirs(d)
            sp = os.path.join(d, "all.ddp")
            open(sp, "w").write(src)
            try:
                r = pr.request({"op": "repeat", "id": "b%d" % bi, "file": sp, "n": 1}, wall_s=600)
                first = r["first"]
            except ProbeDied as e:
                pr.close()
                return bi, batch, None, "died: " + vlib.classify_death(e.stderr_tail)[0]
            pr.close()
            if first.get("panic"):
                return bi, batch, None, "panic: " + first["panic"][:100]
            bad_lines = sorted({d_["l1"] for d_ in first["diags"] if d_["level"] == 2})
            rejected = set()
            for ln in bad_lines:
                for k, (a, b) in enumerate(ranges):
                    if a <= ln <= b:
                        rejected.add(k)
                if ln <= ranges[0][0] - 1:
                    return bi, batch, None, "diagnostic in prelude line %d: %s" % (ln, [d_["msg"] for d_ in first["diags"] if d_["l1"] == ln][:1])
            accepted = [k for k in range(len(batch)) if k not in rejected]
            return bi, batch, accepted, None

        p1 = vlib.pmap(phase1, list(enumerate(batches)))
        accepted_cells = []
        for bi, batch, accepted, problem in p1:
            if problem:
                if problem.startswith("diagnostic in prelude"):
                    raise RuntimeError("C02 prelude rejected by the front end: " + problem)
                chk.count("batches_with_frontend_crash(C03)")
                continue
            for k in accepted:
                accepted_cells.append(batch[k])
            chk.count("cells_rejected_by_frontend", len(batch) - len(accepted))
        chk.count("cells_accepted_by_frontend", len(accepted_cells))

        # phase 2: assembled programs of accepted cells only: front end must report nothing, kddp must compile and link
        CB = 60
        groups = [accepted_cells[i:i + CB] for i in range(0, len(accepted_cells), CB)]

        def compile_group(tag, group):
            funcs = [cell_function(k, ctx, expr) for k, (cid, expr, ctx) in enumerate(group)]
            src, ranges = assemble(pre, funcs)
            d = os.path.join(sc.path, "g_" + tag)
            os.makedirs(d, exist_ok=True)
            sp = os.path.join(d, "m.ddp")
            open(sp, "w").write(src)
            exe = os.path.join(d, "m")
            c = vlib.kddp_compile(sp, exe, O=1)
            ok = c.rc == 0 and os.path.exists(exe)
            if ok:
                os.unlink(exe)
            return ok, c, src

        def phase2(args):
            gi, group = args
            pr = Probe(sc.path)
            found = []  # (cell, class, stderr, src)
            def rec(tag, grp, depth):
                ok, c, src = compile_group(tag, grp)
                if c.timed_out:
                    return [("inconclusive", None, None, None)]
                if ok:
                    return []
                from ddpmodel.runner import compile_class
                cls = compile_class(c.err)
                if cls.startswith("diagnostic"):
                    # the front end inside kddp rejects the assembled program: misattribution in phase 1, not a C02 event
                    if len(grp) == 1:
                        return [("frontend-rejects", grp[0], cls, None)]
                if len(grp) == 1:
                    return [("fail", grp[0], cls, (c.err[-3000:], src))]
                if depth > 8:
                    return [("fail-group", grp[0], cls, (c.err[-3000:], src))]
                mid = len(grp) // 2
                return rec(tag + "a", grp[:mid], depth + 1) + rec(tag + "b", grp[mid:], depth + 1)
            res = rec("%d" % gi, group, 0)
            pr.close()
            return group, res

        fails_by_class = {}
        for group, res in vlib.pmap(phase2, list(enumerate(groups))):
            failing = set()
            for kind, cell, cls, extra in res:
                if kind == "inconclusive":
                    chk.inconclusive += 1
                elif kind == "frontend-rejects":
                    chk.count("cells_rejected_only_in_isolation")
                    failing.add(cell[0] + (cell[2],))
                else:
                    failing.add(cell[0] + (cell[2],))
                    cid, expr, ctx = cell
                    opsig = "%s:%s" % (cid[0], cid[1]) if cid[0] != "cast" else "cast"
                    operands = ",".join(cid[2:-1]) if cid[0] != "cast" else "%s->%s" % (cid[1], cid[2])
                    sig = {"kind": "accepted by the front end but not compiled", "class": cls, "operator": opsig, "operands": operands, "context": ctx}
                    err, src = extra
                    fails_by_class.setdefault((cls, opsig), 0)
                    fails_by_class[(cls, opsig)] += 1
                    chk.violation(sig, files={"m.ddp": src, "kddp_stderr.txt": err, "cell.json": json.dumps({"cell": cid, "expr": expr, "context": ctx}, ensure_ascii=False)},
                                  text="cell %s in context %s: %s" % (cid, ctx, cls))
            for cid, expr, ctx in group:
                key = cid + (ctx,)
                chk.note_case(key, nontrivial=True)
                if key not in failing:
                    chk.count("cells_compiled_and_linked")
        some = accepted_cells[:3]
        for cid, expr, ctx in some:
            chk.sample({"cell": list(cid), "context": ctx, "function": cell_function(0, ctx, expr)})
        chk.extra["exhaustive"] = tier == "thorough"
        chk.extra["failure_classes"] = {"%s | %s" % k: v for k, v in fails_by_class.items()}
    return chk.finish(min_events=100)


def replay(path):
    vlib.ensure_build(asan=False)
    with Scratch("c02r") as sc:
        sp = os.path.join(sc.path, "m.ddp")
        open(sp, "w").write(open(os.path.join(path, "m.ddp")).read())
        c = vlib.kddp_compile(sp, os.path.join(sc.path, "m"))
        if c.rc != 0:
            from ddpmodel.runner import compile_class
            if not compile_class(c.err).startswith("diagnostic"):
                print("VIOLATION property=%s replay=%s" % (PID, path))
                return 1
    return 0
