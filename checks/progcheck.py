"""Shared engine of the checks that run generated core-language programs (C01, C05, C08, C11):
generate -> reference evaluator -> real kddp at the configured levels -> monitors -> on a violation
reduce the program to a small witness and name its shape in the signature."""
import copy
import json
import os
import random

import vlib
from ddpmodel import *
from ddpmodel import runner, reduce as reducer


def features(prog):
    """shape of a (reduced) program: sorted operator/type cells, used in violation signatures"""
    feats = set()

    def ex(e):
        if e is None:
            return
        if isinstance(e, Un):
            feats.add("%s(%s)" % (e.op, tn(e.e.ty)))
        elif isinstance(e, Bin):
            feats.add("%s(%s,%s)" % (e.op, tn(e.a.ty), tn(e.b.ty)))
        elif isinstance(e, Ter):
            feats.add("%s(%s)" % (e.op, tn(e.a.ty)))
        elif isinstance(e, Cast):
            feats.add("cast(%s->%s)" % (tn(e.e.ty), tn(e.ty)))
        elif isinstance(e, Call):
            feats.add("call(%s)" % ",".join(("ref " if p.ref else "") + tn(p.ty) for p in e.fn.params))
        elif isinstance(e, StructLit):
            feats.add("structlit")
        elif isinstance(e, ListLit):
            feats.add("listlit(%s,%d)" % (tn(e.ty), min(len(e.elems), 2)))
        elif isinstance(e, Field):
            feats.add("field(%s)" % e.name)
        elif isinstance(e, TypeCheck):
            feats.add("typecheck")
        elif isinstance(e, Default):
            feats.add("default(%s)" % tn(e.ty))
        for ch in reducer._children(e):
            ex(ch)

    def st(s):
        if isinstance(s, FuncDecl):
            form = getattr(s, "form", None)
            feats.add("func" if form is None else "func:%s" % (form if isinstance(form, str) else form[0]))
            for b in s.body:
                st(b)
            return
        if isinstance(s, StructDecl):
            return
        feats.add(type(s).__name__.lower() + ("(%s)" % tn(s.ty) if isinstance(s, (Decl, ForCount, ForEach)) else ""))
        if isinstance(s, Assign):
            feats.add("assign->" + ("index" if isinstance(s.target, Bin) else "field" if isinstance(s.target, Field) else "var") + "(%s)" % tn(s.target.ty))
        if isinstance(s, Compound):
            feats.add("compound:%s(%s)" % (s.op, tn(s.target.ty)))
        if isinstance(s, Decl) and s.repeat:
            ex(s.repeat[0]), ex(s.repeat[1])
        for g, _ in reducer._expr_slots(s):
            ex(g())
        if isinstance(s, ForCount):
            ex(s.frm), ex(s.to), ex(s.step)
        if isinstance(s, (Assign, Compound)):
            ex(s.target)
        for g, _ in reducer._blocks_of(s):
            for b in g():
                st(b)

    for it in prog.items:
        st(it)
    return " ".join(sorted(feats))


def tn(t):
    if t is None:
        return "?"
    if is_list(t):
        return "L<%s>" % tn(t[1])
    if is_struct(t):
        return "K"
    return {Z: "Z", K: "F", B: "B", W: "W", C: "C", T: "T", V: "V"}.get(t, str(t))


def first_diff_tag(exp_out, got_out):
    """tag (#n) of the first observation line that differs"""
    a, b = exp_out.split("\n"), got_out.split("\n")
    for i in range(max(len(a), len(b))):
        x = a[i] if i < len(a) else None
        y = b[i] if i < len(b) else None
        if x != y:
            for cand in (x, y):
                if cand and cand.startswith("#"):
                    return cand.split(":", 1)[0]
            return "line%d" % i
    return None


def reduce_witness(prog, cls, workdir, O, judge_fn, max_tests=120):
    n = [0]

    def fails(q):
        n[0] += 1
        try:
            c, _ = judge_fn(q, os.path.join(workdir, "t%d" % (n[0] % 8)), O)
        except ModelDomain:
            return False
        return c == cls

    q = reducer.reduce_program(prog, fails, max_tests=max_tests)
    return q, n[0]


def default_judge(prog, workdir, O):
    return runner.judge(prog, workdir, O=O)


def handle_violation(chk, pid_kind, prog, cls, res, O, workdir, judge_fn=default_judge, reduce_budget=120, extra_sig=None):
    """reduce, compute signature, report"""
    try:
        if os.environ.get("VERIF_REDUCE_BUDGET"):      # development knob (seed matrix): smaller reduction budget, the verdict is unaffected
            reduce_budget = int(os.environ["VERIF_REDUCE_BUDGET"])
        q, ntests = reduce_witness(prog, cls, os.path.join(workdir, "reduce"), O, judge_fn, max_tests=reduce_budget)
    except Exception as e:  # the reducer must never mask the violation
        q, ntests = prog, 0
    try:
        c2, r2 = judge_fn(q, os.path.join(workdir, "final"), O)
    except ModelDomain:
        c2, r2, q = cls, res, prog
    if c2 != cls:
        q, r2 = prog, res
    sig = {"kind": pid_kind, "class": cls, "O": O, "shape": features(q)}
    if extra_sig:
        sig.update(extra_sig)
    files = {"witness.ddp": r2.get("src") or Printer(q).program(), "original.ddp": res.get("src") or Printer(prog).program(),
             "result.json": json.dumps({k: v for k, v in r2.items() if k not in ("src",)}, indent=1, ensure_ascii=False, default=str)}
    text = "%s at -O %d; reduced with %d tests; expected %r got %r" % (cls, O, ntests, r2.get("expected"), {k: r2.get(k) for k in ("out", "rc", "err", "class")})
    chk.violation(sig, files=files, text=text[:3000])
    return sig
