"""C06 Out-of-domain operations stop with a Laufzeitfehler, never silently.
Reference-model monitor, exhaustive in a small space: one compiled program per (element type, access
form); list/text length and the index values arrive as command-line arguments, so every (length,
index) pair is one execution of the real optimised executable. Oracle: Python model of 1-based
indexing and of the documented slice clamping; out of domain <=> 'Laufzeitfehler' on stderr, exit
status 1 and nothing printed after the access."""
import itertools
import json
import os
import random

import vlib
from vlib import Check, Scratch

PID = "C06"

ALPHA = "aä€😀xyzuvwqrsbcde"
I64MAX, I64MIN = 2 ** 63 - 1, -2 ** 63

# element types: (name, list type name, DDP element expr from k, python model value from k, printer)
ELEMS = {
    "Zahl": ("Zahlen Liste", "(k mal 10)", lambda k: str(k * 10), "Zahl", "777"),
    "Kommazahl": ("Kommazahlen Liste", "(k plus 0,5)", lambda k: ("%.16g" % (k + 0.5)).replace(".", ","), "Kommazahl", "7,25"),
    "Byte": ("Byte Liste", "(k als Byte)", lambda k: str(k), "Byte", "(9 als Byte)"),
    "Wahrheitswert": ("Wahrheitswert Liste", "((k modulo 2) gleich 0 ist)", lambda k: "wahr" if k % 2 == 0 else "falsch", "Wahrheitswert", "wahr"),
    "Buchstabe": ("Buchstaben Liste", "(alphabet an der Stelle k)", lambda k: ALPHA[k - 1], "Buchstabe", "'Q'"),
    "Text": ("Text Liste", '("t" verkettet mit (k als Text))', lambda k: "t%d" % k, "Text", '"neu"'),
}
NEWVAL_OUT = {"Zahl": "777", "Kommazahl": "7,25", "Byte": "9", "Wahrheitswert": "wahr", "Buchstabe": "Q", "Text": "neu"}
ARTICLE = {"Zahl": "Die", "Kommazahl": "Die", "Byte": "Der", "Wahrheitswert": "Der", "Buchstabe": "Der", "Text": "Der"}
REFNAME = {"Zahl": "Zahlen Referenz", "Kommazahl": "Kommazahlen Referenz", "Byte": "Byte Referenz", "Wahrheitswert": "Wahrheitswert Referenz",
           "Buchstabe": "Buchstaben Referenz", "Text": "Text Referenz"}

HEAD = '''Binde "Duden/Ausgabe" ein.
Binde "Duden/Laufzeit" ein.
Der Text alphabet ist "%s".
Die Text Liste args ist die Befehlszeilenargumente.
Die Zahl n ist ((args an der Stelle 2) als Zahl).
Die Zahl i ist ((args an der Stelle 3) als Zahl).
Die Zahl j ist ((args an der Stelle 4) als Zahl).
''' % ALPHA


def list_setup(et):
    ltn, elem, _, _, _ = ELEMS[et]
    return "Die %s l ist eine leere %s.\nFür jede Zahl k von 1 bis n, mache:\n\tSpeichere (l verkettet mit %s) in l.\n" % (ltn, ltn, elem)


TEXT_SETUP = 'Der Text l ist "".\nWenn n größer als 0 ist, dann:\n\tSpeichere (alphabet bis zum n. Element) in l.\n'


def model_list(et, n):
    return [ELEMS[et][2](k) for k in range(1, n + 1)]


def show_list(vals):
    return ", ".join(vals)


def clamp_slice(seq, a, b):
    n = len(seq)
    if n == 0:
        return seq[:0], False
    a = max(1, min(a, n))
    b = max(1, min(b, n))
    if b < a:
        return None, True
    return seq[a - 1:b], False


def programs():
    """yields (name, source, arity, model) where model(n, i, j) -> (expected stdout after '#A\\n', error?)"""
    out = []
    for et in ELEMS:
        ltn, elem, val, tn, newv = ELEMS[et]
        su = HEAD + list_setup(et)
        pr = lambda x: "Schreibe %s auf eine Zeile.\n" % x
        A, Bm = 'Schreibe "#A" auf eine Zeile.\n', 'Schreibe "#B" auf eine Zeile.\n'

        def m_index(n, i, j, et=et):
            l = model_list(et, n)
            return (l[i - 1] + "\n", False) if 1 <= i <= n else ("", True)
        out.append(("%s/rvalue_var" % et, su + A + pr("(l an der Stelle i)") + Bm, m_index))
        out.append(("%s/rvalue_temp" % et, su + A + pr("((l ab dem 1. Element) an der Stelle i)") + Bm, m_index))
        out.append(("%s/rvalue_byteindex" % et, su + A + pr("(l an der Stelle (i als Byte))") + Bm,
                    lambda n, i, j, f=m_index: f(n, i & 0xFF, j)))

        def m_assign(n, i, j, et=et):
            l = model_list(et, n)
            if not (1 <= i <= n):
                return "", True
            l[i - 1] = NEWVAL_OUT[et]
            return show_list(l) + "\n", False
        out.append(("%s/assign_target" % et, su + A + "Speichere %s in l an der Stelle i.\n" % newv + pr("l") + Bm, m_assign))
        fn = ("Die Funktion setze mit dem Parameter r vom Typ %s, gibt nichts zurück, macht:\n\tSpeichere %s in r.\nUnd kann so benutzt werden:\n\t\"setze <r>\"\n" % (REFNAME[et], newv))
        out.append(("%s/referenz_arg" % et, HEAD + fn + list_setup(et) + A + "setze (l an der Stelle i).\n" + pr("l") + Bm, m_assign))
        # the same assignable forms with an index of static type Byte (the code generator converts the index per access form)
        byte_m = lambda n, i, j, f=m_assign: f(n, i & 0xFF, j)
        out.append(("%s/assign_target_byteindex" % et, su + A + "Speichere %s in l an der Stelle (i als Byte).\n" % newv + pr("l") + Bm, byte_m))
        out.append(("%s/referenz_arg_byteindex" % et, HEAD + fn + list_setup(et) + A + "setze (l an der Stelle (i als Byte)).\n" + pr("l") + Bm, byte_m))
        if et in ("Zahl", "Kommazahl", "Byte"):
            def m_comp(n, i, j, et=et):
                l = model_list(et, n)
                if not (1 <= i <= n):
                    return "", True
                k = i
                l[i - 1] = {"Zahl": str(k * 10 + 1), "Kommazahl": ("%.16g" % (k + 1.5)).replace(".", ","), "Byte": str((k + 1) & 0xFF)}[et]
                return show_list(l) + "\n", False
            out.append(("%s/compound_target" % et, su + A + "Erhöhe l an der Stelle i um 1.\n" + pr("l") + Bm, m_comp))
            out.append(("%s/compound_target_byteindex" % et, su + A + "Erhöhe l an der Stelle (i als Byte) um 1.\n" + pr("l") + Bm, lambda n, i, j, f=m_comp: f(n, i & 0xFF, j)))

        def m_slice(n, i, j, et=et):
            r, err = clamp_slice(model_list(et, n), i, j)
            return ("", True) if err else (show_list(r) + "\n", False)
        out.append(("%s/slice_range" % et, su + A + pr("(l im Bereich von i bis j)") + Bm, m_slice))
        out.append(("%s/slice_from" % et, su + A + pr("(l ab dem i. Element)") + Bm, lambda n, i, j, f=m_slice: f(n, i, n)))
        out.append(("%s/slice_to" % et, su + A + pr("(l bis zum i. Element)") + Bm, lambda n, i, j, f=m_slice: f(n, 1, i)))
    # texts: byte and code-point indices differ
    A, Bm = 'Schreibe "#A" auf eine Zeile.\n', 'Schreibe "#B" auf eine Zeile.\n'
    tsu = HEAD + TEXT_SETUP

    def t_index(n, i, j):
        return (ALPHA[i - 1] + "\n", False) if 1 <= i <= n else ("", True)
    out.append(("TextSrc/rvalue_var", tsu + A + "Schreibe (l an der Stelle i) auf eine Zeile.\n" + Bm, t_index))
    out.append(("TextSrc/rvalue_temp", tsu + A + 'Schreibe ((l verkettet mit "") an der Stelle i) auf eine Zeile.\n' + Bm, t_index))

    def t_assign(n, i, j):
        if not (1 <= i <= n):
            return "", True
        s = ALPHA[:n]
        return s[:i - 1] + "Q" + s[i:] + "\n", False
    out.append(("TextSrc/assign_target", tsu + A + "Speichere 'Q' in l an der Stelle i.\nSchreibe l auf eine Zeile.\n" + Bm, t_assign))
    out.append(("TextSrc/rvalue_byteindex", tsu + A + "Schreibe (l an der Stelle (i als Byte)) auf eine Zeile.\n" + Bm, lambda n, i, j: t_index(n, i & 0xFF, j)))
    out.append(("TextSrc/assign_target_byteindex", tsu + A + "Speichere 'Q' in l an der Stelle (i als Byte).\nSchreibe l auf eine Zeile.\n" + Bm, lambda n, i, j: t_assign(n, i & 0xFF, j)))

    def t_assign_wide(n, i, j):
        if not (1 <= i <= n):
            return "", True
        s = ALPHA[:n]
        return s[:i - 1] + "😀" + s[i:] + "\n", False
    out.append(("TextSrc/assign_target_wide", tsu + A + "Speichere '😀' in l an der Stelle i.\nSchreibe l auf eine Zeile.\n" + Bm, t_assign_wide))
    # (a character inside a Text cannot be passed as Buchstaben Referenz: the front end rejects that, so there is no such access form)

    def t_slice(n, i, j):
        r, err = clamp_slice(ALPHA[:n], i, j)
        return ("", True) if err else (r + "\n", False)
    out.append(("TextSrc/slice_range", tsu + A + "Schreibe (l im Bereich von i bis j) auf eine Zeile.\n" + Bm, t_slice))
    out.append(("TextSrc/slice_from", tsu + A + "Schreibe (l ab dem i. Element) auf eine Zeile.\n" + Bm, lambda n, i, j: t_slice(n, i, n)))
    out.append(("TextSrc/slice_to", tsu + A + "Schreibe (l bis zum i. Element) auf eine Zeile.\n" + Bm, lambda n, i, j: t_slice(n, 1, i)))
    # nested indexing: text inside a text list, i indexes the list (length n), j the text "t<k>" (length 1 + digits)
    nsu = HEAD + list_setup("Text")

    def nested(n, i, j):
        if not (1 <= i <= n):
            return "", True
        s = "t%d" % i
        return (s[j - 1] + "\n", False) if 1 <= j <= len(s) else ("", True)
    out.append(("Nested/text_in_list", nsu + A + "Schreibe ((l an der Stelle i) an der Stelle j) auf eine Zeile.\n" + Bm, nested))
    # list field of a Kombination
    ksu = (HEAD + "Wir nennen die Kombination aus\n\tder Zahlen Liste werte mit Standardwert eine leere Zahlen Liste,\neinen Halter, und erstellen sie so:\n\t\"ein Halter mit <werte>\"\n"
           + list_setup("Zahl") + "Der Halter h ist ein Halter mit l.\n")

    def kfield(n, i, j):
        l = model_list("Zahl", n)
        if not (1 <= i <= n):
            return "", True
        l[i - 1] = "777"
        return show_list(l) + "\n", False
    out.append(("Nested/field_list_assign", ksu + A + "Speichere 777 in werte von h an der Stelle i.\nSchreibe (werte von h) auf eine Zeile.\n" + Bm, kfield))
    out.append(("Nested/field_list_rvalue", ksu + A + "Schreibe ((werte von h) an der Stelle i) auf eine Zeile.\n" + Bm,
                lambda n, i, j: (str(i * 10) + "\n", False) if 1 <= i <= n else ("", True)))
    return out


VAR_TYPES = [("Zahl", "5", "5", "eine"), ("Kommazahl", "2,5", "2,5", "eine"), ("Byte", "(7 als Byte)", "7", "ein"), ("Wahrheitswert", "wahr", "wahr", "ein"),
             ("Buchstabe", "'ä'", "ä", "ein"), ("Text", '"txt"', "txt", "ein"), ("Zahlen Liste", "(eine Liste, die aus 1, 2 besteht)", "1, 2", "eine"),
             ("Text Liste", '(eine Liste, die aus "a" besteht)', "a", "eine"), ("Kommazahlen Liste", "(eine leere Kommazahlen Liste)", "", "eine"),
             ("Hausnummer", "(5 als Hausnummer)", None, "eine"), ("Hausnummer(zugewiesen)", "(5 als Hausnummer)", None, "eine")]


def variable_program():
    """n = index of held type, i = index of target type; cast succeeds iff equal (a type definition is distinct from its base)"""
    src = HEAD + "Wir definieren eine Hausnummer als eine Zahl.\nDie Variable v ist 0 als Variable.\n"
    for k, (tn, lit, _, _) in enumerate(VAR_TYPES):
        if tn.endswith("(zugewiesen)"):     # implicit boxing by assignment instead of an explicit `als Variable`
            src += "Wenn n gleich %d ist, Speichere %s in v.\n" % (k, lit)
        else:
            src += "Wenn n gleich %d ist, Speichere (%s als Variable) in v.\n" % (k, lit)
    src += 'Schreibe "#A" auf eine Zeile.\n'
    for k, (tn, lit, shown, _) in enumerate(VAR_TYPES):
        if tn.startswith("Hausnummer"):
            src += "Wenn i gleich %d ist, dann:\n\tDie Hausnummer hn%d ist v als Hausnummer.\n\tSchreibe (hn%d als Zahl) auf eine Zeile.\n" % (k, k, k)
        else:
            src += "Wenn i gleich %d ist, dann:\n\tSchreibe (v als %s) auf eine Zeile.\n" % (k, tn)
    src += 'Schreibe "#B" auf eine Zeile.\n'

    def model(n, i, j):
        same = VAR_TYPES[n][0].split("(")[0] == VAR_TYPES[i][0].split("(")[0]
        if not same:
            return "", True
        shown = VAR_TYPES[n][2]
        return ("5" if shown is None else shown) + "\n", False
    return ("Variable/cast", src, model)


def todo_programs():
    A, Bm = 'Schreibe "#A" auf eine Zeile.\n', 'Schreibe "#B" auf eine Zeile.\n'
    f = "Die Funktion offen gibt eine Zahl zurück, macht:\n\t...\nUnd kann so benutzt werden:\n\t\"offen\"\n"
    return [("Todo/main", HEAD + A + "...\n" + Bm, lambda n, i, j: ("", True)),
            ("Todo/function", HEAD + f + A + "Schreibe offen auf eine Zeile.\n" + Bm, lambda n, i, j: ("", True)),
            ("Todo/loop", HEAD + A + "Für jede Zahl q von 1 bis n, mache:\n\tWenn q gleich i ist, dann:\n\t\t...\n\tSchreibe q auf eine Zeile.\n" + Bm,
             lambda n, i, j: ("".join("%d\n" % q for q in range(1, min(n, i - 1 if 1 <= i <= n else n) + 1)), 1 <= i <= n)),
            ("Todo/not_reached", HEAD + A + "Wenn n kleiner als 0 ist, dann:\n\t...\n" + Bm, lambda n, i, j: ("", False))]


def run(tier):
    vlib.ensure_build(asan=False)
    chk = Check(PID, tier)
    lengths = [0, 1, 2, 3, 5, 8, 9, 12, 13]
    levels = [1] if tier == "quick" else [0, 1, 2]
    chk.rule = ("exhaustive over lengths %s x indices {-2..len+2} u {2^63-1, 2^63-2, -2^63, -2^63+1, 255, 256} x element types %s and Text sources with "
                "1-4 byte characters x access forms {rvalue on variable, rvalue on temporary, Byte index, assignment target, compound-assignment target, "
                "Referenz argument, nested indexing, list field of a Kombination, im Bereich von..bis, ab dem, bis zum}; Variable casts over all (held, "
                "target) pairs of %d types; '...' in main/function/loop. One execution per case; distinct by (program, n, i, j)." % (lengths, list(ELEMS), len(VAR_TYPES)))
    chk.assumptions = ["slice clamping as documented in DESIGN.md §8 (both bounds clamped to 1..len, error iff clamped hi < clamped lo, empty source -> empty)",
                       "locale shim de_DE.UTF-8", "quick runs -O 1 only; thorough -O 0/1/2"]
    progs = programs() + [variable_program()] + todo_programs()
    with Scratch("c06") as sc:
        def build(job):
            k, (name, src, model) = job
            d = os.path.join(sc.path, "p%d" % k)
            os.makedirs(d)
            sp = os.path.join(d, "m.ddp")
            open(sp, "w").write(src)
            exes = {}
            for O in levels:
                exe = os.path.join(d, "m_O%d" % O)
                c = vlib.kddp_compile(sp, exe, O=O)
                exes[O] = (c.rc, c.err[-2000:], exe)
            return k, exes

        built = dict(vlib.pmap(build, list(enumerate(progs))))
        runs = []
        for k, (name, src, model) in enumerate(progs):
            for O in levels:
                rc, err, exe = built[k][O]
                if rc != 0:
                    chk.violation({"kind": "valid access program does not compile", "program": name, "O": O}, files={"m.ddp": src, "stderr.txt": err},
                                  text="C06 program %s failed to compile" % name)
                    continue
                if name.startswith("Variable/"):
                    cases = [(a, b, 0) for a in range(len(VAR_TYPES)) for b in range(len(VAR_TYPES))]
                elif name.startswith("Todo/"):
                    cases = [(3, i, 0) for i in (0, 1, 2, 3, 4)]
                else:
                    cases = []
                    for n in lengths:
                        if name.startswith("TextSrc") and n > len(ALPHA):
                            continue
                        idx = list(range(-2, n + 3)) + [I64MAX, I64MAX - 1, I64MIN, I64MIN + 1, 255, 256]
                        if "slice_range" in name:
                            js = [-1, 0, 1, 2, n - 1, n, n + 1, n + 5, I64MAX, I64MIN]
                            cases += [(n, i, j) for i in idx for j in js]
                        elif name.startswith("Nested/text_in_list"):
                            cases += [(n, i, j) for i in idx[:n + 5] for j in (-1, 0, 1, 2, 3, 4, I64MAX)]
                        else:
                            cases += [(n, i, 0) for i in idx]
                    if tier == "quick" and len(cases) > 260:
                        rnd = random.Random("%d/%s" % (chk.seed, name))
                        cases = rnd.sample(cases, 260)
                for c in cases:
                    runs.append((k, name, model, O, exe, c))

        def execute(r):
            k, name, model, O, exe, (n, i, j) = r
            p = vlib.run_exe(exe, args=[str(n), str(i), str(j)], wall_s=30, cpu_s=5)
            return r, p

        for r, p in vlib.pmap(execute, runs):
            k, name, model, O, exe, (n, i, j) = r
            if p.timed_out:
                chk.inconclusive += 1
                continue
            body, err = model(n, i, j)
            chk.note_case((name, O, n, i, j))
            chk.count("out_of_domain_cases" if err else "in_domain_cases")
            chk.count("form:" + name.split("/")[1])
            want_out = "#A\n" + body + ("" if err else "#B\n")
            is_rt = "Laufzeitfehler" in p.err
            sig = None
            if err:
                if p.rc != 1 or not is_rt:
                    sig = "out-of-domain access did not stop with Laufzeitfehler/exit 1"
                elif p.out != want_out:
                    sig = "output continued or differed around a failing access"
            else:
                if is_rt or p.rc != 0:
                    sig = "in-domain access failed"
                elif p.out != want_out:
                    sig = "in-domain access returned a wrong value"
            if sig:
                sigd = {"kind": sig, "program": name, "O": O, "index_class": index_class(n, i), "j_class": index_class(n, j) if "slice_range" in name or "text_in_list" in name else ""}
                if name.startswith("Variable/"):
                    sigd.update({"index_class": "", "held": VAR_TYPES[n][0], "target": VAR_TYPES[i][0]})
                chk.violation(sigd,
                              files={"m.ddp": progs[k][1], "case.json": json.dumps({"args": [n, i, j], "expected_stdout": want_out, "expected_error": err,
                                                                                      "stdout": p.out, "stderr": p.err[:500], "rc": p.rc, "O": O})},
                              text="%s n=%d i=%d j=%d: %s; stdout=%r stderr=%r rc=%d" % (name, n, i, j, sig, p.out[:200], p.err[:120], p.rc))
        chk.sample({"program": progs[0][0], "source": progs[0][1], "case": {"n": 3, "i": 4}, "expected": "stdout '#A\\n', Laufzeitfehler on stderr, exit 1"})
        chk.sample({"program": "Zahl/slice_range", "case": {"n": 5, "i": 0, "j": 2}, "expected": "10, 20"})
        chk.extra["exhaustive"] = tier == "thorough"
        chk.extra["programs"] = len(progs)
    return chk.finish(min_events=500)


def index_class(n, i):
    if i in (I64MAX, I64MAX - 1):
        return "int64 max"
    if i in (I64MIN, I64MIN + 1):
        return "int64 min"
    if i < 0:
        return "negative"
    if i == 0:
        return "zero"
    if i <= n:
        return "inside"
    if i == n + 1:
        return "len+1"
    return "beyond"


def replay(path):
    vlib.ensure_build(asan=False)
    case = json.load(open(os.path.join(path, "case.json")))
    with Scratch("c06r") as sc:
        sp = os.path.join(sc.path, "m.ddp")
        open(sp, "w").write(open(os.path.join(path, "m.ddp")).read())
        exe = os.path.join(sc.path, "m")
        c = vlib.kddp_compile(sp, exe, O=case.get("O", 1))
        if c.rc != 0:
            print("VIOLATION property=%s replay=%s" % (PID, path))
            return 1
        p = vlib.run_exe(exe, args=[str(a) for a in case["args"]])
        ok = p.out == case["expected_stdout"] and (("Laufzeitfehler" in p.err and p.rc == 1) if case["expected_error"] else p.rc == 0)
        if not ok:
            print("VIOLATION property=%s replay=%s" % (PID, path))
            return 1
    return 0
