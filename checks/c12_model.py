"""C12 model: texts as Python str (sequences of code points), histories of text operations,
their rendering as rt_driver command streams and as DDP programs, and the judges that compare
what the real runtime / the compiled program reported with the model."""
import random
import re

ALPHABET = ["a", "ä", "€", "😀", "\n", '"']          # 1, 2, 3, 4 bytes, an escape, the quote
# boundary scalar values of the encoding lengths (direct histories only)
BOUNDARY = [0x01, 0x7F, 0x80, 0x7FF, 0x800, 0xD7FF, 0xE000, 0xFFFD, 0xFFFF, 0x10000, 0x10FFFF, 0x41, 0xDF, 0x20AC, 0x1F600]
INTS = [0, 7, -3, 42, 12345678901, -9223372036854775808, 9223372036854775807]
INTS_DDP = [0, 7, -3, 42, 12345678901]
MAXLEN = 24
ERROR = "ERROR"

TAINT = "after in-place shrink"
FRESH = "no in-place shrink"


def width(ch):
    cp = ord(ch)
    return 1 if cp < 0x80 else 2 if cp < 0x800 else 3 if cp < 0x10000 else 4


def strtoll(s):
    """C strtoll(s, NULL, 10) on a text without embedded NUL (UTF-8 locale: no multi-byte space)"""
    i = 0
    while i < len(s) and s[i] in " \t\n\v\f\r":
        i += 1
    neg = False
    if i < len(s) and s[i] in "+-":
        neg = s[i] == "-"
        i += 1
    j = i
    while j < len(s) and s[j] in "0123456789":
        j += 1
    if j == i:
        return 0
    v = int(s[i:j])
    v = -v if neg else v
    return max(-2 ** 63, min(2 ** 63 - 1, v))


class Expect:
    __slots__ = ("scalar", "slots")

    def __init__(self, scalar, slots):
        self.scalar, self.slots = scalar, slots


def reads(cmd):
    """slots a command reads"""
    op = cmd[0]
    if op in ("lit", "c2s", "i2s"):
        return ()
    if op == "copy":
        return (cmd[2],)
    if op == "cat":
        return (cmd[2], cmd[3])
    if op == "catsc":
        return (cmd[2],)
    if op == "catcs":
        return (cmd[3],)
    if op in ("slice", "from", "upto"):
        return (cmd[2],)
    if op == "eq":
        return (cmd[1], cmd[2])
    return (cmd[1],)   # repl index len iter s2i free


class State:
    """slot -> str ; taint[slot]: the value's byte buffer went through an in-place replacement by a
    character with a shorter encoding (directly or through copy/concatenation of such a value)"""

    def __init__(self, preset=0):
        self.vals = {i: "" for i in range(preset)}
        self.taint = {i: False for i in range(preset)}

    def apply(self, cmd):
        op = cmd[0]
        v, t = self.vals, self.taint
        if op == "lit":
            v[cmd[1]], t[cmd[1]] = cmd[2], False
            return Expect(None, (cmd[1],))
        if op == "c2s":
            v[cmd[1]], t[cmd[1]] = chr(cmd[2]), False
            return Expect(None, (cmd[1],))
        if op == "i2s":
            v[cmd[1]], t[cmd[1]] = str(cmd[2]), False
            return Expect(None, (cmd[1],))
        if op == "copy":
            v[cmd[1]], t[cmd[1]] = v[cmd[2]], t[cmd[2]]
            return Expect(None, (cmd[1], cmd[2]))
        if op == "cat":
            r, tt = v[cmd[2]] + v[cmd[3]], t[cmd[2]] or t[cmd[3]]
            v[cmd[1]], t[cmd[1]] = r, tt
            return Expect(None, (cmd[1], cmd[2], cmd[3]))
        if op == "catsc":
            r, tt = v[cmd[2]] + chr(cmd[3]), t[cmd[2]]
            v[cmd[1]], t[cmd[1]] = r, tt
            return Expect(None, (cmd[1], cmd[2]))
        if op == "catcs":
            r, tt = chr(cmd[2]) + v[cmd[3]], t[cmd[3]]
            v[cmd[1]], t[cmd[1]] = r, tt
            return Expect(None, (cmd[1], cmd[3]))
        if op in ("slice", "from", "upto"):
            s = v[cmd[2]]
            if op == "slice":
                i, j = cmd[3], cmd[4]
            elif op == "from":
                i, j = cmd[3], len(s)
            else:
                i, j = 1, cmd[3]
            if s == "":
                r = ""
            else:
                n = len(s)
                lo, hi = max(1, min(n, i)), max(1, min(n, j))
                if hi < lo:
                    return ERROR
                r = s[lo - 1:hi]
            v[cmd[1]], t[cmd[1]] = r, False
            return Expect(None, (cmd[1], cmd[2]))
        if op == "repl":
            s, i = v[cmd[1]], cmd[2]
            if i < 1 or i > len(s):
                return ERROR
            new = chr(cmd[3])
            if width(new) < width(s[i - 1]):
                t[cmd[1]] = True
            v[cmd[1]] = s[:i - 1] + new + s[i:]
            return Expect(None, (cmd[1],))
        if op == "index":
            s, i = v[cmd[1]], cmd[2]
            if i < 1 or i > len(s):
                return ERROR
            return Expect(ord(s[i - 1]), (cmd[1],))
        if op == "len":
            return Expect(len(v[cmd[1]]), (cmd[1],))
        if op == "eq":
            return Expect(1 if v[cmd[1]] == v[cmd[2]] else 0, (cmd[1], cmd[2]))
        if op == "iter":
            return Expect([(ord(c), width(c)) for c in v[cmd[1]]], (cmd[1],))
        if op == "s2i":
            return Expect(strtoll(v[cmd[1]]), (cmd[1],))
        if op == "free":
            del v[cmd[1]]
            del t[cmd[1]]
            return Expect(None, (cmd[1],))
        raise ValueError(op)


# ------------------------------------------------------------------ generation

def rand_text(rng, lo=0, hi=6):
    return "".join(rng.choice(ALPHABET) for _ in range(rng.randint(lo, hi)))


def rand_char(rng, mode):
    if mode == "direct" and rng.random() < 0.2:
        if rng.random() < 0.5:
            return rng.choice(BOUNDARY)
        while True:
            cp = rng.randint(1, 0x10FFFF)
            if not 0xD800 <= cp <= 0xDFFF:
                return cp
    return ord(rng.choice(ALPHABET))


OPS_DIRECT = [("lit", 10), ("c2s", 3), ("i2s", 1), ("copy", 7), ("cat", 10), ("catsc", 6), ("catcs", 6), ("slice", 10), ("repl", 16),
              ("index", 6), ("len", 6), ("eq", 8), ("eqlit", 8), ("iter", 5), ("s2i", 2), ("free", 2)]
OPS_DDP = [("lit", 10), ("c2s", 3), ("i2s", 1), ("copy", 7), ("cat", 10), ("catsc", 6), ("catcs", 6), ("slice", 8), ("from", 2), ("upto", 2),
           ("repl", 16), ("index", 6), ("len", 4), ("eq", 8), ("eqlit", 8), ("iter", 8), ("s2i", 2)]


def _pick(rng, table):
    tot = sum(w for _, w in table)
    x = rng.random() * tot
    for op, w in table:
        x -= w
        if x < 0:
            return op
    return table[-1][0]


def gen_history(rng, mode, nslots):
    """list of abstract commands. mode 'direct': slots are created by commands, out-of-domain index/slice
    only as the very last command; mode 'ddp': all slots exist as "" from the start, only in-domain commands."""
    L = rng.randint(1, 12)
    st = State(nslots if mode == "ddp" else 0)
    cmds = []
    if mode == "ddp":      # all slots start empty there: give two of them a value first (not counted in L)
        for d in rng.sample(range(nslots), 2):
            cmds.append(("lit", d, rand_text(rng, 1, 6)))
            st.apply(cmds[-1])
        L += 2
    table = OPS_DIRECT if mode == "direct" else OPS_DDP
    tries = 0
    while len(cmds) < L and tries < 200:
        tries += 1
        last = len(cmds) >= L - 1
        live = sorted(st.vals)
        op = _pick(rng, table) if live else "lit"
        d = rng.randrange(nslots)
        new = []
        if op == "lit":
            new = [("lit", d, rand_text(rng))]
        elif op == "c2s":
            new = [("c2s", d, rand_char(rng, mode))]
        elif op == "i2s":
            new = [("i2s", d, rng.choice(INTS if mode == "direct" else INTS_DDP))]
        elif op == "copy":
            s = rng.choice(live)
            if s == d:
                continue
            new = [("copy", d, s)]
        elif op == "cat":
            a, b = rng.choice(live), rng.choice(live)
            if len(st.vals[a]) + len(st.vals[b]) > MAXLEN:
                continue
            new = [("cat", d, a, b)]
        elif op in ("catsc", "catcs"):
            a = rng.choice(live)
            if len(st.vals[a]) + 1 > MAXLEN:
                continue
            c = rand_char(rng, mode)
            new = [("catsc", d, a, c)] if op == "catsc" else [("catcs", d, c, a)]
        elif op == "slice":
            a = rng.choice(live)
            n = len(st.vals[a])
            if mode == "direct" and last and rng.random() < 0.3:
                i, j = rng.randint(-1, n + 2), rng.randint(-1, n + 2)
            else:
                i, j = rng.randint(-1, n + 2), rng.randint(-1, n + 2)
                if n > 0 and max(1, min(n, j)) < max(1, min(n, i)):
                    i, j = j, i
            new = [("slice", d, a, i, j)]
        elif op in ("from", "upto"):
            a = rng.choice(live)
            n = len(st.vals[a])
            if n == 0:
                continue
            new = [(op, d, a, rng.randint(1, n))]
        elif op in ("repl", "index"):
            a = rng.choice(live)
            n = len(st.vals[a])
            if mode == "direct" and last and rng.random() < 0.25:
                i = rng.choice([-1, 0, n + 1, n + 2, len(st.vals[a].encode()) + 1, len(st.vals[a].encode()) + 2, 2 ** 40, -2 ** 40])
            elif n == 0:
                continue
            else:
                i = rng.randint(1, n)
            new = [("repl", a, i, rand_char(rng, mode))] if op == "repl" else [("index", a, i)]
        elif op in ("len", "iter", "s2i"):
            new = [(op, rng.choice(live))]
        elif op == "eq":
            a, b = rng.choice(live), rng.choice(live)
            if st.vals[a] == "" and st.vals[b] == "" and rng.random() > 0.15:
                continue
            new = [("eq", a, b)]
        elif op == "eqlit":
            # the same code points produced differently: a fresh literal
            a = rng.choice(live)
            if a == d or (st.vals[a] == "" and rng.random() > 0.15):
                continue
            new = [("lit", d, st.vals[a]), ("eq", a, d) if rng.random() < 0.5 else ("eq", d, a)]
        elif op == "free":
            if len(live) < 2:
                continue
            new = [("free", rng.choice(live))]
        stop = False
        for c in new:
            cmds.append(c)
            # a compiled program is one process for many histories: a history there ends with the first equality /
            # concatenation / iteration over a value whose buffer was shrunk in place, because what follows a wrong
            # result of these (a text shorter than the model's) can end the whole program with a Laufzeitfehler
            if mode == "ddp" and c[0] in ("eq", "cat", "catsc", "catcs", "iter") and any(st.taint.get(x) for x in reads(c)):
                stop = True
            if st.apply(c) is ERROR:
                stop = True
            if stop:
                break
        if stop:
            break
    return cmds


def targeted_histories():
    """fixed histories: minimal forms of the predicted weakness, every (old width, new width, position) replacement,
    every slice of the six-character alphabet text"""
    hs = []
    ab = "aä€😀"
    hs.append([("lit", 0, "äb"), ("repl", 0, 1, ord("a")), ("lit", 1, "ab"), ("eq", 0, 1)])
    hs.append([("lit", 0, "äb"), ("repl", 0, 1, ord("a")), ("lit", 1, "ab"), ("eq", 1, 0)])
    hs.append([("lit", 0, "€b"), ("repl", 0, 1, ord("a")), ("lit", 1, "ab"), ("eq", 0, 1)])
    hs.append([("lit", 0, "äb"), ("repl", 0, 1, ord("a")), ("lit", 1, "cd"), ("cat", 2, 0, 1), ("len", 2)])
    hs.append([("lit", 0, "äb"), ("repl", 0, 1, ord("a")), ("catsc", 2, 0, ord("€")), ("len", 2)])
    hs.append([("lit", 0, "äb"), ("repl", 0, 1, ord("a")), ("catcs", 2, ord("€"), 0), ("len", 2)])
    hs.append([("lit", 0, "äb"), ("repl", 0, 1, ord("a")), ("copy", 1, 0), ("iter", 1), ("slice", 2, 1, 1, 2), ("lit", 3, "ab"), ("eq", 2, 3), ("eq", 3, 2)])
    for old in ab:
        for new in ab:
            for pos in (1, 2, 3):
                t = ["a", "€", "ä"]
                t[pos - 1] = old
                t = "".join(t)
                r = t[:pos - 1] + new + t[pos:]
                hs.append([("lit", 0, t), ("repl", 0, pos, ord(new)), ("len", 0), ("index", 0, 1), ("index", 0, 2), ("index", 0, 3), ("iter", 0),
                           ("slice", 1, 0, 1, 3), ("lit", 2, r), ("eq", 1, 2), ("eq", 2, 1)])
    full = "".join(ALPHABET)
    for i in range(-1, 9):
        for j in range(-1, 9):
            hs.append([("lit", 0, full), ("slice", 1, 0, i, j), ("len", 1), ("iter", 1)])
    out = []
    for cmds in hs:      # an out-of-domain command ends its history
        st, cut = State(), []
        for c in cmds:
            cut.append(c)
            if st.apply(c) is ERROR:
                break
        out.append(cut)
    return out



# ------------------------------------------------------------------ rendering for rt_driver

def hazardous(cmds):
    """will (or may, given the known weakness of equality after an in-place shrink) this history end the process that
    executes it? Such histories run in a forked child of the driver; a wrong guess only costs a restart of the driver."""
    st = State()
    for c in cmds:
        if c[0] == "eq" and (any(st.taint.get(s) for s in reads(c)) or (st.vals[c[1]] == "" and st.vals[c[2]] == "")):
            return True
        if st.apply(c) is ERROR:
            return True
    return False


def render_direct(hid, cmds, fork=True):
    out = ["%s %s" % ("HF" if fork else "H", hid)]
    for c in cmds:
        if c[0] == "lit":
            out.append("lit %d %s" % (c[1], c[2].encode().hex() or "-"))
        else:
            out.append(" ".join(str(x) for x in c))
    out.append("E")
    return "\n".join(out) + "\n"


def parse_direct_cmd(line):
    p = line.split()
    if p[0] == "lit":
        return ("lit", int(p[1]), "" if p[2] == "-" else bytes.fromhex(p[2]).decode())
    return tuple([p[0]] + [int(x) for x in p[1:]])


_SAN = re.compile(r"(AddressSanitizer|UndefinedBehaviorSanitizer|LeakSanitizer): ([\w-]+)")
_UB = re.compile(r"runtime error: ([^\n]{0,80})")
_FRAME = re.compile(r"#\d+ 0x[0-9a-f]+ in ((?:ddp_|utf8_)\w+)")


def classify_death(status, err):
    m = _UB.search(err)
    if m:
        return "sanitizer: UB " + re.sub(r"0x[0-9a-f]+|\d+", "N", m.group(1))
    m = _SAN.search(err)
    if m:
        return "sanitizer: %s" % m.group(2)
    if "Laufzeitfehler" in err:
        return "unexpected Laufzeitfehler"
    if status < 0:
        return "killed by signal %d" % -status
    return "exit status %d" % status


def parse_blocks(out):
    """driver stdout -> ({id: (rlines, invlines, dline, status, stderr_text, other)}, unfinished)
    unfinished = (id, rlines, invlines, dline, other) of a history that began but has no X line (the driver died in it)"""
    res = {}
    cur, r, inv, d, other = None, [], [], None, []
    for line in out.split("\n"):
        if not line:
            continue
        tag = line[0]
        if tag == "B" and line[1] == " ":
            cur, r, inv, d, other = line[2:], [], [], None, []
        elif tag == "R" and line[1] == " ":
            r.append(line)
        elif tag == "I" and line.startswith("INV "):
            inv.append(line)
        elif tag == "D" and (len(line) == 1 or line[1] == " "):
            d = line
        elif tag == "X" and line[1] == " ":
            p = line.split(" ")
            if cur is not None and p[1] == cur:
                err = "" if p[3] == "-" else bytes.fromhex(p[3]).decode("utf-8", "replace")
                res[cur] = (r, inv, d, int(p[2]), err, other)
            cur = None
        else:
            other.append(line)
    return res, ((cur, r, inv, d, other) if cur is not None else None)


def _slots_of(fields):
    """['0=6162:4', '1=dead'] -> {0: (bytes, cap) | None}"""
    m = {}
    for f in fields:
        s, rest = f.split("=", 1)
        if rest == "dead":
            m[int(s)] = None
        else:
            h, cap = rest.rsplit(":", 1)
            m[int(s)] = (b"" if h == "-" else bytes.fromhex(h), int(cap))
    return m


def _show(s):
    return "".join("U+%04X " % ord(c) for c in s).strip() or "(empty)"


def judge_direct(cmds, block):
    """compare one executed history with the model. Returns (findings, steps_compared, tainted_steps).
    finding = (signature dict, text). After a mismatch on a value whose buffer went through an in-place shrink the
    model adopts the observed value and goes on; after any other mismatch the history is abandoned."""
    rlines, inv, dline, status, err, other = block
    st = State()
    findings = []
    steps = tainted_steps = 0
    resynced = False
    invk = {}
    for l in inv:
        p = l.split(" ", 3)
        invk.setdefault(int(p[1]), []).append("%s (slot %s)" % (p[3], p[2]))
    if other:
        findings.append(({"part": "direct", "op": "(protocol)", "history": FRESH, "symptom": "driver said: " + other[0][:60]}, "\n".join(other[:5])))
        return findings, steps, tainted_steps
    for k, cmd in enumerate(cmds):
        op = cmd[0]
        tainted = any(st.taint.get(s) for s in reads(cmd))
        hist = TAINT if tainted else FRESH
        before = dict(st.vals)
        exp = st.apply(cmd)
        where = "command %d `%s` (operands: %s)" % (k, " ".join(str(x) if not isinstance(x, str) else repr(x) for x in cmd),
                                                      ", ".join("%d=%s" % (s, _show(before.get(s, ""))) for s in reads(cmd)))
        if k >= len(rlines):
            if exp is ERROR:
                if status == 1 and "Laufzeitfehler" in err and (k == len(cmds) - 1 or resynced):
                    steps += 1
                    return findings, steps, tainted_steps
                findings.append(({"part": "direct", "op": op, "history": hist, "symptom": "out of domain: expected Laufzeitfehler and exit 1, got " + classify_death(status, err)},
                                 where + "\nstatus=%d\n%s" % (status, err[:1500])))
                return findings, steps, tainted_steps
            findings.append(({"part": "direct", "op": op, "history": hist, "symptom": classify_death(status, err)}, where + "\nstatus=%d\n%s" % (status, err[:3000])))
            return findings, steps, tainted_steps
        if exp is ERROR:
            findings.append(({"part": "direct", "op": op, "history": hist, "symptom": "out of domain but no Laufzeitfehler"}, where + "\n" + rlines[k]))
            return findings, steps, tainted_steps
        steps += 1
        tainted_steps += 1 if tainted else 0
        p = rlines[k].split(" ")
        if int(p[1]) != k or p[2] != op:
            findings.append(({"part": "direct", "op": "(protocol)", "history": FRESH, "symptom": "report out of step"}, where + "\n" + rlines[k]))
            return findings, steps, tainted_steps
        bad = []
        resync_ok = True
        # scalar
        if exp.scalar is not None:
            if op == "iter":
                want = ",".join("%d/%d" % x for x in exp.scalar) or "-"
            else:
                want = str(exp.scalar)
            if p[3] != want:
                bad.append("result %s, expected %s" % (p[3], want))
        obs = _slots_of(p[4:])
        for s in exp.slots:
            if s not in obs:
                bad.append("slot %d not reported" % s)
                resync_ok = False
                continue
            if s not in st.vals:
                if obs[s] is not None:
                    bad.append("slot %d should be dead" % s)
                continue
            if obs[s] is None:
                bad.append("slot %d dead" % s)
                resync_ok = False
                continue
            b, cap = obs[s]
            if b != st.vals[s].encode():
                try:
                    got = b.decode()
                    bad.append("slot %d holds %s (bytes %s, cap %d), expected %s" % (s, _show(got), b.hex() or "-", cap, _show(st.vals[s])))
                    if tainted:
                        st.vals[s] = got
                        resynced = True
                except UnicodeDecodeError:
                    bad.append("slot %d holds invalid UTF-8 %s, expected %s" % (s, b.hex(), _show(st.vals[s])))
                    resync_ok = False
        for w in invk.get(k, []):
            bad.append("invariant: " + w)
            resync_ok = False
        if bad:
            sym = "wrong result"
            if any(x.startswith("invariant") for x in bad):
                sym = [x for x in bad if x.startswith("invariant")][0].split(" (slot")[0].split(":", 2)
                sym = "%s:%s" % (sym[0], sym[1])
            sig = {"part": "direct", "op": op, "history": hist, "symptom": sym}
            if op == "repl" and not tainted:
                sig["widths"] = "%d->%d" % (width(before[cmd[1]][cmd[2] - 1]), width(chr(cmd[3])))
            findings.append((sig, where + "\n" + "\n".join(bad) + "\n" + rlines[k]))
            if not (tainted and resync_ok):
                return findings, steps, tainted_steps
    if status != 0:
        findings.append(({"part": "direct", "op": "(end)", "history": FRESH, "symptom": classify_death(status, err)}, "status=%d\n%s" % (status, err[:3000])))
    elif dline is None:
        findings.append(({"part": "direct", "op": "(end)", "history": FRESH, "symptom": "no final dump"}, ""))
    else:
        obs = _slots_of(dline.split(" ")[1:])
        for s, val in st.vals.items():
            if s not in obs or obs[s] is None or obs[s][0] != val.encode():
                findings.append(({"part": "direct", "op": "(final dump)", "history": TAINT if st.taint.get(s) else FRESH, "symptom": "slot changed behind the model's back"},
                                 "slot %d: %r expected %s" % (s, obs.get(s), _show(val))))
                break
    return findings, steps, tainted_steps


# ------------------------------------------------------------------ rendering as DDP

def ddp_text(s):
    return '"' + s.replace("\\", "\\\\").replace('"', '\\"').replace("\n", "\\n") + '"'


def ddp_char(cp, rng=None):
    ch = chr(cp)
    if ch == "\n":
        return "'\\n'"
    if ch == "'":
        return "'\\''"
    if ch == "\\":
        return "'\\\\'"
    if rng is not None and rng.random() < 0.25:
        return "(%d als Buchstabe)" % cp
    return "'%s'" % ch


def ddp_int(n):
    return str(n) if n >= 0 else "(%d)" % n


def render_ddp_history(h, cmds, nslots, rng):
    """DDP statements of one history; every command is followed by one tagged observation <<h.k ...>>"""
    v = lambda s: "h%ds%d" % (h, s)
    L = ["Der Text %s ist \"\"." % v(s) for s in range(nslots)]

    def obs_text(k, s):
        return ['Schreibe den Text "<<%d.%d T=".' % (h, k), "Schreibe den Text %s." % v(s), 'Schreibe den Text " L=".',
                "Schreibe die Zahl (die Länge von %s)." % v(s), 'Schreibe den Text ">>\\n".']

    for k, c in enumerate(cmds):
        op = c[0]
        if op == "lit":
            L.append("Speichere %s in %s." % (ddp_text(c[2]), v(c[1])))
            L += obs_text(k, c[1])
        elif op == "c2s":
            L.append("Speichere (%s als Text) in %s." % (ddp_char(c[2], rng), v(c[1])))
            L += obs_text(k, c[1])
        elif op == "i2s":
            L.append("Speichere (%s als Text) in %s." % (ddp_int(c[2]), v(c[1])))
            L += obs_text(k, c[1])
        elif op == "copy":
            L.append("Speichere %s in %s." % (v(c[2]), v(c[1])))
            L += obs_text(k, c[1])
        elif op == "cat":
            L.append("Speichere %s verkettet mit %s in %s." % (v(c[2]), v(c[3]), v(c[1])))
            L += obs_text(k, c[1])
        elif op == "catsc":
            L.append("Speichere %s verkettet mit %s in %s." % (v(c[2]), ddp_char(c[3], rng), v(c[1])))
            L += obs_text(k, c[1])
        elif op == "catcs":
            L.append("Speichere %s verkettet mit %s in %s." % (ddp_char(c[2], rng), v(c[3]), v(c[1])))
            L += obs_text(k, c[1])
        elif op == "slice":
            L.append("Speichere (%s im Bereich von %s bis %s) in %s." % (v(c[2]), ddp_int(c[3]), ddp_int(c[4]), v(c[1])))
            L += obs_text(k, c[1])
        elif op == "from":
            L.append("Speichere (%s ab dem %d. Element) in %s." % (v(c[2]), c[3], v(c[1])))
            L += obs_text(k, c[1])
        elif op == "upto":
            L.append("Speichere (%s bis zum %d. Element) in %s." % (v(c[2]), c[3], v(c[1])))
            L += obs_text(k, c[1])
        elif op == "repl":
            if rng.random() < 0.5:
                L.append("Speichere %s in %s an der Stelle %d." % (ddp_char(c[3], rng), v(c[1]), c[2]))
            else:
                L.append("%s an der Stelle %d ist %s." % (v(c[1]), c[2], ddp_char(c[3])))   # this form only takes a literal
            L += obs_text(k, c[1])
        elif op == "index":
            L += ['Schreibe den Text "<<%d.%d Z=".' % (h, k), "Schreibe die Zahl ((%s an der Stelle %d) als Zahl)." % (v(c[1]), c[2]),
                  'Schreibe den Text " B=".', "Schreibe den Buchstaben (%s an der Stelle %d)." % (v(c[1]), c[2]), 'Schreibe den Text ">>\\n".']
        elif op == "len":
            L += ['Schreibe den Text "<<%d.%d N=".' % (h, k), "Schreibe die Zahl (die Länge von %s)." % v(c[1]), 'Schreibe den Text ">>\\n".']
        elif op == "eq":
            L += ['Schreibe den Text "<<%d.%d G=".' % (h, k), "Schreibe den Wahrheitswert (%s gleich %s ist)." % (v(c[1]), v(c[2])),
                  'Schreibe den Text " U=".', "Schreibe den Wahrheitswert (%s ungleich %s ist)." % (v(c[1]), v(c[2])), 'Schreibe den Text ">>\\n".']
        elif op == "s2i":
            L += ['Schreibe den Text "<<%d.%d Z=".' % (h, k), "Schreibe die Zahl (%s als Zahl)." % v(c[1]), 'Schreibe den Text ">>\\n".']
        elif op == "iter":
            # guarded: a loop that does not stop by itself leaves after 40 rounds (and is then reported)
            n, b = "h%dn%d" % (h, k), "h%db%d" % (h, k)
            L += ['Schreibe den Text "<<%d.%d F=".' % (h, k), "Die Zahl %s ist 0." % n,
                  "Für jeden Buchstaben %s in %s, mache:" % (b, v(c[1])),
                  "\tErhöhe %s um 1." % n,
                  "\tWenn %s größer als 40 ist, verlasse die Schleife." % n,
                  "\tSchreibe die Zahl (%s als Zahl)." % b,
                  '\tSchreibe den Text ",".',
                  'Schreibe den Text ">>\\n".']
        else:
            raise ValueError(op)
    return L


def render_ddp_program(histories, nslots, rng):
    L = ['Binde "Duden/Ausgabe" ein.', ""]
    for h, cmds in histories:
        L += render_ddp_history(h, cmds, nslots, rng)
        L.append("")
    L.append('Schreibe den Text "<<END>>\\n".')
    return "\n".join(L) + "\n"


_OBS = re.compile(r"<<(\d+)\.(\d+) (.*?)>>\n", re.S)


def parse_ddp_output(out):
    m = {}
    for g in _OBS.finditer(out):
        m[(int(g.group(1)), int(g.group(2)))] = g.group(3)
    return m


def risky(cmds, nslots):
    """does the history apply equality / concatenation / iteration to a value whose buffer was shrunk in place, or compare
    two empty texts (memcmp on NULL pointers, reported by UBSan)? Used to keep those out of the sanitizer-linked programs,
    where the first report ends the process and hides every later observation."""
    st = State(nslots)
    for c in cmds:
        if c[0] in ("eq", "cat", "catsc", "catcs", "iter") and any(st.taint.get(s) for s in reads(c)):
            return True
        if c[0] == "eq" and st.vals[c[1]] == "" and st.vals[c[2]] == "":
            return True
        st.apply(c)
    return False


def judge_ddp(h, cmds, obs, nslots, part):
    """compare the observations of one history printed by a compiled program with the model"""
    st = State(nslots)
    findings = []
    steps = tainted_steps = 0
    for k, cmd in enumerate(cmds):
        op = cmd[0]
        tainted = any(st.taint.get(s) for s in reads(cmd))
        hist = TAINT if tainted else FRESH
        before = dict(st.vals)
        exp = st.apply(cmd)
        if exp is ERROR:     # only possible after the model adopted an observed (wrong) value
            findings.append(({"part": part, "op": op, "history": TAINT, "symptom": "out of domain for the observed value"}, "history %d command %d" % (h, k)))
            return findings, steps, tainted_steps
        where = "history %d command %d `%s` (operands: %s)" % (h, k, " ".join(str(x) if not isinstance(x, str) else repr(x) for x in cmd),
                                                               ", ".join("s%d=%s" % (s, _show(before.get(s, ""))) for s in reads(cmd)))
        got = obs.get((h, k))
        if got is None:
            findings.append(({"part": part, "op": op, "history": hist, "symptom": "observation missing"}, where))
            return findings, steps, tainted_steps
        steps += 1
        tainted_steps += 1 if tainted else 0
        bad = None
        resync = False
        if op in ("index",):
            want = "Z=%d B=%s" % (exp.scalar, chr(exp.scalar))
        elif op == "s2i":
            want = "Z=%d" % exp.scalar
        elif op == "len":
            want = "N=%d" % exp.scalar
        elif op == "eq":
            want = "G=%s U=%s" % (("wahr", "falsch") if exp.scalar else ("falsch", "wahr"))
        elif op == "iter":
            want = "F=" + "".join("%d," % cp for cp, _ in exp.scalar)
        else:
            d = cmd[1]
            want = "T=%s L=%d" % (st.vals[d], len(st.vals[d]))
            if got != want and tainted:
                m = re.match(r"T=(.*) L=(\d+)$", got, re.S)
                if m and len(m.group(1)) == int(m.group(2)):
                    st.vals[d] = m.group(1)
                    resync = True
        if got != want:
            bad = "printed %r, expected %r" % (got, want)
        if bad:
            sig = {"part": part, "op": op, "history": hist, "symptom": "wrong result"}
            if op == "iter" and got.count(",") >= 40:
                sig["symptom"] = "loop does not end"
            if op == "repl" and not tainted:
                sig["widths"] = "%d->%d" % (width(before[cmd[1]][cmd[2] - 1]), width(chr(cmd[3])))
            findings.append((sig, where + "\n" + bad))
            if not tainted or (op not in ("eq", "iter", "index", "len", "s2i") and not resync):
                return findings, steps, tainted_steps
    return findings, steps, tainted_steps
