"""C08 Values are copied; only Referenz parameters alias.
Reference-model monitor: programs create a second holder of a non-primitive value through every
copy-introducing construct, mutate one holder through every mutation form, and print all holders;
the reference evaluator has value semantics by construction. Plus calls passing the same variable by
value and by Referenz, callees that assign a global they also receive by value, at -O 0/1/2."""
import json
import os
import random

import vlib
from vlib import Check, Scratch
from ddpmodel import *
from ddpmodel.gen import Gen, StmtGen
from ddpmodel import runner
from checks import progcheck

PID = "C08"


RAHMEN = S("Rahmen")     # a Kombination whose only heap data lives in a NESTED Kombination (nr: Zahl, innen: Punkt)
SAFE_FOR_RAHMEN = ["init", "assign", "byvalue", "byvalue", "return", "falls", "refcall", "same_twice", "global", "list_store", "listlit", "foreach", "two_refs"]


class AliasGen(Gen):
    def __init__(self, rnd):
        super().__init__(rnd)
        self.prog.items.append(StructDecl("Rahmen", [("nr", Z, Lit(Z, 0)), ("innen", self.struct_ty, StructLit(self.struct_ty, []))]))

    def kinds(self):
        return [T, L(Z), L(T), L(K), self.struct_ty, L(self.struct_ty), V, RAHMEN, L(RAHMEN), L(RAHMEN)]

    def lit(self, ty):
        if ty == RAHMEN:
            inner = None
            while inner is None:
                inner = self.nonempty_lit(self.struct_ty)
            return StructLit(RAHMEN, [Lit(Z, self.r.randint(1, 9)), inner])
        if ty == L(RAHMEN):
            return ListLit(ty, [self.lit(RAHMEN) for _ in range(self.r.randint(1, 2))])
        return super().lit(ty)

    def print_value(self, e):
        if e.ty == RAHMEN:
            v = self.fresh("r")
            inn = Field(Var(v, RAHMEN), "innen", self.struct_ty)
            return [Decl(v, RAHMEN, e), Print(Field(Var(v, RAHMEN), "nr", Z), False), Print(Lit(T, "/"), False), Print(Field(inn, "name", T), False), Print(Lit(T, "/"), False),
                    Print(Field(inn, "werte", L(Z)), True)]
        if e.ty == L(RAHMEN):
            v, it = self.fresh("rl"), self.fresh("it")
            inn = Field(Var(it, RAHMEN), "innen", self.struct_ty)
            return [Decl(v, e.ty, e), Print(Un("laenge", Var(v, e.ty), Z), False),
                    ForEach(it, RAHMEN, Var(v, e.ty), [Print(Lit(T, "["), False), Print(Field(Var(it, RAHMEN), "nr", Z), False), Print(Lit(T, "/"), False), Print(Field(inn, "name", T), False),
                                                       Print(Lit(T, "/"), False), Print(Field(inn, "werte", L(Z)), False), Print(Lit(T, "]"), False)]),
                    Print(Lit(T, ""), True)]
        return super().print_value(e)

    def mutation(self, v, rnd):
        """statements that mutate holder v (a Var) in place, chosen by type"""
        ty = v.ty
        opts = []
        if ty == T:
            opts += [[Assign(Bin("index", v, Lit(Z, 1), C), Lit(C, Char(rnd.choice("Xä€😀"))))], [Assign(v, Bin("verkettet", v, Lit(T, "+"), T))], [Assign(v, Lit(T, "neu"))]]
        elif is_list(ty):
            e = ty[1]
            opts += [[Assign(Bin("index", v, Lit(Z, 1), e), self.lit(e))], [Assign(v, Bin("verkettet", v, self.lit(e), ty))], [Assign(v, self.lit(ty))]]
            if e == Z:
                opts.append([Compound("erhoehe", Bin("index", v, Lit(Z, 1), Z), Lit(Z, 5))])
            if e == RAHMEN:
                inn = Field(Bin("index", v, Lit(Z, 1), e), "innen", self.struct_ty)
                opts = [[Assign(Bin("index", Field(inn, "name", T), Lit(Z, 1), C), Lit(C, Char(rnd.choice("XQ"))))], [Assign(Bin("index", Field(inn, "werte", L(Z)), Lit(Z, 1), Z), Lit(Z, 77))],
                        [Assign(Field(inn, "name", T), Lit(T, "ersetzt"))], [Assign(Field(inn, "werte", L(Z)), Bin("verkettet", Field(inn, "werte", L(Z)), Lit(Z, 8), L(Z)))],
                        [Assign(Bin("index", v, Lit(Z, 1), e), self.lit(e))]]
            elif is_struct(e):
                opts.append([Assign(Field(Bin("index", v, Lit(Z, 1), e), "name", T), Lit(T, "geändert"))])
                opts.append([Assign(Bin("index", Field(Bin("index", v, Lit(Z, 1), e), "werte", L(Z)), Lit(Z, 1), Z), Lit(Z, -5))])
            if e == T:
                opts.append([Assign(Bin("index", Bin("index", v, Lit(Z, 1), T), Lit(Z, 1), C), Lit(C, Char("Q")))])
        elif ty == RAHMEN:
            inn = Field(v, "innen", self.struct_ty)
            opts += [[Assign(Bin("index", Field(inn, "name", T), Lit(Z, 1), C), Lit(C, Char(rnd.choice("XQ"))))], [Assign(Bin("index", Field(inn, "werte", L(Z)), Lit(Z, 1), Z), Lit(Z, 77))],
                     [Assign(Field(inn, "name", T), Lit(T, "ersetzt"))], [Assign(Field(v, "nr", Z), Lit(Z, 500))], [Assign(Field(inn, "werte", L(Z)), Bin("verkettet", Field(inn, "werte", L(Z)), Lit(Z, 8), L(Z)))]]
        elif is_struct(ty):
            opts += [[Assign(Field(v, "x", Z), Lit(Z, 99))], [Assign(Field(v, "name", T), Lit(T, "anders"))], [Assign(Bin("index", Field(v, "werte", L(Z)), Lit(Z, 1), Z), Lit(Z, 42))],
                     [Assign(Field(v, "werte", L(Z)), Bin("verkettet", Field(v, "werte", L(Z)), Lit(Z, 7), L(Z)))], [Assign(Bin("index", Field(v, "name", T), Lit(Z, 1), C), Lit(C, Char("Z")))],
                     [Compound("erhoehe", Field(v, "x", Z), Lit(Z, 1))]]
        elif ty == V:
            opts += [[Assign(v, Cast(Lit(T, "umgebogen"), V))], [Assign(v, Cast(self.lit(L(Z)), V))]]
        return rnd.choice(opts)

    def nonempty_lit(self, ty):
        """a literal with at least one element / character so that element mutations are in the domain"""
        for _ in range(20):
            l = self.lit(ty)
            if isinstance(l, ListLit) and not l.elems:
                continue
            if isinstance(l, Lit) and l.ty == T and not l.v:
                continue
            if ty in (RAHMEN, L(RAHMEN)):
                return l
            if isinstance(l, StructLit) and (not l.args or not l.args[2].elems or not l.args[1].v):
                continue
            if isinstance(l, ListLit) and is_struct(ty[1]) and any((not e.args or not e.args[2].elems or not e.args[1].v) for e in l.elems):
                continue
            if isinstance(l, ListLit) and ty[1] == T and not l.elems[0].v:
                continue
            return l
        return None

    def form(self, f, ty):
        """write callee f in one of the declaration forms (same function, other syntax; the -O 2 analysis treats each form separately)"""
        x = self.r.random()
        if x < 0.2 and f.params:
            f.form = "forward"
        elif x < 0.45 and any(p.ty == ty for p in f.params):
            f.form = ("generic", ty)
        if f.form is not None:
            self.cells.add(("callee_form", f.form if isinstance(f.form, str) else f.form[0]))
        return f

    def ref_mutator(self, ty):
        """function with one Referenz parameter that mutates it"""
        name = self.fresh("mut")
        p = Param("r_" + name, ty, ref=True)
        f = FuncDecl(name, [p], NICHTS, self.mutation(Var(p.name, ty), self.r))
        self.prog.items.append(f)
        return f

    def case(self):
        """one copy/mutate/observe case; returns number of observations added"""
        r = self.r
        ty = r.choice(self.kinds())
        init = self.nonempty_lit(ty) if ty != V else Cast(self.nonempty_lit(r.choice([T, L(Z), self.struct_ty])), V)
        if init is None:
            return 0
        orig = self.declare(ty, init)
        if orig is None:
            return 0
        construct = r.choice(["init", "assign", "byvalue", "byvalue", "list_store", "field_store", "foreach", "return", "falls", "listlit", "boxing", "refcall", "same_twice",
                              "same_twice", "part_ref", "part_ref", "global", "recursive", "operator", "operator", "nested_ref", "nested_ref", "foreach_source", "foreach_source", "two_refs", "two_refs", "unbox_operand"])
        if ty in (RAHMEN, L(RAHMEN)):
            construct = r.choice(SAFE_FOR_RAHMEN)
        self.cells.add(("construct", construct, progcheck.tn(ty) + ("(nested)" if ty in (RAHMEN, L(RAHMEN)) else "")))
        n0 = self.obs
        cp_name = self.fresh("k")
        cp = Var(cp_name, ty)
        stm = []
        if construct == "init":
            stm = [Decl(cp_name, ty, orig)]
        elif construct == "assign":
            other = self.nonempty_lit(ty) if ty != V else Cast(Lit(Z, 1), V)
            stm = [Decl(cp_name, ty, other), Assign(cp, orig)]
        elif construct == "return":
            fn = self.fresh("id")
            f = self.form(FuncDecl(fn, [Param("a_" + fn, ty)], ty, [Return(Var("a_" + fn, ty))]), ty)
            self.prog.items.append(f)
            stm = [Decl(cp_name, ty, Call(f, [orig], ty))]
        elif construct == "falls":
            stm = [Decl(cp_name, ty, Ter("falls", orig, Lit(W, r.random() < 0.5), orig, ty))]
        elif construct == "boxing" and ty != V:
            stm = [Decl(cp_name, ty, Cast(Cast(orig, V), ty))]
        elif construct == "byvalue":
            # callee mutates its by-value parameter and prints it; the caller's variable must be unchanged
            fn = self.fresh("byv")
            p = Param("a_" + fn, ty)
            body = self.mutation(Var(p.name, ty), r) + self.print_value(Var(p.name, ty))
            f = FuncDecl(fn, [p], NICHTS, body)
            self.form(f, ty)
            self.prog.items.append(f)
            if not self.try_top([Print(Lit(T, "#%d:" % (self.obs + 1)), False), ExprStmt(Call(f, [orig], NICHTS))] + self.observe(orig)):
                return 0
            self.obs += 1
            return self.obs - n0
        elif construct == "list_store" and not is_list(ty) and ty != V:
            lname = self.fresh("ll")
            lt = L(ty)
            ll = Var(lname, lt)
            filler = self.nonempty_lit(ty)
            if filler is None:
                return 0
            if not self.try_top([Decl(lname, lt, ListLit(lt, [filler, filler])), Assign(Bin("index", ll, Lit(Z, 2), ty), orig)] + self.mutation(orig, r) + self.observe(ll) + self.observe(orig)):
                return 0
            self.scope.vars.append((lname, lt, True))
            return self.obs - n0
        elif construct == "field_store" and ty in (T, L(Z)):
            sname = self.fresh("st")
            st = Var(sname, self.struct_ty)
            fld = "name" if ty == T else "werte"
            if not self.try_top([Decl(sname, self.struct_ty, StructLit(self.struct_ty, [])), Assign(Field(st, fld, ty), orig)] + self.mutation(orig, r) + self.observe(st) + self.observe(orig)
                                + self.mutation(Var(sname, self.struct_ty), r) + self.observe(st) + self.observe(orig)):
                return 0
            return self.obs - n0
        elif construct == "foreach" and is_list(ty):
            ev = self.fresh("e")
            e = Var(ev, ty[1])
            body = (self.mutation(e, r) if (ty[1] == T or is_struct(ty[1])) else [Assign(e, self.lit(ty[1]))]) + self.print_value(e)
            if not self.try_top([Print(Lit(T, "#%d:" % (self.obs + 1)), False), ForEach(ev, ty[1], orig, body)] + self.observe(orig)):
                return 0
            self.obs += 1
            return self.obs - n0
        elif construct == "foreach_source" and (is_list(ty) or ty == T):
            # the loop iterates over a snapshot: changing the iterated variable inside the body (at a position not visited yet, by
            # growing it, by replacing it) must not change what the remaining iterations see
            ev = self.fresh("e")
            ety = C if ty == T else ty[1]
            e = Var(ev, ety)
            last = Bin("index", orig, Un("laenge", orig, Z), ety)
            newv = Lit(C, Char(r.choice("Zä€"))) if ty == T else self.lit(ety)
            how = r.choice(["last", "last", "any", "grow"])
            self.cells.add(("foreach_source", how, progcheck.tn(ty)))
            if how == "last":
                change = [Assign(last, newv)]
            elif how == "grow":
                change = [Assign(orig, Bin("verkettet", orig, newv, ty))] if ty != T else [Assign(orig, Bin("verkettet", orig, Lit(T, "+"), T))]
                change = [If([(Bin("kleiner", Un("laenge", orig, Z), Lit(Z, 12), W), change)])]      # bounded growth
            else:
                change = self.mutation(orig, r)
            body = change + self.print_value(e)
            if not self.try_top([Print(Lit(T, "#%d:" % (self.obs + 1)), False), ForEach(ev, ety, orig, body)] + self.observe(orig)):
                return 0
            self.obs += 1
            return self.obs - n0
        elif construct == "listlit" and not is_list(ty) and ty != V:
            lt = L(ty)
            stm = [Decl(cp_name, lt, ListLit(lt, [orig, orig]))]
            cp = Var(cp_name, lt)
        elif construct == "refcall":
            f = self.ref_mutator(ty)
            # every change through the Referenz parameter must be visible in exactly the caller's variable
            other = self.declare(ty, orig)
            if other is None:
                return 0
            if not self.try_top([ExprStmt(Call(f, [orig], NICHTS))] + self.observe(orig) + self.observe(other)):
                return 0
            return self.obs - n0
        elif construct == "unbox_operand":
            # `(v als T) verkettet mit (f v)`: the unboxed payload of a Variable is an operand of its own; a later operand of the same
            # expression that changes the Variable (through a Referenz parameter) must not change the operand already evaluated
            pty = r.choice([T, L(Z)])
            payload = self.nonempty_lit(pty)
            box = self.declare(V, Cast(payload, V))
            if box is None:
                return 0
            fn = self.fresh("ub")
            p = Param("r_" + fn, V, ref=True)
            newval = Cast(Lit(T, "NEU"), V) if r.random() < 0.5 else Cast(self.nonempty_lit(pty), V)
            tail = Lit(T, "-ende") if pty == T else ListLit(L(Z), [Lit(Z, 99)])
            f = FuncDecl(fn, [p], pty, [Assign(Var(p.name, V), newval), Return(tail)])
            self.prog.items.append(f)
            self.cells.add(("unbox_operand", progcheck.tn(pty)))
            if not self.try_top(self.observe(Bin("verkettet", Cast(box, pty), Call(f, [box], pty), pty)) + self.observe(box)):
                return 0
            return self.obs - n0
        elif construct == "two_refs":
            # two Referenz parameters (or a Referenz parameter and a global) that may name the SAME variable: `Speichere b in a` inside the
            # callee is then a self-assignment in disguise; with different variables it is an ordinary copy whose holders stay independent
            flavour = r.choice(["ref-ref", "ref-ref", "ref-global", "global-ref"])
            fn = self.fresh("zr" if flavour == "ref-ref" else "glzr")     # "gl..": the callee names a global, the case must stay at top level
            if flavour != "ref-ref":
                self.cells.add(("construct", "global", "two_refs"))
            pa, pb = Param("a_" + fn, ty, ref=True), Param("b_" + fn, ty, ref=True)
            if flavour == "ref-ref":
                f = FuncDecl(fn, [pa, pb], NICHTS, [Assign(Var(pa.name, ty), Var(pb.name, ty))])
            elif flavour == "ref-global":
                f = FuncDecl(fn, [pa], NICHTS, [Assign(Var(pa.name, ty), orig)])
            else:
                f = FuncDecl(fn, [pb], NICHTS, [Assign(orig, Var(pb.name, ty))])
            self.form(f, ty)
            self.prog.items.append(f)
            self.cells.add(("two_refs", flavour, progcheck.tn(ty)))
            other = self.declare(ty, self.nonempty_lit(ty) if ty != V else Cast(Lit(T, "anderes"), V))
            if other is None:
                return 0
            same = [orig, orig] if flavour == "ref-ref" else [orig]
            diff = [other, orig] if flavour == "ref-ref" else [other]
            # same variable for both names, then different variables, then a mutation of one holder
            if not self.try_top([ExprStmt(Call(f, same, NICHTS))] + self.observe(orig)):
                return 0
            self.try_top([ExprStmt(Call(f, diff, NICHTS))] + self.observe(orig) + self.observe(other))
            self.try_top(self.mutation(other, r) + self.observe(orig) + self.observe(other))
            return self.obs - n0
        elif construct == "same_twice":
            # f(x by value, x by Referenz): callee only READS the value parameter (the -O 2 elision case) or assigns it
            fn = self.fresh("zw")
            a, b = Param("a_" + fn, ty), Param("b_" + fn, ty, ref=True)
            flavour = r.choice(["read_only", "assigning", "passing_on"])
            self.cells.add(("same_twice", flavour, progcheck.tn(ty)))
            mut_b = self.mutation(Var(b.name, ty), r)
            if flavour == "read_only":
                body = mut_b + self.print_value(Var(a.name, ty))
            elif flavour == "assigning":
                body = mut_b + self.print_value(Var(a.name, ty)) + self.mutation(Var(a.name, ty), r) + self.print_value(Var(a.name, ty))
            else:
                inner = self.fresh("in")
                fi = FuncDecl(inner, [Param("q_" + inner, ty)], NICHTS, self.print_value(Var("q_" + inner, ty)))
                self.prog.items.append(fi)
                body = mut_b + [ExprStmt(Call(fi, [Var(a.name, ty)], NICHTS))]
            params = [a, b] if r.random() < 0.5 else [b, a]
            f = FuncDecl(fn, params, NICHTS, body)
            self.form(f, ty)
            self.prog.items.append(f)
            if not self.try_top([Print(Lit(T, "#%d:" % (self.obs + 1)), False), ExprStmt(Call(f, [orig, orig], NICHTS))] + self.observe(orig)):
                return 0
            self.obs += 1
            return self.obs - n0
        elif construct == "part_ref":
            # f(k by value, <part of k> by Referenz): the callee changes the part through the reference and then reads its value parameter
            parts = []
            if is_struct(ty):
                parts = [(Field(orig, "werte", L(Z)), L(Z)), (Bin("index", Field(orig, "werte", L(Z)), Lit(Z, 1), Z), Z), (Field(orig, "name", T), T), (Field(orig, "x", Z), Z)]
            elif is_list(ty) and ty[1] != C:
                parts = [(Bin("index", orig, Lit(Z, 1), ty[1]), ty[1])]
                if is_struct(ty[1]):
                    parts.append((Field(Bin("index", orig, Lit(Z, 1), ty[1]), "name", T), T))
            if not parts:
                return 0
            part, pty = r.choice(parts)
            fn = self.fresh("pr")
            a, b = Param("a_" + fn, ty), Param("b_" + fn, pty, ref=True)
            bvar = Var(b.name, pty)
            if pty == Z:
                mut_b = [Assign(bvar, Lit(Z, r.choice([99, -5, 12345])))]
            elif pty == T:
                mut_b = [Assign(bvar, Lit(T, "durch Referenz"))]
            elif pty in (K, B, W, C):
                mut_b = [Assign(bvar, self.lit(pty))]
            else:
                mut_b = self.mutation(bvar, r)
            flavour = r.choice(["read_only", "read_only", "assigning"])
            self.cells.add(("part_ref", flavour, progcheck.tn(ty), progcheck.tn(pty)))
            body = mut_b + self.print_value(Var(a.name, ty))
            if flavour == "assigning":
                body += self.mutation(Var(a.name, ty), r) + self.print_value(Var(a.name, ty))
            params = [a, b] if r.random() < 0.5 else [b, a]
            args = [orig, part] if params[0] is a else [part, orig]
            f = FuncDecl(fn, params, NICHTS, body)
            self.form(f, ty)
            self.prog.items.append(f)
            if not self.try_top([Print(Lit(T, "#%d:" % (self.obs + 1)), False), ExprStmt(Call(f, args, NICHTS))] + self.observe(orig)):
                return 0
            self.obs += 1
            return self.obs - n0
        elif construct == "recursive":
            # a recursive callee passes its own by-value parameter on, by value and as Referenz
            fn = self.fresh("rk")
            n, a, b = Param("n_" + fn, Z), Param("a_" + fn, ty), Param("b_" + fn, ty, ref=True)
            f = FuncDecl(fn, [n, a, b], NICHTS, [])
            rec = Call(f, [Bin("minus", Var(n.name, Z), Lit(Z, 1), Z), Var(a.name, ty), Var(a.name, ty)], NICHTS)
            f.body = [If([(Bin("groesser", Var(n.name, Z), Lit(Z, 0), W), [ExprStmt(rec)])])] + self.mutation(Var(b.name, ty), r) + self.print_value(Var(a.name, ty))
            self.form(f, ty)
            self.prog.items.append(f)
            other = self.declare(ty, self.nonempty_lit(ty) if ty != V else Cast(Lit(T, "anderes"), V))
            if other is None:
                return 0
            if not self.try_top([Print(Lit(T, "#%d:" % (self.obs + 1)), False), ExprStmt(Call(f, [Lit(Z, r.randint(1, 2)), orig, other], NICHTS))] + self.observe(orig) + self.observe(other)):
                return 0
            self.obs += 1
            return self.obs - n0
        elif construct == "operator" and ty != V:
            # an operator overload with a Referenz parameter changes its operand; applied to a by-value parameter inside a
            # function it must change that function's copy only, applied to the holder itself it must change the holder
            used = getattr(self, "used_ops", None)
            if used is None:
                used = self.used_ops = set()
            free = [o for o in ("Betrag", "logisch nicht", "unäres minus") if (o, ty) not in used]
            if not free:
                return 0
            op = r.choice(free)
            used.add((op, ty))
            on = self.fresh("op")
            a = Param("a_" + on, ty, ref=True)
            fo = FuncDecl(on, [a], Z, self.mutation(Var(a.name, ty), r) + [Return(Lit(Z, r.randint(1, 9)))], form=("operator", op))
            self.prog.items.append(fo)
            flavour = r.choice(["on_parameter", "on_parameter", "on_holder"])
            self.cells.add(("operator", flavour, op, progcheck.tn(ty)))
            if flavour == "on_holder":
                if not self.try_top([Print(Lit(T, "#%d:" % (self.obs + 1)), False), Print(Call(fo, [orig], Z), True)] + self.observe(orig)):
                    return 0
            else:
                wn = self.fresh("ow")
                pw = Param("p_" + wn, ty)
                fw = FuncDecl(wn, [pw], NICHTS, [Print(Call(fo, [Var(pw.name, ty)], Z), True)] + self.print_value(Var(pw.name, ty)))
                self.form(fw, ty)
                self.prog.items.append(fw)
                if not self.try_top([Print(Lit(T, "#%d:" % (self.obs + 1)), False), ExprStmt(Call(fw, [orig], NICHTS))] + self.observe(orig)):
                    return 0
            self.obs += 1
            return self.obs - n0
        elif construct == "nested_ref":
            # f(x by value, g(x as Referenz)): the Referenz is passed in a NESTED call inside another argument of the same call
            gn, fn = self.fresh("ng"), self.fresh("nf")
            ga = Param("a_" + gn, ty, ref=True)
            fg = FuncDecl(gn, [ga], Z, self.mutation(Var(ga.name, ty), r) + [Return(Lit(Z, r.randint(1, 9)))])
            self.form(fg, ty)
            t, u = Param("t_" + fn, ty), Param("u_" + fn, Z)
            flavour = r.choice(["read_only", "read_only", "assigning"])
            self.cells.add(("nested_ref", flavour, progcheck.tn(ty)))
            body = [Print(Var(u.name, Z), True)] + self.print_value(Var(t.name, ty))
            if flavour == "assigning":
                body += self.mutation(Var(t.name, ty), r) + self.print_value(Var(t.name, ty))
            params = [t, u] if r.random() < 0.6 else [u, t]
            ff = FuncDecl(fn, params, NICHTS, body)
            self.form(ff, ty)
            self.prog.items += [fg, ff]
            inner = Call(fg, [orig], Z)
            args = [orig, inner] if params[0] is t else [inner, orig]
            if not self.try_top([Print(Lit(T, "#%d:" % (self.obs + 1)), False), ExprStmt(Call(ff, args, NICHTS))] + self.observe(orig)):
                return 0
            self.obs += 1
            return self.obs - n0
        elif construct == "global":
            # callee assigns a global that it also receives by value
            fn = self.fresh("gl")
            a = Param("a_" + fn, ty)
            body = self.mutation(orig, r) + self.print_value(Var(a.name, ty)) + self.print_value(orig)
            f = FuncDecl(fn, [a], NICHTS, body)
            self.prog.items.append(f)
            if not self.try_top([Print(Lit(T, "#%d:" % (self.obs + 1)), False), ExprStmt(Call(f, [orig], NICHTS))] + self.observe(orig)):
                return 0
            self.obs += 1
            return self.obs - n0
        if not stm:
            return 0
        if not self.try_top(stm):
            return 0
        self.scope.vars.append((cp.name, cp.ty, True))
        # mutate one of the two holders, observe both; then the other way round
        first, second = (orig, cp) if r.random() < 0.5 else (cp, orig)
        if is_list(cp.ty) and cp.ty != ty:      # list literal holder: mutate the original only
            first = orig
        self.try_top(self.mutation(first, r) + self.observe(orig) + self.observe(cp))
        if cp.ty == ty:
            self.try_top(self.mutation(second, r) + self.observe(orig) + self.observe(cp))
        return self.obs - n0


def build(rnd):
    """about half of the cases are moved into a function of their own, so that the holders are LOCAL variables
    (the -O 2 copy elision only applies to locals; globals are always copied)"""
    g = AliasGen(rnd)
    tries = 0
    while g.obs < 40 and tries < 60:
        tries += 1
        i0 = len(g.prog.items)
        vars0 = len(g.scope.vars)
        n = g.case()
        new_items = g.prog.items[i0:]
        uses_global = any(isinstance(c, tuple) and c[0] == "construct" and c[1] == "global" for c in g.cells) and any(
            isinstance(it, FuncDecl) and it.name.startswith("gl") for it in new_items)
        if n and new_items and not uses_global and rnd.random() < 0.55:
            decls = [it for it in new_items if isinstance(it, (FuncDecl, StructDecl))]
            stmts = [it for it in new_items if not isinstance(it, (FuncDecl, StructDecl))]
            if stmts:
                wname = g.fresh("lokal")
                wrapper = FuncDecl(wname, [], NICHTS, stmts)
                g.prog.items[i0:] = decls + [wrapper, ExprStmt(Call(wrapper, [], NICHTS))]
                del g.scope.vars[vars0:]
                g.cells.add(("holders", "local"))
        elif n:
            g.cells.add(("holders", "global"))
    return g


def run(tier):
    vlib.ensure_build(asan=False)
    chk = Check(PID, tier)
    nprog = 70 if tier == "quick" else 2500
    chk.rule = ("cases = copy-introducing construct {init, assign, by-value argument, list store, field store, for-each element, return, falls arm, list literal, Variable "
                "boxing, Referenz callee, same variable by value and by Referenz (read-only / assigning / passing-on callee bodies), callee assigning a global it also "
                "receives by value} x value kind {Text, lists, Kombination, list of Kombination, Variable} x mutation form {assign, indexed assign, field assign, nested "
                "indexed/field assign, compound assign, character replacement, append}; every holder is printed after each mutation. ~40 observations per program, each "
                "program at -O 0, 1 and 2. Distinct by source hash; non-trivial when it has >= 1 observation.")
    chk.assumptions = ["the reference evaluator copies on every initialisation, assignment, by-value argument, store, iteration element and return", "locale shim de_DE.UTF-8"]
    with Scratch("c08") as sc:
        def work(i):
            rnd = random.Random("%d/%s/%d" % (chk.seed, PID, i))
            g = build(rnd)
            try:
                exp = runner.expected(g.prog)
            except ModelDomain:
                return None
            outs = []
            for O in (0, 1, 2):
                cls, res = runner.judge(g.prog, os.path.join(sc.path, "p%d" % i), O=O, exp=exp)
                outs.append((O, cls, res))
            return i, g, exp, outs

        nviol = 0
        for r in vlib.pmap(work, range(nprog)):
            if r is None:
                chk.count("discarded_outside_model")
                continue
            i, g, exp, outs = r
            chk.note_case(hash(outs[0][2].get("src", "")), nontrivial=g.obs > 0)
            chk.count("observations", g.obs)
            for c in g.cells:
                chk.distinct.add(("cell",) + tuple(c))
            for O, cls, res in outs:
                chk.count("executions")
                if cls == "ok":
                    continue
                if cls == "inconclusive":
                    chk.inconclusive += 1
                    continue
                nviol += 1
                if nviol > 6:
                    chk.count("further_failing_executions")
                    continue
                progcheck.handle_violation(chk, "aliasing", g.prog, cls, res, O, os.path.join(sc.path, "v%d_%d" % (i, O)), reduce_budget=50)
            if i < 2:
                chk.sample({"source_tail": outs[0][2].get("src", "")[-900:], "expected_stdout_head": exp[0][:200], "verdicts": [(O, c) for O, c, _ in outs]})
        chk.extra["cells_covered"] = len([d for d in chk.distinct if isinstance(d, tuple) and d and d[0] == "cell"])
    return chk.finish(min_events=10)


def replay(path):
    from checks import c01
    return c01.replay(path)
