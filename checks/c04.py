"""C04 Statically ill-formed programs are never accepted.
Invariant monitor at the front end's boundary: a well-formed generated program (accepted by the real front
end - checked) gets exactly ONE injected static fault from a catalogue in which every entry is ill-formed by
construction; each fault has a well-formed twin (positive control) that must be accepted, so a rejection is
attributable to the fault. Oracle: >= 1 error diagnostic and Faulty (ddpprobe); for a sample the real kddp
must exit non-zero and leave no executable."""
import json
import os
import random

import vlib
from vlib import Check, Scratch, Probe, ProbeDied
from ddpmodel import *
from ddpmodel.gen import StmtGen

PID = "C04"

TYPES = {"Zahl": ("Die", "7"), "Kommazahl": ("Die", "2,5"), "Byte": ("Der", "(7 als Byte)"), "Wahrheitswert": ("Der", "wahr"), "Buchstabe": ("Der", "'c'"),
         "Text": ("Der", '"txt"'), "Zahlen Liste": ("Die", "(eine Liste, die aus 1, 2 besteht)"), "Text Liste": ("Die", '(eine Liste, die aus "a" besteht)')}
# pairs (source expr type, target type) that are NOT assignable (not equal, not both numeric, target not Variable)
NUMERIC = ("Zahl", "Kommazahl", "Byte")


def assignable(src, dst):
    return src == dst or (src in NUMERIC and dst in NUMERIC)


def faults(rnd, n):
    """returns list of (class, faulty lines, twin lines) - lines are statements at indentation 0 to be placed at a site.
    %N% is replaced by a unique suffix."""
    out = []
    tnames = list(TYPES)
    # 1 undeclared name in expression positions
    for pos in ["Die Zahl a%N% ist unbekannt%N% plus 1.", "Die Zahl a%N% ist 1.\nSpeichere unbekannt%N% in a%N%.", "Wenn unbekannt%N%, dann:\n\tDie Zahl b%N% ist 1.",
                "Die Zahl a%N% ist 1.\nSpeichere 2 in unbekannt%N%.", "Schreibe unbekannt%N%.", "Die Zahl a%N% ist (die Länge von unbekannt%N%).",
                "Für jede Zahl i%N% von 1 bis unbekannt%N%, mache:\n\tDie Zahl b%N% ist i%N%.", "Die Zahlen Liste l%N% ist eine Liste, die aus 1, unbekannt%N% besteht."]:
        twin = "Die Zahl unbekannt%N% ist 3.\n" + pos
        if "Wenn unbekannt" in pos:
            twin = "Der Wahrheitswert unbekannt%N% ist wahr.\n" + pos
        if "Länge von unbekannt" in pos:
            twin = 'Der Text unbekannt%N% ist "abc".\n' + pos
        out.append(("undeclared name", pos, twin))
    out.append(("undeclared name in argument of overloaded call", "Schreibe (unbekannt%N% plus 1) auf eine Zeile.", "Die Zahl unbekannt%N% ist 3.\nSchreibe (unbekannt%N% plus 1) auf eine Zeile."))
    for bad, good in [("der Standardwert von einem Kommazahl", "der Standardwert von einer Kommazahl"), ("die Größe von einem Zahl", "die Größe von einer Zahl"),
                      ("der Standardwert von einer Text", "der Standardwert von einem Text"), ("der Standardwert von einem Zahlen Liste", "der Standardwert von einer Zahlen Liste")]:
        out.append(("wrong article in argument of overloaded call", "Schreibe (%s) auf eine Zeile." % bad, "Schreibe (%s) auf eine Zeile." % good))
    # 2 use after the declaring block ended / loop variable after the loop
    out.append(("out of scope: after block", "Wenn wahr, dann:\n\tDie Zahl inn%N% ist 1.\nDie Zahl a%N% ist inn%N%.", "Die Zahl inn%N% ist 1.\nWenn wahr, dann:\n\tDie Zahl c%N% ist inn%N%.\nDie Zahl a%N% ist inn%N%."))
    out.append(("out of scope: loop variable", "Für jede Zahl lv%N% von 1 bis 2, mache:\n\tDie Zahl c%N% ist lv%N%.\nDie Zahl a%N% ist lv%N%.",
                "Für jede Zahl lv%N% von 1 bis 2, mache:\n\tDie Zahl c%N% ist lv%N%.\nDie Zahl a%N% ist 1."))
    out.append(("out of scope: foreach variable", "Für jeden Buchstaben lv%N% in \"ab\", mache:\n\tDer Buchstabe c%N% ist lv%N%.\nDer Buchstabe a%N% ist lv%N%.",
                "Für jeden Buchstaben lv%N% in \"ab\", mache:\n\tDer Buchstabe c%N% ist lv%N%.\nDer Buchstabe a%N% ist 'x'."))
    out.append(("out of scope: inner of nested", "Wenn wahr, dann:\n\tWenn wahr, dann:\n\t\tDie Zahl inn%N% ist 1.\n\tDie Zahl a%N% ist inn%N%.",
                "Wenn wahr, dann:\n\tDie Zahl inn%N% ist 1.\n\tWenn wahr, dann:\n\t\tDie Zahl c%N% ist inn%N%.\n\tDie Zahl a%N% ist inn%N%."))
    # 3 redeclaration in one scope
    out.append(("redeclaration: variable", "Die Zahl dup%N% ist 1.\nDie Zahl dup%N% ist 2.", "Die Zahl dup%N% ist 1.\nWenn wahr, dann:\n\tDie Zahl dup%N% ist 2."))
    out.append(("redeclaration: other type", "Die Zahl dup%N% ist 1.\nDer Text dup%N% ist \"x\".", "Die Zahl dup%N% ist 1.\nDer Text dupp%N% ist \"x\"."))
    # 4 operand outside the operator's domain
    for expr, ok in [("wahr plus 1", "1 plus 1"), ('"a" mal 2', "3 mal 2"), ("nicht 5", "nicht wahr"), ("die Länge von 5", 'die Länge von "abc"'), ('-"x"', "-3"),
                     ("1 und wahr", "wahr und wahr"), ('"a" kleiner als 2 ist', "1 kleiner als 2 ist"), ("wahr logisch und 1", "3 logisch und 1"),
                     ("'c' durch 2", "4 durch 2"), ("2,5 modulo 2", "5 modulo 2"), ("der Betrag von wahr", "der Betrag von -2"), ('1 gleich "1" ist', "1 gleich 1 ist"),
                     ("5 an der Stelle 1", '"abc" an der Stelle 1'), ('"abc" an der Stelle "1"', '"abc" an der Stelle 2'), ("1 verkettet mit wahr", '"a" verkettet mit "b"'),
                     ("wahr, falls 1, ansonsten falsch", "wahr, falls wahr, ansonsten falsch"), ('1, falls wahr, ansonsten "x"', "1, falls wahr, ansonsten 2"),
                     ("2 um wahr Bit nach links verschoben", "2 um 1 Bit nach links verschoben"), ('"a" zwischen 1 und 3 ist', "2 zwischen 1 und 3 ist"),
                     ('"abc" im Bereich von wahr bis 2', '"abc" im Bereich von 1 bis 2'), ("logisch nicht 2,5", "logisch nicht 2")]:
        out.append(("operand type", "Die Variable o%N% ist (" + expr + ").", "Die Variable o%N% ist (" + ok + ")."))
        # the same fault inside an argument of an overloaded alias (several candidates are tried on the cached argument)
        if not ok.startswith(('"abc" im Bereich', "wahr, falls", "1, falls")):
            out.append(("operand type in argument of overloaded call", "Schreibe (" + expr + ") auf eine Zeile.", "Schreibe (" + ok + ") auf eine Zeile."))
    # 5 non-assignable value: initialiser, assignment, argument, condition, loop bound, step, repeat count, return
    for src in tnames:
        for dst in tnames:
            if assignable(src, dst):
                continue
            art, _ = TYPES[dst]
            sv, dv = TYPES[src][1], TYPES[dst][1]
            out.append(("initialiser type", "%s %s w%%N%% ist %s." % (art, dst, sv), "%s %s w%%N%% ist %s." % (art, dst, dv)))
            out.append(("assigned value type", "%s %s w%%N%% ist %s.\nSpeichere %s in w%%N%%." % (art, dst, dv, sv), "%s %s w%%N%% ist %s.\nSpeichere %s in w%%N%%." % (art, dst, dv, dv)))
    for src in ("Text", "Zahlen Liste", "Zahl"):
        sv = TYPES[src][1]
        if src != "Zahl":
            out.append(("loop bound type", "Für jede Zahl i%%N%% von 1 bis %s, mache:\n\tDie Zahl b%%N%% ist i%%N%%." % sv, "Für jede Zahl i%N% von 1 bis 3, mache:\n\tDie Zahl b%N% ist i%N%."))
            out.append(("loop start type", "Für jede Zahl i%%N%% von %s bis 3, mache:\n\tDie Zahl b%%N%% ist i%%N%%." % sv, "Für jede Zahl i%N% von 1 bis 3, mache:\n\tDie Zahl b%N% ist i%N%."))
            out.append(("step type", "Für jede Zahl i%%N%% von 1 bis 3 mit Schrittgröße %s, mache:\n\tDie Zahl b%%N%% ist i%%N%%." % sv, "Für jede Zahl i%N% von 1 bis 3 mit Schrittgröße 2, mache:\n\tDie Zahl b%N% ist i%N%."))
            out.append(("repeat count type", "Wiederhole:\n\tDie Zahl b%%N%% ist 1.\n%s Mal." % sv, "Wiederhole:\n\tDie Zahl b%N% ist 1.\n2 Mal."))
        out.append(("condition type", "Wenn %s, dann:\n\tDie Zahl b%%N%% ist 1." % sv, "Wenn wahr, dann:\n\tDie Zahl b%N% ist 1."))
        out.append(("while condition type", "Solange %s, mache:\n\tVerlasse die Schleife." % sv, "Solange wahr, mache:\n\tVerlasse die Schleife."))
    out.append(("foreach collection type", "Für jede Zahl e%N% in 5, mache:\n\tDie Zahl b%N% ist e%N%.", "Für jede Zahl e%N% in (eine Liste, die aus 1, 2 besteht), mache:\n\tDie Zahl b%N% ist e%N%."))
    out.append(("foreach element type", "Für jeden Text e%N% in (eine Liste, die aus 1, 2 besteht), mache:\n\tDer Text b%N% ist e%N%.", "Für jede Zahl e%N% in (eine Liste, die aus 1, 2 besteht), mache:\n\tDie Zahl b%N% ist e%N%."))
    # 5b further value positions with a type: list literal elements, element / field assignment, compound assignment, casts, type definitions
    # (hn_c04: value of a type definition of Zahl, pk_c04: Kombination with the Zahl field x - both declared by OPERAND_PRELUDE)
    for cls, bad, good in [
        ("list literal element type", 'Die Zahlen Liste l%N% ist eine Liste, die aus 1, "a" besteht.', "Die Zahlen Liste l%N% ist eine Liste, die aus 1, 2 besteht."),
        ("list literal element type", "Die Text Liste l%N% ist eine Liste, die aus \"a\", 2 besteht.", 'Die Text Liste l%N% ist eine Liste, die aus "a", "b" besteht.'),
        ("list literal element type", "Die Zahlen Liste l%N% ist eine Liste, die aus 1, hn_c04 besteht.", "Die Zahlen Liste l%N% ist eine Liste, die aus 1, (hn_c04 als Zahl) besteht."),
        ("element assignment type", 'Die Zahlen Liste l%N% ist eine Liste, die aus 1, 2 besteht.\nSpeichere "a" in l%N% an der Stelle 1.',
         "Die Zahlen Liste l%N% ist eine Liste, die aus 1, 2 besteht.\nSpeichere 3 in l%N% an der Stelle 1."),
        ("element assignment type", 'Der Text t%N% ist "abc".\nSpeichere "x" in t%N% an der Stelle 1.', "Der Text t%N% ist \"abc\".\nSpeichere 'x' in t%N% an der Stelle 1."),
        ("field assignment type", 'Speichere "a" in x von pk_c04.', "Speichere 3 in x von pk_c04."),
        ("field assignment type", "Speichere hn_c04 in x von pk_c04.", "Speichere (hn_c04 als Zahl) in x von pk_c04."),
        ("unknown field", "Die Zahl q%N% ist y von pk_c04.", "Die Zahl q%N% ist x von pk_c04."),
        ("field of a non-Kombination", "Die Zahl z%N% ist 1.\nDie Zahl q%N% ist x von z%N%.", "Die Zahl q%N% ist x von pk_c04."),
        ("compound assignment type", 'Der Text t%N% ist "a".\nErhöhe t%N% um 1.', "Die Zahl t%N% ist 1.\nErhöhe t%N% um 1."),
        ("compound assignment type", 'Die Zahl t%N% ist 1.\nErhöhe t%N% um "a".', "Die Zahl t%N% ist 1.\nErhöhe t%N% um 2."),
        ("compound assignment type", "Der Wahrheitswert t%N% ist wahr.\nVervielfache t%N% um 2.", "Die Zahl t%N% ist 1.\nVervielfache t%N% um 2."),
        ("compound assignment type", "Verringere hn_c04 um 1.", "Die Zahl t%N% ist 1.\nVerringere t%N% um 1."),
        ("cast type", 'Die Variable c%N% ist ("abc" als Zahlen Liste).', 'Die Variable c%N% ist ("5" als Zahl).'),
        ("cast type", "Die Variable c%N% ist (pk_c04 als Zahl).", "Die Variable c%N% ist (hn_c04 als Zahl)."),
        ("cast type", "Die Variable c%N% ist (wahr als Hausnummer_c04).", "Die Variable c%N% ist (7 als Hausnummer_c04)."),
        ("type definition is opaque", "Die Hausnummer_c04 h%N% ist 5.", "Die Hausnummer_c04 h%N% ist 5 als Hausnummer_c04."),
        ("type definition is opaque", "Die Zahl z%N% ist hn_c04.", "Die Zahl z%N% ist hn_c04 als Zahl."),
        ("type definition is opaque", "Die Zahl z%N% ist 1.\nSpeichere hn_c04 in z%N%.", "Die Zahl z%N% ist 1.\nSpeichere (hn_c04 als Zahl) in z%N%."),
        ("type definition is opaque", "Die Kommazahl z%N% ist hn_c04.", "Die Kommazahl z%N% ist (hn_c04 als Zahl)."),
        ("Kombination value type", "Der Punkt_c04 p%N% ist 5.", "Der Punkt_c04 p%N% ist Standard_Punkt_c04."),
        ("Kombination value type", "Die Zahl z%N% ist pk_c04.", "Die Zahl z%N% ist x von pk_c04."),
        ("type test on a non-Variable", "Der Wahrheitswert w%N% ist (5 eine Zahl ist).", "Die Variable v%N% ist 5.\nDer Wahrheitswert w%N% ist (v%N% eine Zahl ist)."),
    ]:
        out.append((cls, bad, good))
    # 6 Konstante: assignment, compound assignment, Referenz passing
    konst = "Die Konstante k%N% ist 5.\n"
    out.append(("constant: assignment", konst + "Speichere 6 in k%N%.", konst + "Die Zahl z%N% ist k%N%."))
    out.append(("constant: compound assignment", konst + "Erhöhe k%N% um 1.", konst + "Die Zahl z%N% ist k%N% plus 1."))
    # 7 loop control outside of a loop
    out.append(("break outside loop", "Wenn wahr, dann:\n\tVerlasse die Schleife.", "Solange wahr, mache:\n\tVerlasse die Schleife."))
    out.append(("continue outside loop", "Wenn wahr, dann:\n\tFahre mit der Schleife fort.", "Wiederhole:\n\tFahre mit der Schleife fort.\n1 Mal."))
    return out


# faults that need their own top-level declarations (functions, modules); (class, full faulty tail, full twin tail, extra files)
# systematic operand-type faults: every operator x every operand slot x every value kind outside the slot's domain
_NUM, _INT, _CONT, _BOOL = {"Z", "K", "Y"}, {"Z", "Y"}, {"T", "ZL", "TL"}, {"W"}
OPERAND_VALUES = {"Z": "7", "K": "2,5", "Y": "(7 als Byte)", "W": "wahr", "C": "'c'", "T": '"txt"', "ZL": "(eine Liste, die aus 1, 2 besteht)",
                  "TL": '(eine Liste, die aus "a" besteht)', "TD": "hn_c04", "S": "pk_c04"}
OPERAND_KIND_NAMES = {"Z": "Zahl", "K": "Kommazahl", "Y": "Byte", "W": "Wahrheitswert", "C": "Buchstabe", "T": "Text", "ZL": "Zahlen Liste", "TL": "Text Liste",
                      "TD": "type definition of Zahl", "S": "Kombination"}
# declarations the TD / S values need; appended to every base program (which must still be accepted)
OPERAND_PRELUDE = ('Wir definieren eine Hausnummer_c04 als eine Zahl.\nDie Hausnummer_c04 hn_c04 ist 5 als Hausnummer_c04.\nWir nennen die Kombination aus\n'
                   '\tder Zahl x mit Standardwert 0,\neinen Punkt_c04, und erstellen sie so:\n\t"Standard_Punkt_c04"\nDer Punkt_c04 pk_c04 ist Standard_Punkt_c04.\n')
OPERATORS = [
    ("plus", "{0} plus {1}", ["1", "2"], [_NUM, _NUM]), ("minus", "{0} minus {1}", ["1", "2"], [_NUM, _NUM]), ("mal", "{0} mal {1}", ["1", "2"], [_NUM, _NUM]),
    ("durch", "{0} durch {1}", ["1", "2"], [_NUM, _NUM]), ("hoch", "{0} hoch {1}", ["2", "3"], [_NUM, _NUM]), ("modulo", "{0} modulo {1}", ["5", "2"], [_INT, _INT]),
    ("logisch und", "{0} logisch und {1}", ["5", "2"], [_INT, _INT]), ("logisch oder", "{0} logisch oder {1}", ["5", "2"], [_INT, _INT]),
    ("logisch kontra", "{0} logisch kontra {1}", ["5", "2"], [_INT, _INT]), ("nach links verschoben", "{0} um {1} Bit nach links verschoben", ["5", "2"], [_INT, _INT]),
    ("nach rechts verschoben", "{0} um {1} Bit nach rechts verschoben", ["5", "2"], [_INT, _INT]), ("kleiner als", "{0} kleiner als {1} ist", ["1", "2"], [_NUM, _NUM]),
    ("größer als", "{0} größer als {1} ist", ["1", "2"], [_NUM, _NUM]), ("kleiner als, oder", "{0} kleiner als, oder {1} ist", ["1", "2"], [_NUM, _NUM]),
    ("größer als, oder", "{0} größer als, oder {1} ist", ["1", "2"], [_NUM, _NUM]), ("zwischen", "{0} zwischen {1} und {2} ist", ["2", "1", "3"], [_NUM, _NUM, _NUM]),
    ("und", "{0} und {1}", ["wahr", "falsch"], [_BOOL, _BOOL]), ("oder", "{0} oder {1}", ["wahr", "falsch"], [_BOOL, _BOOL]), ("nicht", "nicht {0}", ["wahr"], [_BOOL]),
    ("Betrag", "der Betrag von {0}", ["3"], [_NUM]), ("logisch nicht", "logisch nicht {0}", ["3"], [_INT]), ("Länge", "die Länge von {0}", ['"abc"'], [_CONT]),
    ("an der Stelle", "{0} an der Stelle {1}", ['"abc"', "1"], [_CONT, {"Z"}]), ("im Bereich", "{0} im Bereich von {1} bis {2}", ['"abc"', "1", "2"], [_CONT, {"Z"}, {"Z"}]),
    ("ab dem", "{0} ab dem {1}. Element", ['"abc"', "2"], [_CONT, {"Z"}]), ("bis zum", "{0} bis zum {1}. Element", ['"abc"', "2"], [_CONT, {"Z"}]),
    ("falls", "{0}, falls {1}, ansonsten {2}", ["1", "wahr", "2"], [None, _BOOL, None]),
]


def operand_faults():
    """(class, faulty line, twin line); all 382 were rejected by the unchanged tree when the catalogue was built"""
    out = []
    for name, tpl, ok, allowed in OPERATORS:
        for slot, al in enumerate(allowed):
            if al is None:
                continue
            for kind, v in OPERAND_VALUES.items():
                if kind in al:
                    continue
                if al == {"Z"} and kind in ("K", "Y"):
                    continue        # whether an index may be a Byte / Kommazahl is not a question of this catalogue
                ops = list(ok)
                ops[slot] = v
                out.append(("operand %d of '%s' is a %s" % (slot + 1, name, OPERAND_KIND_NAMES[kind]), "Die Variable o%N% ist (" + tpl.format(*ops) + ").",
                            "Die Variable o%N% ist (" + tpl.format(*ok) + ")."))
    return out


def toplevel_faults():
    out = []
    fn = lambda name, ret, body: "Die Funktion %s gibt %s zurück, macht:\n%s\nUnd kann so benutzt werden:\n\t\"%s\"\n" % (name, ret, body, name)
    out.append(("missing final return", fn("ohne%N%", "eine Zahl", "\tDie Zahl q%N% ist 1."), fn("ohne%N%", "eine Zahl", "\tGib 1 zurück."), {}))
    out.append(("missing final return: after if", fn("ohne%N%", "eine Zahl", "\tWenn wahr, dann:\n\t\tGib 1 zurück.\n\tDie Zahl q%N% ist 2."),
                fn("ohne%N%", "eine Zahl", "\tWenn wahr, dann:\n\t\tGib 1 zurück.\n\tGib 2 zurück."), {}))
    # the same return rules for every form in which a function body can be written: each form parses its body at another place
    RT = {"Zahl": ("eine Zahl", "1", '"text"'), "Text": ("einen Text", '"a"', "1"), "Zahlen Liste": ("eine Zahlen Liste", "(eine Liste, die aus 1 besteht)", '"a"'),
          "Wahrheitswert": ("einen Wahrheitswert", "wahr", '"a"')}

    def forms(name, ret, body):
        """the function `name` with this body in every declaration form, each followed by a use so that generic bodies are instantiated"""
        plain = "Die Funktion %s gibt %s zurück, macht:\n%s\nUnd kann so benutzt werden:\n\t\"%s\"\n" % (name, ret, body, name)
        public = plain.replace("Die Funktion", "Die öffentliche Funktion", 1)
        forward = ("Die Funktion %s gibt %s zurück,\nwird später definiert\nund kann so benutzt werden:\n\t\"%s\"\nDie Zahl vor%s ist 1.\nDie Funktion %s macht:\n%s\n" % (
            name, ret, name, name, name, body))
        generic = ("Die generische Funktion %s mit dem Parameter gp vom Typ T, gibt %s zurück, macht:\n%s\nUnd kann so benutzt werden:\n\t\"%s <gp>\"\n%s 5.\n" % (
            name, ret, body, name, name))
        param = ("Die Funktion %s mit dem Parameter zp vom Typ Zahlen Referenz, gibt %s zurück, macht:\n%s\nUnd kann so benutzt werden:\n\t\"%s <zp>\"\n" % (name, ret, body, name))
        return [("plain", plain), ("public", public), ("forward", forward), ("generic", generic), ("referenz-param", param)]
    for tn, (ret, good, wrong) in RT.items():
        bodies = [("missing final return", "\tDie Zahl q%N% ist 1.", "\tGib " + good + " zurück."),
                  ("missing final return: returns only in branches", "\tWenn wahr, dann:\n\t\tGib " + good + " zurück.\n\tSonst:\n\t\tWenn falsch, dann:\n\t\t\tGib " + good + " zurück.\n\tDie Zahl q%N% ist 2.",
                   "\tWenn wahr, dann:\n\t\tGib " + good + " zurück.\n\tGib " + good + " zurück."),
                  ("missing final return: ends in a loop", "\tSolange wahr, mache:\n\t\tGib " + good + " zurück.", "\tSolange wahr, mache:\n\t\tGib " + good + " zurück.\n\tGib " + good + " zurück."),
                  ("returned value type", "\tGib " + wrong + " zurück.", "\tGib " + good + " zurück."),
                  ("returned value type: in a branch", "\tWenn wahr, dann:\n\t\tGib " + wrong + " zurück.\n\tGib " + good + " zurück.", "\tWenn wahr, dann:\n\t\tGib " + good + " zurück.\n\tGib " + good + " zurück.")]
        for cls, bad_body, good_body in bodies:
            for (fname, bad_src), (_, good_src) in zip(forms("rf%N%", ret, bad_body), forms("rf%N%", ret, good_body)):
                if fname == "plain" and tn == "Zahl":
                    continue        # the hand-written entries above and below
                out.append(("%s [%s, %s]" % (cls, fname, tn), bad_src, good_src, {}))
    for (fname, bad_src), (_, good_src) in zip(forms("rn%N%", "nichts", "\tGib 1 zurück."), forms("rn%N%", "nichts", "\tVerlasse die Funktion.")):
        out.append(("return value from nothing-function [%s]" % fname, bad_src, good_src, {}))
    # articles in the declarations of GENERIC functions: a type parameter alone matches every article, a list of it is feminine like every list
    gen = lambda name, ret, ptype, body: ("Die generische Funktion %s mit dem Parameter gp vom Typ %s, gibt %s zurück, macht:\n%s\nUnd kann so benutzt werden:\n\t\"%s <gp>\"\n" % (name, ptype, ret, body, name))
    glist = "\tGib gp zurück."
    for bad_art in ("einen", "ein"):
        out.append(("wrong article: generic return type T Liste (%s)" % bad_art, gen("ga%N%", bad_art + " T Liste", "T Liste", glist) + "Die Zahlen Liste gl%N% ist ga%N% (eine Liste, die aus 1 besteht).\n",
                    gen("ga%N%", "eine T Liste", "T Liste", glist) + "Die Zahlen Liste gl%N% ist ga%N% (eine Liste, die aus 1 besteht).\n", {}))
    wrap = "\tGib eine Liste, die aus gp besteht zurück."
    out.append(("wrong article: generic return type T Liste from T", gen("gb%N%", "einen T Liste", "T", wrap) + "Die Zahlen Liste gm%N% ist gb%N% 1.\n",
                gen("gb%N%", "eine T Liste", "T", wrap) + "Die Zahlen Liste gm%N% ist gb%N% 1.\n", {}))
    out.append(("wrong article: local T Liste in a generic body", gen("gc%N%", "nichts", "T", "\tDer T Liste lokal ist eine Liste, die aus gp besteht.") + "gc%N% 1.\n",
                gen("gc%N%", "nichts", "T", "\tDie T Liste lokal ist eine Liste, die aus gp besteht.") + "gc%N% 1.\n", {}))
    out.append(("returned value type", fn("falsch%N%", "eine Zahl", '\tGib "text" zurück.'), fn("falsch%N%", "eine Zahl", "\tGib 1 zurück."), {}))
    out.append(("returned value type: list", fn("falsch%N%", "einen Text", "\tGib (eine Liste, die aus 1 besteht) zurück."), fn("falsch%N%", "einen Text", '\tGib "a" zurück.'), {}))
    out.append(("return value from nothing-function", fn("nix%N%", "nichts", "\tGib 1 zurück."), fn("nix%N%", "nichts", "\tVerlasse die Funktion."), {}))
    out.append(("return at top level", "Gib 1 zurück.\n", "Die Zahl t%N% ist 1.\n", {}))
    out.append(("leave function at top level", "Verlasse die Funktion.\n", "Die Zahl t%N% ist 1.\n", {}))
    out.append(("break in function called from loop", fn("raus%N%", "nichts", "\tVerlasse die Schleife.") + "Wiederhole:\n\traus%N%.\n1 Mal.\n",
                fn("raus%N%", "nichts", "\tVerlasse die Funktion.") + "Wiederhole:\n\traus%N%.\n1 Mal.\n", {}))
    arg = "Die Funktion nimmz%N% mit dem Parameter a vom Typ Zahl, gibt nichts zurück, macht:\n\tDie Zahl q%N% ist a.\nUnd kann so benutzt werden:\n\t\"nimmz%N% <a>\"\n"
    out.append(("argument type", arg + 'nimmz%N% "text".\n', arg + "nimmz%N% 5.\n", {}))
    ref = "Die Funktion setz%N% mit dem Parameter a vom Typ Zahlen Referenz, gibt nichts zurück, macht:\n\tSpeichere 1 in a.\nUnd kann so benutzt werden:\n\t\"setz%N% <a>\"\n"
    out.append(("constant: Referenz passing", ref + "Die Konstante k%N% ist 5.\nsetz%N% k%N%.\n", ref + "Die Zahl k%N% ist 5.\nsetz%N% k%N%.\n", {}))
    out.append(("literal as Referenz argument", ref + "setz%N% 5.\n", ref + "Die Zahl k%N% ist 5.\nsetz%N% k%N%.\n", {}))
    ref2 = ref + ref.replace("Funktion setz%N%", "Funktion setzt%N%").replace("Zahlen Referenz", "Text Referenz").replace("Speichere 1 in a", 'Speichere "x" in a')
    out.append(("constant: Referenz passing to overloaded alias", ref2 + "Die Konstante k%N% ist 5.\nsetz%N% k%N%.\n", ref2 + "Die Zahl k%N% ist 5.\nsetz%N% k%N%.\n", {}))
    # argument, Referenz argument and returned value over every non-assignable pair of types
    refname = {"Zahl": "Zahlen Referenz", "Kommazahl": "Kommazahlen Referenz", "Byte": "Byte Referenz", "Wahrheitswert": "Wahrheitswert Referenz", "Buchstabe": "Buchstaben Referenz",
               "Text": "Text Referenz", "Zahlen Liste": "Zahlen Listen Referenz", "Text Liste": "Text Listen Referenz"}
    retname = {"Zahl": "eine Zahl", "Kommazahl": "eine Kommazahl", "Byte": "einen Byte", "Wahrheitswert": "einen Wahrheitswert", "Buchstabe": "einen Buchstaben", "Text": "einen Text",
               "Zahlen Liste": "eine Zahlen Liste", "Text Liste": "eine Text Liste"}
    for dst in TYPES:
        for src in TYPES:
            art, dv = TYPES[dst]
            sart, sv = TYPES[src]
            if not assignable(src, dst):
                f1 = "Die Funktion nimm%%N%% mit dem Parameter a vom Typ %s, gibt nichts zurück, macht:\n\tVerlasse die Funktion.\nUnd kann so benutzt werden:\n\t\"nimm%%N%% <a>\"\n" % dst
                out.append(("argument type %s for %s" % (src, dst), f1 + "nimm%%N%% %s.\n" % sv, f1 + "nimm%%N%% %s.\n" % dv, {}))
                out.append(("returned value type %s for %s" % (src, dst), fn("gib%N%", retname[dst], "\tGib %s zurück." % sv), fn("gib%N%", retname[dst], "\tGib %s zurück." % dv), {}))
            if src != dst:      # a Referenz needs exactly the type (no numeric conversion)
                f2 = "Die Funktion setze%%N%% mit dem Parameter a vom Typ %s, gibt nichts zurück, macht:\n\tVerlasse die Funktion.\nUnd kann so benutzt werden:\n\t\"setze%%N%% <a>\"\n" % refname[dst]
                out.append(("Referenz argument type %s for %s" % (src, dst), f2 + "%s %s rv%%N%% ist %s.\nsetze%%N%% rv%%N%%.\n" % (sart, src, sv),
                            f2 + "%s %s rv%%N%% ist %s.\nsetze%%N%% rv%%N%%.\n" % (art, dst, dv), {}))
    ovl = ("Die Funktion zeigz%N% mit dem Parameter x vom Typ Zahl, gibt nichts zurück, macht:\n\tDie Zahl q%N% ist x.\nUnd kann so benutzt werden:\n\t\"zeige%N% <x>\"\n"
           "Die Funktion zeigt%N% mit dem Parameter x vom Typ Text, gibt nichts zurück, macht:\n\tDer Text q%N% ist x.\nUnd kann so benutzt werden:\n\t\"zeige%N% <x>\"\n")
    out.append(("wrong article in argument of overloaded user alias", ovl + "zeige%N% (die Größe von einem Zahl).\n", ovl + "zeige%N% (die Größe von einer Zahl).\n", {}))
    out.append(("operand type in argument of overloaded user alias", ovl + "zeige%N% (wahr plus 1).\n", ovl + "zeige%N% (2 plus 1).\n", {}))
    out.append(("argument type matches no overload", ovl + "zeige%N% wahr.\n", ovl + "zeige%N% 2.\n", {}))
    out.append(("redeclaration: function", fn("zwei%N%", "nichts", "\tVerlasse die Funktion.") + fn("zwei%N%", "nichts", "\tVerlasse die Funktion.").replace('"zwei%N%"', '"zwei%N% nochmal"'),
                fn("zwei%N%", "nichts", "\tVerlasse die Funktion.") + fn("zweib%N%", "nichts", "\tVerlasse die Funktion."), {}))
    out.append(("parameter named like a function", fn("fname%N%", "nichts", "\tVerlasse die Funktion.") +
                "Die Funktion g%N% mit dem Parameter fname%N% vom Typ Zahl, gibt nichts zurück, macht:\n\tVerlasse die Funktion.\nUnd kann so benutzt werden:\n\t\"g%N% <fname%N%>\"\n",
                fn("fname%N%", "nichts", "\tVerlasse die Funktion.") +
                "Die Funktion g%N% mit dem Parameter andere%N% vom Typ Zahl, gibt nichts zurück, macht:\n\tVerlasse die Funktion.\nUnd kann so benutzt werden:\n\t\"g%N% <andere%N%>\"\n", {}))
    komb = "Wir nennen die Kombination aus\n\tder Zahl x mit Standardwert 0,\neinen Ding%N%, und erstellen sie so:\n\t\"neues Ding%N%\"\n"
    out.append(("redeclaration: Kombination", komb + komb.replace("neues Ding", "anderes Ding"), komb, {}))
    out.append(("unknown field", komb + "Der Ding%N% d%N% ist neues Ding%N%.\nDie Zahl f%N% ist (gibtsnicht von d%N%).\n", komb + "Der Ding%N% d%N% ist neues Ding%N%.\nDie Zahl f%N% ist (x von d%N%).\n", {}))
    # wrong articles
    for bad, good in [("Der Zahl art%N% ist 1.", "Die Zahl art%N% ist 1."), ('Die Text art%N% ist "x".', 'Der Text art%N% ist "x".'), ("Das Wahrheitswert art%N% ist wahr.", "Der Wahrheitswert art%N% ist wahr."),
                      ("Der Zahlen Liste art%N% ist eine leere Zahlen Liste.", "Die Zahlen Liste art%N% ist eine leere Zahlen Liste."), ("Die Buchstabe art%N% ist 'a'.", "Der Buchstabe art%N% ist 'a'."),
                      ("Für jeden Zahl i%N% von 1 bis 2, mache:\n\tDie Zahl b%N% ist i%N%.", "Für jede Zahl i%N% von 1 bis 2, mache:\n\tDie Zahl b%N% ist i%N%."),
                      ("Die Zahl art%N% ist der Standardwert von einem Zahl.", "Die Zahl art%N% ist der Standardwert von einer Zahl."),
                      ("Der Text art%N% ist der Standardwert von einer Text.", "Der Text art%N% ist der Standardwert von einem Text.")]:
        out.append(("wrong article", bad + "\n", good + "\n", {}))
    out.append(("wrong article: return type", fn("art%N%", "einen Zahl", "\tGib 1 zurück."), fn("art%N%", "eine Zahl", "\tGib 1 zurück."), {}))
    out.append(("wrong article: Kombination field", komb.replace("der Zahl x", "dem Zahl x"), komb, {}))
    # visibility across modules
    mod = ("Die Zahl geheim ist 1.\nDie öffentliche Zahl offen ist 2.\nDie Konstante kgeheim ist 3.\nDie öffentliche Konstante koffen ist 4.\n"
           "Die Funktion fgeheim gibt eine Zahl zurück, macht:\n\tGib 1 zurück.\nUnd kann so benutzt werden:\n\t\"rufe fgeheim\"\n"
           "Die öffentliche Funktion foffen gibt eine Zahl zurück, macht:\n\tGib 1 zurück.\nUnd kann so benutzt werden:\n\t\"rufe foffen\"\n"
           "Wir nennen die Kombination aus\n\tder Zahl px mit Standardwert 0,\neinen Verborgen.\n"
           "Wir nennen die öffentliche Kombination aus\n\tder öffentlichen Zahl gezeigt mit Standardwert 0,\n\tder Zahl versteckt mit Standardwert 0,\neinen Offen, und erstellen sie so:\n\t\"ein Offen\"\n"
           "Wir nennen eine Zahl auch eine Geheimzahl.\nWir nennen eine Zahl öffentlich auch eine Offenzahl.\n")
    files = {"modul%N%.ddp": mod}
    imp = 'Binde "modul%N%" ein.\n'
    out.append(("private variable of import", imp + "Die Zahl u%N% ist geheim.\n", imp + "Die Zahl u%N% ist offen.\n", files))
    out.append(("private constant of import", imp + "Die Zahl u%N% ist kgeheim.\n", imp + "Die Zahl u%N% ist koffen.\n", files))
    out.append(("private function of import", imp + "Die Zahl u%N% ist rufe fgeheim.\n", imp + "Die Zahl u%N% ist rufe foffen.\n", files))
    out.append(("private type of import", imp + "Der Verborgen u%N% ist der Standardwert von einem Verborgen.\n", imp + "Der Offen u%N% ist der Standardwert von einem Offen.\n", files))
    out.append(("private field of import", imp + "Der Offen u%N% ist ein Offen.\nDie Zahl w%N% ist (versteckt von u%N%).\n", imp + "Der Offen u%N% ist ein Offen.\nDie Zahl w%N% ist (gezeigt von u%N%).\n", files))
    out.append(("selective import of private name", 'Binde geheim aus "modul%N%" ein.\n', 'Binde offen aus "modul%N%" ein.\n', files))
    out.append(("selective import: unlisted name", 'Binde offen aus "modul%N%" ein.\nDie Zahl u%N% ist koffen.\n', 'Binde offen und koffen aus "modul%N%" ein.\nDie Zahl u%N% ist koffen.\n', files))
    out.append(("selective import of missing name", 'Binde gibtsnicht aus "modul%N%" ein.\n', 'Binde offen aus "modul%N%" ein.\n', files))
    out.append(("private type alias of import", imp + "Die Geheimzahl u%N% ist 1.\n", imp + "Die Zahl u%N% ist 1.\n", files))
    return out


SITES = ["top", "if", "loop", "function", "nested"]


def place(lines, site):
    """wrap statements (text at indentation 0) into a site"""
    ind = lambda txt, n: "\n".join(("\t" * n + l) for l in txt.split("\n"))
    if site == "top":
        return lines + "\n"
    if site == "if":
        return "Wenn wahr, dann:\n" + ind(lines, 1) + "\n"
    if site == "loop":
        return "Für jede Zahl aussen%N% von 1 bis 1, mache:\n" + ind(lines, 1) + "\n"
    if site == "function":
        return "Die Funktion ort%N% gibt nichts zurück, macht:\n" + ind(lines, 1) + "\nUnd kann so benutzt werden:\n\t\"ort%N%\"\n"
    if site == "nested":
        return "Wenn wahr, dann:\n\tSolange wahr, mache:\n\t\tWenn wahr, dann:\n" + ind(lines, 3) + "\n\t\tVerlasse die Schleife.\n"
    raise ValueError(site)


def run(tier):
    vlib.ensure_build(asan=False)
    chk = Check(PID, tier)
    rnd = random.Random("%d/%s" % (chk.seed, PID))
    nbases = 12 if tier == "quick" else 150
    per_base = 130 if tier == "quick" else 270
    chk.rule = ("base programs: seeded well-typed statement programs of ddpmodel that the real front end accepts (verified); exactly one fault from a catalogue of "
                "static faults (undeclared/out-of-scope names per expression position, redeclarations, operand types - systematically: 27 operators x every operand slot x every value kind outside the slot's domain incl. a type definition and a Kombination -, non-assignable initialiser/assigned/"
                "argument/condition/loop bound/step/repeat count/returned values, Konstante mutation, loop control outside loops, missing final return, return at top "
                "level, non-public names/types/fields of imports incl. selective imports, wrong articles) placed at the sites {top level, if block, loop body, function "
                "body, 3-deep nesting}. Each fault has a well-formed twin that must be accepted. Distinct by (base, fault, site); non-trivial when the twin is accepted.")
    chk.assumptions = ["a fault whose twin is not accepted at that site is discarded as a harness limitation (counted)", "wrong articles are only generated for non-generic types"]
    stm = faults(rnd, 0)
    opf = operand_faults()
    top = toplevel_faults()
    with Scratch("c04") as sc:
        # base programs
        bases = []
        for b in range(nbases * 2):
            r = random.Random("%d/%s/base%d" % (chk.seed, PID, b))
            g = StmtGen(r)
            g.build(n_items=r.randint(6, 14), d=2, nest=2, n_funcs=r.randint(0, 2))
            bases.append(Printer(g.prog).program() + OPERAND_PRELUDE)
        jobs = []
        uniq = 0
        for bi, base in enumerate(bases):
            cases = []
            picks = set(rnd.sample(range(len(stm)), min(len(stm), per_base * 2 // 3)))
            picks |= {k for k in range(len(stm)) if k % nbases == bi % nbases}       # every catalogue entry at least once per run
            for k in sorted(picks):
                cls, bad, good = stm[k]
                site = rnd.choice(SITES)
                if cls in ("break outside loop", "continue outside loop") and site in ("loop", "nested"):
                    site = "function"      # inside a loop these are legal; a function body is still 'outside of a loop'
                cases.append((cls, site, place(bad, site), place(good, site), {}))
            # the systematic operand faults: quick = every fault once over the bases (round robin), thorough = a third of them per base
            for k in range(len(opf)):
                if (k % nbases == bi % nbases) if tier == "quick" else (rnd.random() < 0.34):
                    cls, bad, good = opf[k]
                    site = rnd.choice(SITES)
                    cases.append((cls, site, place(bad, site), place(good, site), {}))
            tpicks = set(rnd.sample(range(len(top)), min(len(top), per_base // 3))) | {k for k in range(len(top)) if k % nbases == bi % nbases}
            for k in sorted(tpicks):
                cls, bad, good, files = top[k]
                cases.append((cls, "top", bad, good, files))
            jobs.append((bi, base, cases))

        def work(job):
            bi, base, cases = job
            pr = Probe(sc.path)
            d = os.path.join(sc.path, "b%d" % bi)
            os.makedirs(d)
            bp = os.path.join(d, "base.ddp")
            open(bp, "w").write(base)
            out = []
            try:
                r = pr.request({"op": "parse", "id": "base", "file": bp})
            except ProbeDied:
                pr.close()
                return bi, None, []
            if r.get("errors", 0) or r.get("faulty") or r.get("panic"):
                pr.close()
                return bi, None, []
            for n, (cls, site, bad, good, files) in enumerate(cases):
                suf = "_%d_%d" % (bi, n)
                res = {}
                for which, tail in (("twin", good), ("fault", bad)):
                    src = base + tail.replace("%N%", suf)
                    p = os.path.join(d, "c%d_%s.ddp" % (n, which))
                    open(p, "w").write(src)
                    for fn, content in files.items():
                        open(os.path.join(d, fn.replace("%N%", suf)), "w").write(content)
                    try:
                        res[which] = pr.request({"op": "parse", "id": which, "file": p})
                    except ProbeDied:
                        res[which] = {"panic": "died"}
                    res[which + "_src"] = tail.replace("%N%", suf)
                    res[which + "_path"] = p
                cli = None
                if n % 9 == 0 and not res["fault"].get("panic"):
                    exe = os.path.join(d, "c%d_exe" % n)
                    c = vlib.kddp_compile(res["fault_path"], exe)
                    cli = (c.rc, os.path.exists(exe), c.timed_out)
                out.append((cls, site, res, cli))
            pr.close()
            return bi, base, out

        nb = 0
        for bi, base, out in vlib.pmap(work, jobs):
            if base is None:
                chk.count("bases_not_accepted_or_crashed")
                continue
            nb += 1
            if nb > nbases:
                continue
            for cls, site, res, cli in out:
                tw, ft = res["twin"], res["fault"]
                if tw.get("panic") or ft.get("panic"):
                    chk.count("frontend_crash_left_to_C03")
                    continue
                twin_ok = not tw.get("errors") and not tw.get("faulty")
                chk.note_case((bi, cls, site, res["fault_src"][:80]), nontrivial=twin_ok)
                if not twin_ok:
                    chk.count("discarded_twin_not_accepted")
                    chk.count("discarded:" + cls)
                    continue
                chk.count("faults_injected")
                chk.distinct.add(("class", cls, site))
                rejected = ft.get("errors", 0) >= 1 and ft.get("faulty")
                if not rejected:
                    chk.violation({"kind": "ill-formed program accepted", "fault": cls, "site": site, "errors": ft.get("errors", 0), "faulty": bool(ft.get("faulty"))},
                                  files={"faulty_program.ddp": base + res["fault_src"], "fault.txt": res["fault_src"], "twin.txt": res["twin_src"],
                                         "result.json": json.dumps(ft, indent=1, ensure_ascii=False)},
                                  text="fault '%s' at site %s: errors=%s faulty=%s; injected:\n%s" % (cls, site, ft.get("errors"), ft.get("faulty"), res["fault_src"][:400]))
                if cli is not None:
                    if cli[2]:
                        chk.inconclusive += 1
                    else:
                        chk.count("cli_runs")
                        if cli[0] == 0 or cli[1]:
                            chk.violation({"kind": "ill-formed program compiled by kddp", "fault": cls, "site": site, "rc": cli[0], "executable": cli[1]},
                                          files={"faulty_program.ddp": base + res["fault_src"]}, text="kddp rc=%s executable=%s for fault '%s'" % (cli[0], cli[1], cls))
                if len(chk.samples) < 5 and cls in ("undeclared name", "wrong article", "private function of import", "missing final return", "constant: assignment"):
                    chk.sample({"fault_class": cls, "site": site, "injected": res["fault_src"], "twin": res["twin_src"], "first_error": (ft.get("diags") or [{}])[0].get("msg")})
        chk.extra["fault_classes_exercised"] = len({d[1] for d in chk.distinct if isinstance(d, tuple) and d and d[0] == "class"})
    return chk.finish(min_events=200)


def replay(path):
    vlib.ensure_build(asan=False)
    with Scratch("c04r") as sc:
        pr = Probe(sc.path)
        p = os.path.join(sc.path, "m.ddp")
        open(p, "w").write(open(os.path.join(path, "faulty_program.ddp")).read())
        r = pr.request({"op": "parse", "id": "replay", "file": p})
        pr.close()
        if not (r.get("errors", 0) >= 1 and r.get("faulty")):
            print("VIOLATION property=%s replay=%s" % (PID, path))
            return 1
    return 0
