"""C17 Duden list, text, number and sorting functions meet their specification.

Workload: generated driver programs.  Each driver imports the Duden module(s), declares argument variables, calls
Duden functions through their documented alias syntax (discovered by reading the .ddp files) and prints, on one
tagged line per call, the result and every argument variable after the call.  Oracle: Python reference models
written from the doc comments (c17_models.py).  The drivers are compiled by the real kddp (-O 1, thorough also -O 2)
and run; the front end (ddpprobe) tells which declared function every call resolved to, so that a case is only judged
with the model of the function that really ran.  A sample of the drivers also runs under valgrind memcheck."""
import copy
import json
import math
import os
import random
import re
import threading

import vlib
from vlib import Check, Scratch, Probe, ProbeDied, log
from checks import c17_parse as P
from checks import c17_models as M

PID = "C17"

# ------------------------------------------------------------------ DDP rendering of types and values

DECL = {"Z": "Die Zahl", "K": "Die Kommazahl", "T": "Der Text", "B": "Der Buchstabe", "W": "Der Wahrheitswert",
        "ZL": "Die Zahlen Liste", "KL": "Die Kommazahlen Liste", "TL": "Die Text Liste", "BL": "Die Buchstaben Liste",
        "WL": "Die Wahrheitswert Liste", "YL": "Die Byte Liste"}
LISTNAME = {"ZL": "Zahlen Liste", "KL": "Kommazahlen Liste", "TL": "Text Liste", "BL": "Buchstaben Liste", "WL": "Wahrheitswert Liste", "YL": "Byte Liste"}
PARAM_TYPE = {"Z": "Zahl", "K": "Kommazahl", "T": "Text", "B": "Buchstabe", "W": "Wahrheitswert", "Y": "Byte",
              "ZL": "Zahlen Liste", "KL": "Kommazahlen Liste", "TL": "Text Liste", "BL": "Buchstaben Liste", "WL": "Wahrheitswert Liste", "YL": "Byte Liste"}
FOR_EACH = {"ZL": "jede Zahl", "KL": "jede Kommazahl", "TL": "jeden Text", "BL": "jeden Buchstaben", "WL": "jeden Wahrheitswert", "YL": "jeden Byte"}


def lit_k(x):
    s = repr(float(x))
    if "e" in s or "inf" in s or "nan" in s:
        raise ValueError("Kommazahl literal not renderable: %r" % x)
    assert float(s) == x
    return s.replace(".", ",")


def lit_text(s):
    out = []
    for c in s:
        if c == "\\":
            out.append("\\\\")
        elif c == '"':
            out.append('\\"')
        elif c == "\n":
            out.append("\\n")
        elif c == "\t":
            out.append("\\t")
        elif c == "\r":
            out.append("\\r")
        else:
            assert ord(c) >= 32
            out.append(c)
    return '"' + "".join(out) + '"'


def lit_char(c, in_expr=True):
    o = ord(c)
    if c in "'\\" or o < 32 or o == 127:
        return "(%d als Buchstabe)" % o
    return "'%s'" % c


def lit_scalar(tc, v):
    if tc == "Z":
        return str(int(v))
    if tc == "K":
        return lit_k(v)
    if tc == "T":
        return lit_text(v)
    if tc == "B":
        return lit_char(v)
    if tc == "W":
        return "wahr" if v else "falsch"
    if tc == "Y":
        return "%d als Byte" % v
    raise ValueError(tc)


def lit_value(tc, v):
    """initialiser expression (right side of a declaration)"""
    if tc.endswith("L"):
        if not v:
            return "eine leere " + LISTNAME[tc]
        return "eine Liste, die aus " + ", ".join(lit_scalar(tc[0], e) for e in v) + " besteht"
    return lit_scalar(tc, v)


def lit_arg(tc, v):
    """argument expression inside an alias call"""
    if tc.endswith("L") or tc in ("Z", "K", "Y"):
        return "(" + lit_value(tc, v) + ")"
    return lit_value(tc, v)


# The same abstract value reaches a Duden function in different REPRESENTATIONS depending on what produced it (a literal,
# a concatenation, a slice, another Duden function: capacity > length, an allocated empty buffer, ...).  A producer is
# chosen per argument; the expected results do not depend on it.
PRODUCERS_T = ("join", "concat", "slice")


def choose_producer(rng, tc, v):
    if tc == "T":
        p = 0.5 if v == "" else 0.3            # the empty text has the most representations
        if rng.random() < p:
            k = rng.choice(PRODUCERS_T)
            return "join" if (k == "slice" and v == "") else k
    elif tc.endswith("L") and tc != "YL":
        if rng.random() < 0.25:
            return "elems" if (tc == "TL" and v and rng.random() < 0.5) else "concat"
    return "lit"


def prod_text(kind, s, salt=0):
    if kind == "join":
        if not s:
            return "((eine leere Buchstaben Liste) aneinandergehängt)"
        return "((eine Liste, die aus %s besteht) aneinandergehängt)" % ", ".join(lit_char(ch) for ch in s)
    if kind == "concat":
        k = (salt + len(s) // 2) % (len(s) + 1)
        return "(%s verkettet mit %s)" % (lit_text(s[:k]), lit_text(s[k:]))
    if kind == "slice" and s:
        return "(%s im Bereich von 2 bis %d)" % (lit_text("x" + s + "yz"), 1 + len(s))
    return lit_text(s)


def prod_value(tc, v, kind, as_arg):
    """the expression for value v of type tc made by producer 'kind'"""
    if kind == "lit" or kind is None:
        return lit_arg(tc, v) if as_arg else lit_value(tc, v)
    if tc == "T":
        return prod_text(kind, v)
    if kind == "elems":      # Text Liste whose elements come from producers
        kinds = ("join", "concat", "slice")
        return "(eine Liste, die aus %s besteht)" % ", ".join(prod_text(kinds[i % 3] if e else "join", e, i) for i, e in enumerate(v))
    if kind == "concat":
        k = len(v) // 2
        return "((%s) verkettet mit (%s))" % (lit_value(tc, v[:k]), lit_value(tc, v[k:]))
    raise ValueError(kind)


def fmt_k(x):
    x = float(x)
    if math.isinf(x):
        return "Unendlich" if x > 0 else "-Unendlich"
    if math.isnan(x):
        return "Keine Zahl (NaN)"
    s = ("%.16g" % x).replace(".", ",")
    return "0" if s == "-0" else s


def fmt(tc, v):
    """the text the show helpers of the driver print for a value"""
    if tc.endswith("L"):
        return "%d:" % len(v) + "".join(fmt(tc[0], e) + ";" for e in v)
    if tc == "Z" or tc == "Y":
        return str(int(v))
    if tc == "K":
        return fmt_k(v)
    if tc == "W":
        return "wahr" if v else "falsch"
    if tc == "B":
        return str(ord(v))
    if tc == "T":
        return '%d"%s"' % (len(v), v)
    raise ValueError(tc)


def helper_source():
    """show helpers: every value is printed followed by '|'; texts with their length, characters as code points,
    lists as  <len>:<e1>;<e2>;...  - independent of Duden/Ausgabe's list printing"""
    out = []
    body = {
        "Z": ["Schreibe x."], "K": ["Schreibe x."], "Y": ["Schreibe x."],
        # a Wahrheitswert is never handed to a C function as a temporary: the branch reads bit 0 like every DDP condition does
        "W": ["Wenn x, dann:", "\tSchreibe \"wahr\".", "Sonst:", "\tSchreibe \"falsch\"."],
        "B": ["Schreibe (x als Zahl)."],
        "T": ["Schreibe (die Länge von x).", "Schreibe '\"'.", "Schreibe x.", "Schreibe '\"'."],
    }

    def elem_lines(tc):
        return [l.replace("x", "e") for l in body[tc]]
    for tc in ("Z", "K", "W", "B", "T"):
        out.append("Die Funktion c17_%s mit dem Parameter x vom Typ %s, gibt nichts zurück, macht:" % (tc, PARAM_TYPE[tc]))
        out += ["\t" + l for l in body[tc]] + ["\tSchreibe '|'.", "Und kann so benutzt werden:", "\t\"c17%s <x>\"" % tc.lower(), ""]
    for tc in ("ZL", "KL", "WL", "BL", "TL", "YL"):
        out.append("Die Funktion c17_%s mit dem Parameter x vom Typ %s, gibt nichts zurück, macht:" % (tc, PARAM_TYPE[tc]))
        out += ["\tSchreibe (die Länge von x).", "\tSchreibe ':'.", "\tFür %s e in x, mache:" % FOR_EACH[tc]]
        out += ["\t\t" + l for l in elem_lines(tc[0])] + ["\t\tSchreibe ';'.", "\tSchreibe '|'.", "Und kann so benutzt werden:", "\t\"c17%s <x>\"" % tc.lower(), ""]
    return "\n".join(out)


HELPERS = None

# ------------------------------------------------------------------ cases


class Case:
    __slots__ = ("cid", "group", "T", "args", "params", "ret", "modes", "alias", "negate", "store", "expect", "error", "cls", "line", "model_exc", "prod")


def subst(tc, T):
    if tc == "*":
        return T
    if tc == "*L":
        return T + "L"
    return tc


def group_signature(duden, g, T):
    """(params [(name, type, must_be_variable)], return type, aliases) from the parsed declarations"""
    funcs = duden[g.module]["funcs"]
    decls = [funcs[n] for n in g.names if n in funcs]
    if len(decls) != len(g.names) or not all(f.public for f in decls):
        return None
    f0 = decls[0]
    params = []
    for i, (pn, tc, ref) in enumerate(f0.params):
        must_var = all(d.params[i][2] for d in decls)
        params.append((pn, subst(tc, T), must_var))
    for d in decls[1:]:
        if [p[0] for p in d.params] != [p[0] for p in f0.params]:
            return None
    ret = subst(f0.ret, T) if f0.ret else None
    aliases = g.aliases or f0.aliases
    return params, ret, aliases


def shape_of(case):
    """coarse class of the arguments (part of a violation signature): length class of the first list/text argument,
    position of Zahl arguments relative to that length; sign class of numbers when there is no list/text"""
    parts = []
    ref_len = None
    for pn, tc, _ in case.params:
        v = case.args[pn]
        if (tc.endswith("L") or tc == "T") and ref_len is None:
            ref_len = len(v)
            parts.append("len(%s)=%s" % (pn, ref_len if ref_len < 2 else "2+"))
    for pn, tc, _ in case.params:
        v = case.args[pn]
        if tc == "Z" and ref_len is not None:
            rel = ("<1" if v < 1 else "len+1" if v == ref_len + 1 else ">len+1" if v > ref_len + 1 else
                   "1=len" if v == 1 == ref_len else "1" if v == 1 else "len" if v == ref_len else "mid")
            parts.append("%s=%s" % (pn, rel))
        elif tc == "Z" and ref_len is None:
            parts.append("%s%s" % (pn, "<0" if v < 0 else "=0" if v == 0 else ">0"))
        elif tc == "B" and ref_len is None:
            parts.append("%s=U+%04X" % (pn, ord(v)))
        elif tc == "K" and ref_len is None:
            parts.append("%s%s%s" % (pn, "<0" if v < 0 else "=0" if v == 0 else ">0", "" if v == int(v) else " frac"))
    return ", ".join(parts)


def build_case(duden, g, T, rng, cid, args=None):
    sig = group_signature(duden, g, T)
    if sig is None:
        return None
    params, ret, aliases = sig
    if args is None:
        args = g.gen(rng, T)
    if args is None:
        return None
    if set(args) != {p[0] for p in params}:
        raise AssertionError("generator of %s gives %s, declaration has %s" % (g.key, sorted(args), [p[0] for p in params]))
    c = Case()
    c.cid, c.group, c.T, c.args, c.params, c.ret = cid, g, T, args, params, ret
    usable = [a for a in aliases if set(P.alias_params(a)) == set(args)]
    if not usable:
        return None
    c.alias = rng.choice(usable)
    c.negate = ret == "W" and P.alias_has_negation(c.alias) and rng.random() < 0.35
    c.modes = {}
    for pn, tc, must_var in params:
        c.modes[pn] = "var" if must_var or rng.random() < 0.6 else "tmp"
    c.store = rng.random() < 0.5
    c.prod = {pn: choose_producer(rng, tc, args[pn]) for pn, tc, _ in params}
    c.error = False
    c.model_exc = None
    try:
        res, upd = g.model(copy.deepcopy(args))
    except M.Laufzeitfehler:
        c.error = True
        res, upd = None, {}
    c.expect = []          # [(label, type, expected value | Pred | Unordered)]
    if ret is not None and not c.error:
        if c.negate:
            res = not res
        c.expect.append(("result", ret, res))
    if not c.error:
        for pn, tc, _ in params:
            if c.modes[pn] == "var":
                c.expect.append((pn, tc, upd.get(pn, args[pn])))
        for pn in upd:
            assert pn in args
    c.cls = shape_of(c)
    return c


def render_case(c, first_line):
    """-> (lines, index of the line holding the call)"""
    v = lambda pn: "c%d_%s" % (c.cid, re.sub(r"\W", "_", pn))
    lines = []
    argtxt = {}
    for pn, tc, _ in c.params:
        if c.modes[pn] == "var":
            lines.append("%s %s ist %s." % (DECL[tc], v(pn), prod_value(tc, c.args[pn], c.prod.get(pn), False)))
            argtxt[pn] = v(pn)
        else:
            argtxt[pn] = prod_value(tc, c.args[pn], c.prod.get(pn), True)
    call = P.render_alias(c.alias, argtxt, c.negate)
    show = lambda tc, e: "c17%s %s." % (tc.lower(), e)
    tag = 'Schreibe "#%d:".' % c.cid
    if c.ret is None:
        call_line = len(lines)
        lines.append(call[0].upper() + call[1:] + ".")
        lines.append(tag)
    elif c.store:
        call_line = len(lines)
        lines.append("%s c%d_r ist (%s)." % (DECL[c.ret], c.cid, call))
        lines.append(tag)
        lines.append(show(c.ret, "c%d_r" % c.cid))
    else:
        lines.append(tag)
        call_line = len(lines)
        lines.append(show(c.ret, "(" + call + ")"))
    for pn, tc, _ in c.params:
        if c.modes[pn] == "var":
            lines.append(show(tc, v(pn)))
    lines.append("Schreibe '\\n'.")
    return lines, first_line + call_line


def render_driver(cases):
    global HELPERS
    if HELPERS is None:
        HELPERS = helper_source()
    mods = []
    for c in cases:
        if c.group.module not in mods:
            mods.append(c.group.module)
    if "Listen" not in mods and any(k in ("join", "elems") for c in cases for k in c.prod.values()):
        mods.append("Listen")       # "<liste> aneinandergehängt" is declared there
    head = ['Binde "Duden/Ausgabe" ein.'] + ['Binde "Duden/%s" ein.' % m for m in mods] + ["", HELPERS, ""]
    text = "\n".join(head) + "\n"
    lineno = text.count("\n") + 1
    body = []
    for c in cases:
        ls, c.line = render_case(c, lineno + len(body))
        body += ls
    return text + "\n".join(body) + "\n"


TAG = re.compile(r"(?m)^#(\d+):")


def parse_output(out):
    """{case id: [fields]} for complete lines; a line is complete when it ends with '|' + newline"""
    res = {}
    ms = list(TAG.finditer(out))
    for i, m in enumerate(ms):
        end = ms[i + 1].start() if i + 1 < len(ms) else len(out)
        content = out[m.end():end]
        if not content.endswith("|\n"):
            res[int(m.group(1))] = None
            continue
        res[int(m.group(1))] = content[:-2].split("|")
    return res


def field_ok(tc, want, got):
    if isinstance(want, M.Pred):
        try:
            return bool(want.fn(got))
        except Exception:
            return False
    if isinstance(want, M.Unordered):
        exp = fmt(tc, want.items)
        n1, _, r1 = exp.partition(":")
        n2, _, r2 = got.partition(":")
        return n1 == n2 and sorted(r1.split(";")) == sorted(r2.split(";"))
    exp = fmt(tc, want)
    if exp == got:
        return True
    if tc in ("K", "KL"):
        return exp == got.replace("-0;", "0;") or (tc == "K" and got == "-0" and exp == "0")
    return False


def describe(tc, want):
    if isinstance(want, M.Pred):
        return repr(want)
    if isinstance(want, M.Unordered):
        return "any order of " + fmt(tc, want.items)
    return fmt(tc, want)


def case_record(c, O):
    return {"group": c.group.key, "T": c.T, "args": c.args, "modes": c.modes, "alias": c.alias, "negate": c.negate, "store": c.store, "prod": c.prod, "O": O}


def case_from_record(duden, rec, cid=1):
    g = next(g for g in M.GROUPS if g.key == rec["group"])
    params, ret, aliases = group_signature(duden, g, rec["T"])

    class _R:
        def choice(self, x):
            return x[0]

        def random(self):
            return 1.0
    c = Case()
    c.cid, c.group, c.T, c.args, c.params, c.ret = cid, g, rec["T"], rec["args"], params, ret
    c.alias, c.negate, c.modes, c.store = rec["alias"], rec["negate"], rec["modes"], rec["store"]
    c.prod = rec.get("prod") or {}
    c.error = False
    try:
        res, upd = g.model(copy.deepcopy(c.args))
    except M.Laufzeitfehler:
        c.error = True
        res, upd = None, {}
    c.expect = []
    if ret is not None and not c.error:
        c.expect.append(("result", ret, (not res) if c.negate else res))
    if not c.error:
        for pn, tc, _ in params:
            if c.modes[pn] == "var":
                c.expect.append((pn, tc, upd.get(pn, c.args[pn])))
    c.cls = shape_of(c)
    return c


# ------------------------------------------------------------------ running drivers

_tls = threading.local()


def get_probe(scratch_dir):
    p = getattr(_tls, "probe", None)
    if p is None:
        p = Probe(scratch_dir)
        _tls.probe = p
        with _probes_lock:
            _probes.append(p)
    return p


_probes = []
_probes_lock = threading.Lock()
HELPER_NAMES = None


_resolve_cache = {}
_resolve_lock = threading.Lock()


def resolve_calls(scratch_dir, src_path, cases, src=None):
    """{case id: names of the functions the calls on the case's call line resolved to} via the real front end;
    the same source text (second optimisation level) is parsed once"""
    key = None
    if src is not None:
        import hashlib
        key = hashlib.sha1(src.encode()).hexdigest()
        with _resolve_lock:
            by_line = _resolve_cache.get(key)
    else:
        by_line = None
    if by_line is None:
        pr = get_probe(scratch_dir)
        try:
            r = pr.request({"op": "parse", "id": os.path.basename(src_path), "file": src_path, "dump": True, "cpu_sec": 60}, wall_s=180)
        except ProbeDied:
            return None
        if r.get("panic") or r.get("err") or r.get("faulty"):
            return None
        by_line = {}
        for call in r.get("calls") or []:
            if call.get("kind") == "call":
                by_line.setdefault(call["l1"], []).append(call["name"])
        if key is not None:
            with _resolve_lock:
                _resolve_cache[key] = by_line
    res = {}
    for c in cases:
        names = [n for n in by_line.get(c.line, []) if not n.startswith("c17_") and not n.startswith("Schreibe")]
        res[c.cid] = names
    return res


class DriverResult:
    __slots__ = ("cases", "src", "compile", "run", "fields", "resolved", "exe", "O", "name")


def run_driver(scratch_dir, name, cases, O, want_probe=True):
    d = os.path.join(scratch_dir, name)
    os.makedirs(d, exist_ok=True)
    src = render_driver(cases)
    src_path = os.path.join(d, "main.ddp")
    vlib.write_file(src_path, src)
    r = DriverResult()
    r.cases, r.src, r.O, r.name = cases, src, O, name
    r.exe = os.path.join(d, "main")
    r.resolved = resolve_calls(scratch_dir, src_path, cases, src) if want_probe else None
    r.compile = vlib.kddp_compile(src_path, r.exe, O=O)
    r.run = None
    r.fields = {}
    if r.compile.rc == 0 and not r.compile.timed_out and os.path.exists(r.exe):
        r.run = vlib.run_exe(r.exe, wall_s=60, cpu_s=20)
        r.fields = parse_output(r.run.out)
    return r


def judge_driver(chk, r, state):
    """-> list of cases that could not be observed because an earlier case ended the program (to be re-batched)"""
    cases = r.cases
    if r.compile.timed_out or (r.run is not None and r.run.timed_out):
        chk.inconclusive += len(cases)
        chk.count("cases_lost_to_wallclock", len(cases))
        return []
    if r.run is None:
        # the driver did not compile: with one case it is that case's problem (reported, not judged), otherwise split
        if len(cases) == 1:
            c = cases[0]
            chk.inconclusive += 1
            chk.count("case_does_not_compile")
            with chk.lock:
                state["uncompilable"].setdefault(c.group.key, (r.src, r.compile.err[-1500:]))
            return []
        chk.count("drivers_not_compiling_split")
        with chk.lock:
            state["uncompilable"].setdefault("<driver %s>" % r.name, (r.src, r.compile.err[-1500:] or "rc=%s" % r.compile.rc))
        return [("split", cases)]
    rc = r.run.rc
    rte = "Laufzeitfehler" in r.run.err
    leftover = []
    stopped = False
    for idx, c in enumerate(cases):
        if stopped:
            leftover.append(c)
            continue
        fields = r.fields.get(c.cid)
        resolved = r.resolved.get(c.cid) if r.resolved is not None else None
        target = None
        if resolved is not None:
            hits = [n for n in resolved if n in c.group.names]
            if not hits:
                chk.count("calls_resolved_to_other_function")
                with chk.lock:
                    state["misresolved"].setdefault(c.group.key + " -> " + ",".join(resolved), r.src.split("\n")[c.line - 1])
                if fields is None and rc != 0:
                    stopped = True
                continue
            target = hits[0]
        else:
            chk.count("calls_not_resolved_by_probe")
            target = None
        fname = target or c.group.names[0]
        if fields is None:
            # program ended inside this case
            if c.error and rc == 1 and rte:
                note_ok(chk, c, fname, r, state, "documented Laufzeitfehler observed")
                stopped = True
                continue
            stopped = True
            if rc == 1 and rte:
                report(chk, c, fname, r, state, "unexpected Laufzeitfehler", "call completes", "Laufzeitfehler: " + first_line_of(r.run.err))
            elif rc == 0:
                report(chk, c, fname, r, state, "output missing", "tagged line", "program exited 0 without the line")
            else:
                # abnormal end: stdout may have been lost, attribute by running the remaining cases one by one
                chk.count("drivers_ended_abnormally")
                if len(cases) - idx > 1:
                    return [("split", cases[idx:])]
                report(chk, c, fname, r, state, "crash", "call completes", "exit status %s, stderr: %s" % (rc, r.run.err[-300:]))
            continue
        if c.error:
            got = "|".join(fields)
            report(chk, c, fname, r, state, "no Laufzeitfehler", "Laufzeitfehler (documented for an invalid index)", "call returned; printed " + got)
            continue
        if len(fields) != len(c.expect):
            report(chk, c, fname, r, state, "field count", str(len(c.expect)), "|".join(fields))
            continue
        bad = None
        for (label, tc, want), got in zip(c.expect, fields):
            if not field_ok(tc, want, got):
                bad = (label, tc, want, got)
                break
        if bad is None:
            note_ok(chk, c, fname, r, state, None)
        else:
            label, tc, want, got = bad
            kind = "result" if label == "result" else ("argument %s after the call" % label)
            report(chk, c, fname, r, state, kind, describe(tc, want), got)
    if not stopped and rc != 0:
        chk.count("drivers_nonzero_exit_after_all_lines")
    if leftover:
        return [("rebatch", leftover)]
    return []


def first_line_of(s):
    s = s.strip().split("\n")
    return s[0][:300] if s else ""


def call_text(c, r):
    try:
        return r.src.split("\n")[c.line - 1].strip()
    except Exception:
        return "?"


def note_ok(chk, c, fname, r, state, remark):
    chk.note_case((c.group.key, c.T, json.dumps(c.args, sort_keys=True, ensure_ascii=False), c.alias, c.negate, c.store, tuple(sorted(c.modes.items())), tuple(sorted(c.prod.items()))))
    chk.count("calls_judged")
    with chk.lock:
        state["covered"].setdefault(c.group.module, {}).setdefault(fname, 0)
        state["covered"][c.group.module][fname] += 1
        state["cells"].add((c.group.key, c.T, "store" if c.store else "temp", tuple(sorted(c.modes.items()))))
    if c.error:
        chk.count("documented_runtime_errors_observed")
    if any(m == "var" for m in c.modes.values()):
        chk.count("argument_variables_checked_after_call", sum(1 for m in c.modes.values() if m == "var"))
    if c.cid % 97 == 0 or (c.error and c.cid % 7 == 0):
        chk.sample({"function": "%s.%s" % (c.group.module, fname), "call": call_text(c, r), "args": c.args,
                    "expected": [describe(tc, w) for _, tc, w in c.expect] if not c.error else "Laufzeitfehler",
                    "observed": r.fields.get(c.cid) if not c.error else first_line_of(r.run.err), "O": r.O}, limit=8)


def report(chk, c, fname, r, state, kind, expected, observed):
    chk.note_case((c.group.key, c.T, json.dumps(c.args, sort_keys=True, ensure_ascii=False), c.alias, c.negate, c.store, tuple(sorted(c.modes.items())), tuple(sorted(c.prod.items()))))
    chk.count("calls_judged")
    with chk.lock:
        state["covered"].setdefault(c.group.module, {}).setdefault(fname, 0)
        state["covered"][c.group.module][fname] += 1
        state["disagreements"].setdefault("%s.%s" % (c.group.module, fname), 0)
        state["disagreements"]["%s.%s" % (c.group.module, fname)] += 1
    sig = {"module": c.group.module, "function": fname, "case": "%s: %s" % (kind, c.cls)}
    nonlit = sorted({k for k in c.prod.values() if k != "lit"})
    if nonlit:
        sig["producers"] = ",".join(nonlit)
    if chk.match_known(sig) is None:
        with chk.lock:
            key = json.dumps(sig, sort_keys=True, ensure_ascii=False)
            if key in state["reported"]:
                state["reported"][key] += 1
                return None
            state["reported"][key] = 1
    single = copy.copy(c)
    single.cid = 1
    repro = render_driver([single])
    call = call_text(c, r)
    text = ("%s.%s  (documentation: %s)\ncall: %s\narguments: %s\nexpected %s: %s\nobserved: %s\n-O %d\n%s" % (
        c.group.module, fname, (state["docs"].get((c.group.module, fname)) or "").replace("\n", " / ")[:400], call,
        json.dumps(c.args, ensure_ascii=False), kind, expected, observed, r.O, ("note: " + c.group.note) if c.group.note else ""))
    chk.violation(sig, files={"repro.ddp": repro, "driver.ddp": r.src, "case.json": json.dumps(case_record(c, r.O), indent=1, ensure_ascii=False),
                              "stdout.txt": r.run.out if r.run else "", "stderr.txt": r.run.err if r.run else ""}, text=text)
    return None


# ------------------------------------------------------------------ plan

def plan_cases(duden, seed, tier, chk, state):
    per_group = 26 if tier == "quick" else 130
    cases = []
    cid = 0
    only = os.environ.get("C17_GROUPS")      # development aid: regex over "Module.Function"; recorded in the evidence
    for g in M.GROUPS:
        if only and not re.search(only, g.key):
            continue
        for T in g.etypes:
            sig = group_signature(duden, g, T or "Z")
            if sig is None:
                chk.count("model_without_matching_public_declaration")
                state["stale_models"].append(g.key)
                break
            n = max(2, int(per_group * g.weight / (1 + 0.5 * (len(g.etypes) - 1))))
            rng = random.Random("%s/%s/%s/%s" % (seed, tier, g.key, T))
            seen = set()
            tries = 0
            fixed = list(g.enum()) if g.enum else []       # small finite domains are enumerated completely
            n = max(n, len(fixed))
            while len(seen) < n and tries < n * 6:
                tries += 1
                cid += 1
                c = build_case(duden, g, T, rng, cid, fixed.pop() if fixed else None)
                if c is None:
                    chk.count("generator_declined")
                    continue
                key = (json.dumps(c.args, sort_keys=True, ensure_ascii=False), c.alias, c.negate, c.store, tuple(sorted(c.modes.items())), tuple(sorted(c.prod.items())))
                if key in seen:
                    continue
                seen.add(key)
                cases.append(c)
    return cases


def batch_cases(cases, seed, tier, size=30):
    """drivers of ~size calls: two thirds hold one module each, one third mixes modules; at most one case with a
    documented Laufzeitfehler per driver, placed last"""
    rng = random.Random("%s/%s/batch" % (seed, tier))
    errs = [c for c in cases if c.error]
    oks = [c for c in cases if not c.error]
    rng.shuffle(errs)
    by_mod = {}
    mixed = []
    for c in oks:
        (mixed if rng.random() < 0.33 else by_mod.setdefault(c.group.module, [])).append(c)
    drivers = []
    for mod in sorted(by_mod):
        l = by_mod[mod]
        rng.shuffle(l)
        drivers += [l[i:i + size] for i in range(0, len(l), size)]
    rng.shuffle(mixed)
    drivers += [mixed[i:i + size] for i in range(0, len(mixed), size)]
    # distribute the error cases (one per driver, last); extra ones get small drivers of their own
    rng.shuffle(drivers)
    k = 0
    for d in drivers:
        if k < len(errs):
            d.append(errs[k])
            k += 1
    while k < len(errs):
        drivers.append([errs[k]])
        k += 1
    return drivers


# ------------------------------------------------------------------ memcheck

def memcheck_driver(chk, scratch_dir, r, state):
    pr = vlib.run_memcheck(r.exe)
    if pr.timed_out or pr.rc == -999:
        chk.inconclusive += 1
        return
    chk.count("memcheck_runs")
    chk.count("memcheck_calls_covered", len(r.cases))
    if pr.rc != 97 and "== Invalid" not in pr.err and "definitely lost" not in pr.err:
        return
    # attribute: run every case alone under memcheck
    chk.count("memcheck_reports")

    def one(c):
        single = copy.copy(c)
        single.cid = 1
        rr = run_driver(scratch_dir, "%s-mc%d" % (r.name, c.cid), [single], r.O, want_probe=False)
        if rr.run is None:
            return None
        p2 = vlib.run_memcheck(rr.exe)
        return (c, rr, p2)
    found = False
    for res in vlib.pmap(one, r.cases):
        if res is None:
            continue
        c, rr, p2 = res
        if p2.rc == 97:
            found = True
            head = re.sub(r"==\d+== ?", "", p2.err)
            what = next((l.strip() for l in head.split("\n") if l.strip()), "")[:120]
            frames = re.findall(r"(?:at|by) 0x[0-9A-F]+: (\S+)", p2.err)[:3]
            sig = {"module": c.group.module, "function": c.group.names[0], "case": "memcheck: %s in %s" % (re.sub(r"\d+", "N", what), "<".join(frames))}
            chk.violation(sig, files={"repro.ddp": rr.src, "valgrind.txt": p2.err[-8000:], "case.json": json.dumps(case_record(c, r.O), indent=1, ensure_ascii=False)},
                          text="valgrind memcheck reports an error for a single documented-domain call\ncall: %s\n%s" % (call_text(single_line(rr), rr), head[:1500]))
    if not found:
        sig = {"module": "+".join(sorted({c.group.module for c in r.cases})), "function": "<driver>", "case": "memcheck report only for the whole driver"}
        chk.violation(sig, files={"driver.ddp": r.src, "valgrind.txt": pr.err[-8000:]}, text=pr.err[:1500])


def single_line(rr):
    return rr.cases[0]


# ------------------------------------------------------------------ canary

CANARY_VALUES = [("Z", -5), ("K", 2.5), ("W", True), ("B", "ä"), ("T", "a€ 😀"), ("ZL", [1, -2]), ("KL", [0.5]), ("WL", [True, False]), ("BL", ["a", "😀"]),
                 ("TL", ["", "ab"]), ("YL", [97, 255]), ("ZL", []), ("TL", [])]


def canary(scratch_dir):
    """the show helpers and the output format, without any Duden function: must work or nothing can be judged"""
    global HELPERS
    if HELPERS is None:
        HELPERS = helper_source()
    lines = ['Binde "Duden/Ausgabe" ein.', "", HELPERS, "", 'Schreibe "#1:".']
    for i, (tc, v) in enumerate(CANARY_VALUES):
        lines.append("%s k%d ist %s." % (DECL[tc], i, lit_value(tc, v)))
        lines.append("c17%s k%d." % (tc.lower(), i))
        lines.append("c17%s %s." % (tc.lower(), lit_arg(tc, v)))
    lines.append("Schreibe '\\n'.")
    d = os.path.join(scratch_dir, "canary")
    os.makedirs(d, exist_ok=True)
    src = os.path.join(d, "main.ddp")
    vlib.write_file(src, "\n".join(lines) + "\n")
    pr = vlib.kddp_compile(src, os.path.join(d, "main"), O=1)
    if pr.rc != 0:
        raise RuntimeError("C17 canary does not compile:\n" + pr.err[-2000:])
    rr = vlib.run_exe(os.path.join(d, "main"))
    want = "#1:" + "".join(fmt(tc, v) + "|" + fmt(tc, v) + "|" for tc, v in CANARY_VALUES) + "\n"
    if rr.rc != 0 or rr.out != want:
        raise RuntimeError("C17 canary output differs:\nwant %r\ngot  %r\n%s" % (want, rr.out, rr.err[-500:]))


# ------------------------------------------------------------------ entry points

def load_duden():
    return P.parse_duden(os.path.join(vlib.DDP, "Duden"))


def coverage_report(duden, state):
    rep = {}
    modelled = {}
    for g in M.GROUPS:
        for n in g.names:
            modelled.setdefault(g.module, set()).add(n)
    for mod in P.MODULES:
        funcs = duden[mod]["funcs"]
        public = [n for n in duden[mod]["order"] if funcs[n].public]
        cov = state["covered"].get(mod, {})
        covered = [n for n in public if cov.get(n)]
        no_model = [n for n in public if n not in modelled.get(mod, set()) and ("%s.%s" % (mod, n)) not in M.EXCLUDED_FUNCTIONS]
        excluded = [n for n in public if ("%s.%s" % (mod, n)) in M.EXCLUDED_FUNCTIONS]
        not_reached = [n for n in public if n in modelled.get(mod, set()) and not cov.get(n)]
        rep[mod] = {"public_functions": len(public), "covered": len(covered), "calls_per_function": {n: cov[n] for n in covered},
                    "no_model": no_model, "excluded_ambiguous_doc": excluded, "modelled_but_not_reached": not_reached}
    return rep


RULE = ("For every public function of Duden/{Listen,Texte,Sortierung,Zeichen,Zahlen,Mathe,Statistik} that has a model: calls through the "
        "documented alias with arguments inside the documented domain; the printed result and every argument variable after the call "
        "must equal the Python model written from the doc comment (value arguments unchanged, Referenz arguments = documented new value; "
        "a documented Laufzeitfehler must occur). A call is judged only when the front end resolved it to a function of the modelled group. "
        "Distinct = (function group, element type, arguments, alias, negation, stored/temporary result, variable/temporary per argument).")

ASSUMPTIONS = [
    "executables run with LOCPATH=/verif/build/locale (de_DE.UTF-8 shim, decimal comma)",
    "value formats of Duden/Ausgabe (io.c) are taken as given: Zahl %lld, Kommazahl %.16g with decimal comma ('-0' accepted as '0'), Wahrheitswert wahr/falsch",
    "insert at index len+1, delete-range with start > end, first/last n elements with n < 1 or n > len, search for an empty text, split of an empty text, "
    "empty separator sets, Text->Zahl test of digit prefixes, ß and non-German letters in case mapping, capital letters beyond Latin-1, negative arguments of "
    "ggT/kgV/Fakultät, Clamp with min > max, statistics of empty lists, p outside (0,1): documentation silent or ambiguous, not generated",
    "Kommazahl results only where every intermediate value of the documented computation is exactly representable (dyadic inputs); transcendental functions only at "
    "arguments with an exact result; Varianz/Standardabweichung judged with divisor n-1 (the implementation's and 'empirische Kovarianz' convention)",
    "functions without a doc comment (Text<->Byte Liste, Hex, character constants) are modelled from their alias text and marked 'alias only'/'name only'",
    "order of Primfaktoren, Teiler and Modalwert results is not documented: compared as multisets",
]


def run(tier):
    vlib.ensure_build(asan=False)
    chk = Check(PID, tier)
    chk.rule = RULE
    chk.assumptions = list(ASSUMPTIONS)
    duden = load_duden()
    state = {"covered": {}, "cells": set(), "misresolved": {}, "uncompilable": {}, "reported": {}, "disagreements": {}, "stale_models": [],
             "docs": {(m, n): f.doc for m in duden for n, f in duden[m]["funcs"].items()}}
    cases = plan_cases(duden, chk.seed, tier, chk, state)
    drivers = batch_cases(cases, chk.seed, tier, size=40 if tier == "quick" else 60)
    chk.count("cases_planned", len(cases))
    chk.count("cases_planned_expecting_documented_Laufzeitfehler", sum(1 for c in cases if c.error))
    levels = [1] if tier == "quick" else [1, 2]
    n_mem = 10 if tier == "quick" else 40
    with Scratch("c17") as sc:
        canary(sc.path)
        # every job owns its Case objects (render_driver writes the call's line number into them)
        jobs = [("d%04d-O%d" % (i, O), [copy.copy(c) for c in d], O) for O in levels for i, d in enumerate(drivers)]
        rnd = 0
        mem_candidates = []
        while jobs and rnd < 12:
            results = vlib.pmap(lambda j: run_driver(sc.path, "r%d-%s" % (rnd, j[0]), j[1], j[2]), jobs)
            chk.count("drivers_compiled_round_%d" % rnd, len(results))
            nxt = []
            for (name, d, O), r in zip(jobs, results):
                todo = judge_driver(chk, r, state)
                for k, (how, cs) in enumerate(todo or []):
                    if how == "split":
                        # abnormal end or compile failure: quarter the cases until single cases remain
                        step = 1 if len(cs) <= 4 else (len(cs) + 3) // 4
                        nxt += [("%s.s%d" % (name, i), cs[i:i + step], O) for i in range(0, len(cs), step)]
                    else:
                        nxt.append(("%s.b%d" % (name, k), cs, O))
                if rnd == 0 and O == 1 and r.run is not None and r.run.rc == 0 and not any(c.error for c in d):
                    mem_candidates.append(r)
            jobs = nxt
            rnd += 1
        if jobs:
            chk.count("cases_never_observed", sum(len(j[1]) for j in jobs))
        # memcheck on a seeded sample of the clean drivers
        rng = random.Random("%s/%s/mem" % (chk.seed, tier))
        sample = mem_candidates if len(mem_candidates) <= n_mem else rng.sample(mem_candidates, n_mem)
        vlib.pmap(lambda r: memcheck_driver(chk, sc.path, r, state), sample, workers=8)
        for p in _probes:
            p.close()
        del _probes[:]
        _tls.__dict__.clear()
        _resolve_cache.clear()
    chk.distinct_extra = 0
    chk.count("distinct_cells(function x elem type x stored/temp x arg modes)", len(state["cells"]))
    cov = coverage_report(duden, state)
    chk.extra["modules"] = cov
    chk.extra["functions_covered_total"] = "%d / %d public" % (sum(v["covered"] for v in cov.values()), sum(v["public_functions"] for v in cov.values()))
    chk.extra["functions_with_disagreements"] = state["disagreements"]
    chk.extra["distinct_violation_signatures"] = {k: v for k, v in sorted(state["reported"].items())}
    chk.extra["model_notes"] = {g.key: g.note for g in M.GROUPS if g.note}
    chk.extra["excluded_functions"] = M.EXCLUDED_FUNCTIONS
    if os.environ.get("C17_GROUPS"):
        chk.extra["group_filter(partial run)"] = os.environ["C17_GROUPS"]
    if state["misresolved"]:
        chk.extra["calls_resolved_elsewhere(sample)"] = dict(list(state["misresolved"].items())[:20])
    if state["uncompilable"]:
        chk.extra["cases_not_compiling"] = {k: v[1][-400:] for k, v in list(state["uncompilable"].items())[:20]}
    if state["stale_models"]:
        chk.extra["models_without_declaration"] = state["stale_models"]
    log("[C17] functions covered: " + ", ".join("%s %d/%d" % (m, v["covered"], v["public_functions"]) for m, v in cov.items()))
    return chk.finish(min_events=200 if tier == "quick" else 2000)


def replay(path):
    vlib.ensure_build(asan=False)
    duden = load_duden()
    rec = json.load(open(os.path.join(path, "case.json")))
    c = case_from_record(duden, rec)
    chk = Check(PID, "quick")
    state = {"covered": {}, "cells": set(), "misresolved": {}, "uncompilable": {}, "reported": {}, "disagreements": {}, "stale_models": [],
             "docs": {(m, n): f.doc for m in duden for n, f in duden[m]["funcs"].items()}}
    with Scratch("c17r") as sc:
        canary(sc.path)
        r = run_driver(sc.path, "replay", [c], rec.get("O", 1))
        todo = judge_driver(chk, r, state)
        for p in _probes:
            p.close()
        del _probes[:]
        _tls.__dict__.clear()
        log("replay: %s" % ("violated" if chk.violations else "held"))
        if r.run is not None:
            log("stdout: " + r.run.out.strip()[:400])
            log("stderr: " + r.run.err.strip()[:400])
    return 1 if chk.violations or chk.known_hits else 0
