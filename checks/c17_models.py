"""C17 helper: Python reference models of the Duden functions, written from the doc comments of
lib/stdlib/Duden/{Listen,Texte,Sortierung,Zeichen,Zahlen,Mathe,Statistik}.ddp, and seeded argument generators
that stay inside the documented domain.

A *group* is a set of Duden functions that share alias syntax and documented behaviour (value / Referenz variants).
model(a) gets the argument values by parameter name and returns (result, {param: new value}) - parameters not
named in the dict must be unchanged after the call.  `raise Laufzeitfehler` = the documentation promises a runtime
error.  gen(rng, T) returns the argument dict of one case or None.

Value encodings: Zahl int, Kommazahl float, Text str, Buchstabe 1-char str, Wahrheitswert bool, Byte int, lists list."""
import math
from fractions import Fraction


class Laufzeitfehler(Exception):
    pass


class Pred:
    """expected value that is a predicate on the printed field instead of one exact text"""

    def __init__(self, desc, fn):
        self.desc, self.fn = desc, fn

    def __repr__(self):
        return "<%s>" % self.desc


class Unordered:
    """expected list whose order the documentation does not fix"""

    def __init__(self, items):
        self.items = list(items)


GROUPS = []


class Group:
    def __init__(self, module, names, model, gen, etypes=(None,), note=None, doc="comment", aliases=None, weight=1.0, enum=None):
        self.module, self.names, self.model, self.gen, self.enum = module, list(names), model, gen, enum
        self.etypes, self.note, self.doc, self.aliases, self.weight = tuple(etypes), note, doc, aliases, weight
        GROUPS.append(self)

    @property
    def key(self):
        return "%s.%s" % (self.module, self.names[0])


def G(module, names, etypes=(None,), **kw):
    def deco(model):
        gen = kw.pop("gen")
        Group(module, names if isinstance(names, (list, tuple)) else [names], model, gen, etypes=etypes, **kw)
        return model
    return deco


# ------------------------------------------------------------------ value pools

ALPHA = ["a", "b", "ä", "€", "😀", " "]
ALPHA_W = [5, 5, 2, 1, 1, 2]
LENS = [0, 1, 2, 3, 4, 5, 6, 7, 8, 9, 10, 12, 13]
LENS_W = [3, 3, 3, 3, 2, 2, 1, 2, 4, 4, 2, 3, 3]


def rlen(rng, minlen=0):
    while True:
        n = rng.choices(LENS, LENS_W)[0]
        if n >= minlen:
            return n


def rchar(rng, alpha=ALPHA, w=ALPHA_W):
    return rng.choices(alpha, w)[0]


def rtext(rng, lo=0, hi=8, alpha=ALPHA, w=ALPHA_W):
    n = rng.randint(lo, hi)
    if rng.random() < 0.25:
        n = rng.choice([lo, min(hi, lo + 1), hi])
    return "".join(rng.choices(alpha, w, k=n))


def rtext_ab(rng, lo=0, hi=8):
    """few distinct characters: overlapping matches become likely"""
    return rtext(rng, lo, hi, ["a", "b", "ä", "😀"], [6, 4, 2, 1])


def rsub(rng, text, lo=1, hi=3):
    """a search text: often a real slice of text, sometimes a near miss"""
    r = rng.random()
    if text and r < 0.6:
        n = rng.randint(lo, max(lo, min(hi, len(text))))
        i = rng.randint(0, max(0, len(text) - n))
        return text[i:i + n] or rtext_ab(rng, lo, hi)
    if text and r < 0.75:
        return text
    return rtext_ab(rng, lo, hi)


K_POOL = [0.0, 0.5, 1.0, 1.5, 2.0, 2.5, 3.0, -0.5, -1.0, -1.5, -2.5, 0.25, 0.75, -0.25, 4.0, 7.5, -3.0, 10.0]
K_SMALLBITS = [0.5, 1.0, 1.5, 2.0, 3.0, -0.5, -1.0, -1.5, -2.0, 0.25, 0.75, -0.25, 4.0, 0.0]


def relem(rng, T):
    if T == "Z":
        return rng.choice([0, 1, 2, 3, -1, -2, 5, 7, 9]) if rng.random() < 0.85 else rng.choice([2 ** 31, -2 ** 31, 10 ** 12, 255, 256, -7])
    if T == "K":
        return rng.choice(K_POOL)
    if T == "T":
        return rtext(rng, 0, 4)
    if T == "B":
        return rchar(rng)
    if T == "W":
        return rng.random() < 0.5
    if T == "Y":
        return rng.choice([0, 1, 97, 127, 128, 200, 255])
    raise ValueError(T)


def rlist(rng, T, n=None, minlen=0):
    if n is None:
        n = rlen(rng, minlen)
    return [relem(rng, T) for _ in range(n)]


def rzahl(rng):
    return rng.choice([0, 1, -1, 2, 3, 7, 10, -5, 12, 100, -100, 255, 2 ** 31, -2 ** 31 - 1, 10 ** 15, -10 ** 15, 2 ** 62, -2 ** 62])


def relem_like(rng, T, lst):
    """an element to search for: often present"""
    if lst and rng.random() < 0.65:
        return rng.choice(lst)
    return relem(rng, T)


def exact(fr):
    """Fraction exactly representable as a double with some slack in the mantissa?"""
    try:
        f = float(fr)
    except OverflowError:
        return False
    return Fraction(f) == fr


def slim(fr, bits=40):
    """exactly representable with at most `bits` significant bits (so that sums/products of a few stay exact)"""
    if fr == 0:
        return True
    if not exact(fr):
        return False
    n = abs(fr.numerator)
    d = fr.denominator
    if d & (d - 1):
        return False
    while n % 2 == 0:
        n //= 2
    return n.bit_length() <= bits


# ================================================================== Listen

LT = ("Z", "K", "T", "B")     # element types for the generic list functions
NUM = ("Z", "K")


def g_list(rng, T):
    return {"liste": rlist(rng, T)}


@G("Listen", ["Leere_Liste"], LT, gen=g_list)
def _(a):
    return None, {"liste": []}


@G("Listen", ["Hinzufügen_Liste"], LT, gen=lambda rng, T: {"liste": rlist(rng, T), "elm": relem(rng, T)})
def _(a):
    return None, {"liste": a["liste"] + [a["elm"]]}


@G("Listen", ["Hinzufügen_Liste_Liste"], LT, gen=lambda rng, T: {"liste": rlist(rng, T), "other": rlist(rng, T)})
def _(a):
    return None, {"liste": a["liste"] + a["other"]}


def g_index_insert(rng, n):
    """documented: valid index -> insert before it; invalid -> Laufzeitfehler. index = len+1 (insert before the
    position after the last element) is not settled by the comment: not generated"""
    if n > 0 and rng.random() < 0.85:
        return rng.choice([1, n, rng.randint(1, n), rng.randint(1, n)])
    return rng.choice([0, -1, n + 2, n + 5])


def g_insert(rng, T):
    l = rlist(rng, T)
    return {"liste": l, "index": g_index_insert(rng, len(l)), "elm": relem(rng, T)}


@G("Listen", ["Einfügen_Liste"], LT, gen=g_insert)
def _(a):
    l, i = a["liste"], a["index"]
    if not 1 <= i <= len(l):
        raise Laufzeitfehler()
    return None, {"liste": l[:i - 1] + [a["elm"]] + l[i - 1:]}


def g_insert_range(rng, T):
    l = rlist(rng, T)
    return {"liste": l, "index": g_index_insert(rng, len(l)), "range": rlist(rng, T)}


@G("Listen", ["Einfügen_Bereich_Liste"], LT, gen=g_insert_range)
def _(a):
    l, i = a["liste"], a["index"]
    if not 1 <= i <= len(l):
        raise Laufzeitfehler()
    return None, {"liste": l[:i - 1] + a["range"] + l[i - 1:]}


@G("Listen", ["Voranstellen_Liste"], LT, gen=lambda rng, T: {"liste": rlist(rng, T), "elm": relem(rng, T)})
def _(a):
    return None, {"liste": [a["elm"]] + a["liste"]}


@G("Listen", ["Voranstellen_Liste_Liste"], LT, gen=lambda rng, T: {"liste": rlist(rng, T), "other": rlist(rng, T)})
def _(a):
    return None, {"liste": a["other"] + a["liste"]}


def g_delete(rng, T):
    l = rlist(rng, T)
    n = len(l)
    if n > 0 and rng.random() < 0.85:
        i = rng.choice([1, n, rng.randint(1, n), rng.randint(1, n)])
    else:
        i = rng.choice([0, -1, n + 1, n + 2])
    return {"liste": l, "index": i}


@G("Listen", ["Lösche_Element"], LT, gen=g_delete)
def _(a):
    l, i = a["liste"], a["index"]
    if not 1 <= i <= len(l):
        raise Laufzeitfehler()
    return None, {"liste": l[:i - 1] + l[i:]}


def g_delete_range(rng, T):
    """[start, end] inclusive; start > end is not generated (the comment does not say whether that is an
    'invalid index')"""
    l = rlist(rng, T)
    n = len(l)
    if n > 0 and rng.random() < 0.85:
        s = rng.choice([1, rng.randint(1, n), rng.randint(1, n)])
        e = rng.choice([n, s, rng.randint(s, n), rng.randint(s, n)])
    else:
        s, e = rng.choice([(0, max(1, n)), (-1, 1), (1, n + 1), (max(1, n), n + 2), (0, n + 1), (n + 1, n + 1), (0, 0)])
        if s > e:
            s, e = e, s
    return {"liste": l, "start": s, "end": e}


@G("Listen", ["Lösche_Bereich"], LT, gen=g_delete_range)
def _(a):
    l, s, e = a["liste"], a["start"], a["end"]
    assert s <= e
    if s < 1 or e > len(l):
        raise Laufzeitfehler()
    return None, {"liste": l[:s - 1] + l[e:]}


@G("Listen", ["Füllen_Liste"], LT, gen=lambda rng, T: {"liste": rlist(rng, T), "elm": relem(rng, T)})
def _(a):
    return None, {"liste": [a["elm"]] * len(a["liste"])}


def g_search(rng, T):
    l = rlist(rng, T)
    return {"liste": l, "elm": relem_like(rng, T, l)}


@G("Listen", ["Index_Von_Element", "Index_Von_Element_Ref"], LT, gen=g_search)
def _(a):
    return (a["liste"].index(a["elm"]) + 1 if a["elm"] in a["liste"] else -1), {}


@G("Listen", ["Enthält_Wert", "Enthält_Wert_Ref"], LT, gen=g_search)
def _(a):
    return a["elm"] in a["liste"], {}


@G("Listen", ["Ist_Leer_Liste", "Ist_Leer_Liste_Ref"], LT, gen=lambda rng, T: {"liste": rlist(rng, T, n=rng.choice([0, 0, 1, 2, 9]))})
def _(a):
    return len(a["liste"]) == 0, {}


def g_first_n(rng, T):
    """'liste bis zum n. Element': n in 1..len (the comment is silent on n < 1 and n > len)"""
    l = rlist(rng, T, minlen=1)
    return {"liste": l, "n": rng.choice([1, len(l), rng.randint(1, len(l))])}


@G("Listen", ["Erste_N_Elemente_Liste", "Erste_N_Elemente_Liste_Ref"], LT, gen=g_first_n)
def _(a):
    return a["liste"][:a["n"]], {}


@G("Listen", ["Letzten_N_Elemente_Liste", "Letzten_N_Elemente_Liste_Ref"], LT, gen=g_first_n,
   note="comment says 'ab dem (Länge minus n). Element' (n+1 elements); name and alias say the last n elements - the alias is taken")
def _(a):
    return a["liste"][len(a["liste"]) - a["n"]:], {}


@G("Listen", ["Liste_Spiegeln", "Liste_Spiegeln_Ref"], LT, gen=g_list)
def _(a):
    return a["liste"][::-1], {}


def rnum_list(rng, T, n=None, small=False):
    if n is None:
        n = rlen(rng)
    if T == "Z":
        pool = [0, 1, 2, 3, -1, -2, -3] if small else [0, 1, 2, 3, -1, -2, 5, 7, 9, 100, -100, 2 ** 31, 10 ** 12]
        return [rng.choice(pool) for _ in range(n)]
    pool = K_SMALLBITS if small else K_POOL
    return [rng.choice(pool) for _ in range(n)]


@G("Listen", ["Summe_Liste"], NUM, gen=lambda rng, T: {"liste": rnum_list(rng, T)})
def _(a):
    l = a["liste"]
    return (sum(l) if l else (0 if not l or isinstance(l[0], int) else 0.0)), {}


def g_product(rng, T):
    l = rnum_list(rng, T, small=True)
    if rng.random() < 0.6:
        l = [x for x in l if x != 0] or l
    return {"liste": l}


@G("Listen", ["Produkt_Liste"], NUM, gen=g_product)
def _(a):
    l = a["liste"]
    if not l:
        return 0, {}           # documented: f({}) = 0
    p = Fraction(1)
    for x in l:
        p *= Fraction(x)
    return (int(p) if isinstance(l[0], int) else float(p)), {}


def g_pair(rng, T, nonzero2=False):
    n = rlen(rng)
    l1 = rnum_list(rng, T, n, small=True)
    l2 = rnum_list(rng, T, n, small=True)
    if nonzero2:
        l2 = [x if x != 0 else (1 if T == "Z" else 0.5) for x in l2]
    return {"l1": l1, "l2": l2}


@G("Listen", ["Elementweise_Summe"], NUM, gen=g_pair)
def _(a):
    return [x + y for x, y in zip(a["l1"], a["l2"])], {}


@G("Listen", ["Elementweise_Differenz"], NUM, gen=g_pair)
def _(a):
    return [x - y for x, y in zip(a["l1"], a["l2"])], {}


@G("Listen", ["Elementweise_Produkt"], NUM, gen=g_pair)
def _(a):
    return [x * y for x, y in zip(a["l1"], a["l2"])], {}


@G("Listen", ["Elementweise_Quotient"], NUM, gen=lambda rng, T: g_pair(rng, T, nonzero2=True))
def _(a):
    return [float(x) / float(y) for x, y in zip(a["l1"], a["l2"])], {}


@G("Listen", ["Aneinandergehängt_Buchstabe", "Aneinandergehaengt_Buchstabe_Ref"], gen=lambda rng, T: {"liste": rlist(rng, "B")})
def _(a):
    return "".join(a["liste"]), {}


@G("Listen", ["Verketten_Text_Liste", "Verketten_Text_Liste_Ref"], gen=lambda rng, T: {"liste": rlist(rng, "T")})
def _(a):
    return "".join(a["liste"]), {}


def g_tpair(rng, T):
    n = rlen(rng)
    return {"l1": rlist(rng, "T", n), "l2": rlist(rng, "T", n)}


@G("Listen", ["Elementweise_Verketten_Text", "Elementweise_Verketten_Text_Ref"], gen=g_tpair)
def _(a):
    return [x + y for x, y in zip(a["l1"], a["l2"])], {}


def g_asc(rng, T):
    s = rng.choice([0, 1, -10, 5, -3, 100, 2 ** 31, -1])
    return {"start": s, "ende": s + rng.choice([0, 0, 1, 2, 7, 8, 9, 12, 20])}


@G("Listen", ["Aufsteigende_Zahlen"], gen=g_asc)
def _(a):
    return list(range(a["start"], a["ende"] + 1)), {}


def g_desc(rng, T):
    d = g_asc(rng, T)
    return {"start": d["ende"], "ende": d["start"]}


@G("Listen", ["Absteigende_Zahlen"], gen=g_desc)
def _(a):
    return list(range(a["start"], a["ende"] - 1, -1)), {}


def g_linspace(rng, T):
    """anzahl >= 2 (documented); anzahl-1 a power of two and dyadic end points: every element is exactly representable"""
    n = rng.choice([2, 3, 5, 9])
    s = rng.choice([0.0, 1.0, -2.0, 0.5, 10.0, -8.0])
    step = rng.choice([0.0, 1.0, 0.5, -1.0, 2.0, 0.25, -0.5, 16.0])
    return {"start": s, "ende": s + step * (n - 1), "anzahl": n}


@G("Listen", ["Linspace"], gen=g_linspace)
def _(a):
    s, e, n = Fraction(a["start"]), Fraction(a["ende"]), a["anzahl"]
    return [float(s + (e - s) * Fraction(i, n - 1)) for i in range(n)], {}


def g_logspace(rng, T):
    n = rng.choice([2, 3, 5, 9])
    s = rng.choice([0, 1, 2, 3])
    step = rng.choice([0, 1, 1, 2]) if n < 9 else rng.choice([0, 1])
    return {"start": float(s), "ende": float(s + step * (n - 1)), "anzahl": n}


@G("Listen", ["Logspace"], gen=g_logspace, note="only integer exponents 0..19 (10^k exactly representable)")
def _(a):
    s, e, n = int(a["start"]), int(a["ende"]), a["anzahl"]
    return [float(10 ** (s + (e - s) * i // (n - 1))) for i in range(n)], {}


# ================================================================== Sortierung

def g_swap(rng, T):
    if T.endswith("L"):
        return {"a": rlist(rng, T[0]), "b": rlist(rng, T[0])}
    return {"a": relem(rng, T), "b": relem(rng, T)}


@G("Sortierung", ["Tausche"], ("Z", "K", "T", "B", "ZL", "TL"), gen=g_swap)
def _(a):
    return None, {"a": a["b"], "b": a["a"]}


def g_sortlist(rng, T):
    n = rlen(rng)
    r = rng.random()
    if T == "Z":
        pool = [0, 1, 2, 3, -1, -2, 5, 7, 9, 100, -100, 2 ** 31, -2 ** 40] if r < 0.7 else [1, 2]
        l = [rng.choice(pool) for _ in range(n)]
    else:
        pool = [x for x in K_POOL] if r < 0.7 else [0.5, 1.5]
        l = [rng.choice(pool) for _ in range(n)]
    q = rng.random()
    if q < 0.12:
        l.sort()
    elif q < 0.24:
        l.sort(reverse=True)
    return {"liste": l}


@G("Sortierung", ["Quicksort_Ref"], NUM, gen=g_sortlist, aliases=["Sortiere <liste>", "Sortiere <liste> mit quick-sort"])
def _(a):
    return None, {"liste": sorted(a["liste"])}


@G("Sortierung", ["Quicksort"], NUM, gen=g_sortlist)
def _(a):
    return sorted(a["liste"]), {}


# ================================================================== Texte

@G("Texte", ["Leerer_Text"], gen=lambda rng, T: {})
def _(a):
    return "", {}


@G("Texte", ["Erster_Buchstabe"], gen=lambda rng, T: {"t": rtext(rng, 1, 8)})
def _(a):
    return a["t"][0], {}


def g_nth(rng, T):
    t = rtext(rng, 1, 8)
    return {"n": rng.choice([1, len(t), rng.randint(1, len(t))]), "t": t}


@G("Texte", ["Nter_Buchstabe"], gen=g_nth)
def _(a):
    return a["t"][a["n"] - 1], {}


@G("Texte", ["Letzter_Buchstabe"], gen=lambda rng, T: {"t": rtext(rng, 1, 8)})
def _(a):
    return a["t"][-1], {}


def g_remove_n(rng, T):
    t = rtext(rng, 0, 8)
    n = len(t)
    return {"text": t, "anzahl": rng.choice([-1, 0, 1, n, n + 1, n - 1 if n > 0 else 0, rng.randint(0, n + 1), n + 5, -3])}


def _remove_front(t, k):
    k = max(k, 0)                       # documented: values below 0 count as 0
    return "" if len(t) <= k else t[k:]


def _remove_back(t, k):
    k = max(k, 0)
    return "" if len(t) <= k else t[:len(t) - k]


@G("Texte", ["Entferne_Anzahl_Vorne_Mutierend"], gen=g_remove_n)
def _(a):
    return None, {"text": _remove_front(a["text"], a["anzahl"])}


@G("Texte", ["Entferne_Anzahl_Hinten_Mutierend"], gen=g_remove_n)
def _(a):
    return None, {"text": _remove_back(a["text"], a["anzahl"])}


@G("Texte", ["Entferne_Anzahl_Vorne"], gen=g_remove_n)
def _(a):
    return _remove_front(a["text"], a["anzahl"]), {}


@G("Texte", ["Entferne_Anzahl_Hinten"], gen=g_remove_n)
def _(a):
    return _remove_back(a["text"], a["anzahl"]), {}


def g_trim(rng, T):
    z = rchar(rng)
    core = rtext(rng, 0, 4)
    r = rng.random()
    if r < 0.15:
        t = z * rng.randint(0, 4)
    elif r < 0.3:
        t = rtext(rng, 0, 2)
    else:
        t = z * rng.choice([0, 1, 2, 3]) + core + z * rng.choice([0, 1, 2, 3])
    return {"text": t[:8], "zeichen": z}


@G("Texte", ["Trim_Anfang"], gen=g_trim)
def _(a):
    return None, {"text": a["text"].lstrip(a["zeichen"])}


@G("Texte", ["Trim_Anfang_Wert"], gen=g_trim)
def _(a):
    return a["text"].lstrip(a["zeichen"]), {}


@G("Texte", ["Trim_Ende"], gen=g_trim)
def _(a):
    return None, {"text": a["text"].rstrip(a["zeichen"])}


@G("Texte", ["Trim_Ende_Wert"], gen=g_trim)
def _(a):
    return a["text"].rstrip(a["zeichen"]), {}


@G("Texte", ["Trim"], gen=g_trim)
def _(a):
    return None, {"text": a["text"].strip(a["zeichen"])}


@G("Texte", ["Trim_Wert"], gen=g_trim)
def _(a):
    return a["text"].strip(a["zeichen"]), {}


def g_text_char(rng, T):
    t = rtext(rng, 0, 8)
    return {"text": t, "zeichen": rng.choice(t) if t and rng.random() < 0.6 else rchar(rng)}


@G("Texte", ["Text_Enthält_Buchstabe"], gen=g_text_char)
def _(a):
    return a["zeichen"] in a["text"], {}


@G("Texte", ["Text_Anzahl_Buchstabe"], gen=g_text_char)
def _(a):
    return a["text"].count(a["zeichen"]), {}


def g_text_sub(rng, T, key="suchText"):
    """search text never empty: whether the empty text is 'contained' / how often is not documented"""
    t = rtext_ab(rng, 0, 8)
    return {"text": t, key: rsub(rng, t, 1, 3)}


def occurrences(t, s):
    return [i for i in range(len(t) - len(s) + 1) if t[i:i + len(s)] == s]


@G("Texte", ["Text_Enthält_Text"], gen=g_text_sub)
def _(a):
    return a["suchText"] in a["text"], {}


@G("Texte", ["Text_Anzahl_Text"], gen=g_text_sub,
   note="'wie oft text den Subtext enthält' counted with overlaps (a separate function counts non-overlapping ones)")
def _(a):
    return len(occurrences(a["text"], a["suchText"])), {}


@G("Texte", ["Text_Anzahl_Text_Nicht_Überlappend"], gen=g_text_sub)
def _(a):
    return a["text"].count(a["suchText"]), {}


def g_text_b(rng, T):
    t = rtext(rng, 0, 8)
    r = rng.random()
    b = t[0] if t and r < 0.3 else t[-1] if t and r < 0.6 else rchar(rng)
    return {"text": t, "buchstabe": b}


@G("Texte", ["Beginnt_Mit_Buchstabe"], gen=g_text_b)
def _(a):
    return a["text"].startswith(a["buchstabe"]), {}


@G("Texte", ["Endet_Mit_Buchstabe"], gen=g_text_b)
def _(a):
    return a["text"].endswith(a["buchstabe"]), {}


def g_affix(rng, T):
    t = rtext_ab(rng, 0, 8)
    r = rng.random()
    if t and r < 0.3:
        s = t[:rng.randint(1, len(t))]
    elif t and r < 0.6:
        s = t[rng.randint(0, len(t) - 1):]
    elif r < 0.75:
        s = t + rtext_ab(rng, 1, 2)
    else:
        s = rtext_ab(rng, 1, 4)
    return {"text": t, "suchText": s}


@G("Texte", ["Beginnt_Mit_Text"], gen=g_affix)
def _(a):
    return a["text"].startswith(a["suchText"]), {}


@G("Texte", ["Endet_Mit_Text"], gen=g_affix)
def _(a):
    return a["text"].endswith(a["suchText"]), {}


@G("Texte", ["Text_Leeren"], gen=lambda rng, T: {"text": rtext(rng)})
def _(a):
    return None, {"text": ""}


@G("Texte", ["Text_An_Text_Fügen"], gen=lambda rng, T: {"text": rtext(rng), "elm": rtext(rng, 0, 4)})
def _(a):
    return None, {"text": a["text"] + a["elm"]}


@G("Texte", ["Buchstabe_An_Text_Fügen"], gen=lambda rng, T: {"text": rtext(rng), "elm": rchar(rng)})
def _(a):
    return None, {"text": a["text"] + a["elm"]}


def g_tinsert(rng, T, elm_text=True):
    """index in 1..len (the comment names 'den gegebenen Index' and nothing about len+1 or an empty text)"""
    t = rtext(rng, 1, 8)
    return {"text": t, "index": rng.choice([1, len(t), rng.randint(1, len(t))]), "elm": rtext(rng, 0, 3) if elm_text else rchar(rng)}


@G("Texte", ["Text_In_Text_Einfügen"], gen=g_tinsert)
def _(a):
    t, i = a["text"], a["index"]
    return None, {"text": t[:i - 1] + a["elm"] + t[i - 1:]}


@G("Texte", ["Buchstabe_In_Text_Einfügen"], gen=lambda rng, T: g_tinsert(rng, T, False))
def _(a):
    t, i = a["text"], a["index"]
    return None, {"text": t[:i - 1] + a["elm"] + t[i - 1:]}


@G("Texte", ["Text_Vor_Text_Stellen"], gen=lambda rng, T: {"text": rtext(rng), "elm": rtext(rng, 0, 4)})
def _(a):
    return None, {"text": a["elm"] + a["text"]}


@G("Texte", ["Buchstabe_Vor_Text_Stellen"], gen=lambda rng, T: {"text": rtext(rng), "elm": rchar(rng)})
def _(a):
    return None, {"text": a["elm"] + a["text"]}


def g_tdelete(rng, T):
    t = rtext(rng, 1, 8)
    return {"text": t, "index": rng.choice([1, len(t), rng.randint(1, len(t))])}


@G("Texte", ["Lösche_Text"], gen=g_tdelete)
def _(a):
    t, i = a["text"], a["index"]
    return None, {"text": t[:i - 1] + t[i:]}


def g_tdelete_range(rng, T):
    t = rtext(rng, 1, 8)
    s = rng.choice([1, rng.randint(1, len(t))])
    return {"text": t, "start": s, "end": rng.choice([s, len(t), rng.randint(s, len(t))])}


@G("Texte", ["Lösche_Text_Bereich"], gen=g_tdelete_range,
   note="range taken as inclusive, like the language's 'im Bereich von a bis b' that the alias quotes")
def _(a):
    t, s, e = a["text"], a["start"], a["end"]
    return None, {"text": t[:s - 1] + t[e:]}


@G("Texte", ["Fülle_Text"], gen=lambda rng, T: {"text": rtext(rng), "elm": rchar(rng)})
def _(a):
    return None, {"text": a["elm"] * len(a["text"])}


@G("Texte", ["Buchstaben_Text_BuchstabenListe", "Buchstaben_TextRef_BuchstabenListe"], gen=lambda rng, T: {"text": rtext(rng, 0, 13)})
def _(a):
    return list(a["text"]), {}


@G("Texte", ["Buchstaben_Text_TextListe", "Buchstaben_TextRef_TextListe"], gen=lambda rng, T: {"text": rtext(rng, 0, 13)})
def _(a):
    return list(a["text"]), {}


def g_text_elm_b(rng, T):
    t = rtext(rng, 0, 8)
    return {"text": t, "elm": rng.choice(t) if t and rng.random() < 0.65 else rchar(rng)}


@G("Texte", ["Text_Index_Von_Buchstabe", "Text_Index_Von_Buchstabe_Ref"], gen=g_text_elm_b)
def _(a):
    return a["text"].find(a["elm"]) + 1 or -1, {}


@G("Texte", ["Text_Index_Von_Text"], gen=lambda rng, T: g_text_sub(rng, T, "elm"))
def _(a):
    i = a["text"].find(a["elm"])
    return (i + 1 if i >= 0 else -1), {}


@G("Texte", ["Ist_Text_Leer", "Ist_Text_Leer_Ref"], gen=lambda rng, T: {"text": rng.choice(["", "", " ", "a", "ä€", rtext(rng)])})
def _(a):
    return a["text"] == "", {}


def g_isnum(rng, T):
    """only texts whose answer is beyond doubt: [+-]?digits -> wahr; no leading digit or sign+digit -> falsch.
    'digits followed by other characters' is left out (the comment does not say whether a prefix counts)"""
    r = rng.random()
    digits = "".join(rng.choice("0123456789") for _ in range(rng.randint(1, 6)))
    if r < 0.45:
        return {"t": rng.choice(["", "+", "-"]) + digits}
    return {"t": rng.choice(["", "a", "ab", "+", "-", "+a", "-b", " ", "ä1", "a1", "€", "x" + digits, "+-1"])}


@G("Texte", ["Text_Ist_Zahl", "Text_Ist_Zahl_Ref"], gen=g_isnum)
def _(a):
    t = a["t"]
    body = t[1:] if t[:1] in ("+", "-") else t
    return body.isdigit() and body.isascii(), {}


CASE_ALPHA = list("abzAZmQäöüÄÖÜ19 €😀!")


def upper_de(c):
    return c.upper() if ("a" <= c <= "z" or c in "äöü") else c


def lower_de(c):
    return c.lower() if ("A" <= c <= "Z" or c in "ÄÖÜ") else c


def g_case(rng, T):
    return {"text": "".join(rng.choice(CASE_ALPHA) for _ in range(rng.randint(0, 8)))}


@G("Texte", ["Großschreiben_Wert"], gen=g_case, note="letters restricted to a-z, A-Z, äöüÄÖÜ (ß and other alphabets: documentation of Zeichen is open)")
def _(a):
    return "".join(map(upper_de, a["text"])), {}


@G("Texte", ["Großschreiben"], gen=g_case)
def _(a):
    return None, {"text": "".join(map(upper_de, a["text"]))}


@G("Texte", ["Kleinschreiben_Wert"], gen=g_case)
def _(a):
    return "".join(map(lower_de, a["text"])), {}


@G("Texte", ["Kleinschreiben"], gen=g_case)
def _(a):
    return None, {"text": "".join(map(lower_de, a["text"]))}


def g_pad(rng, T):
    t = rtext(rng, 0, 6)
    n = len(t)
    return {"text": t, "zeichen": rchar(rng), "endlänge": rng.choice([n, n + 1, n + 3, 8, 0, n - 1, 12, -1])}


@G("Texte", ["Polster_Links"], gen=g_pad)
def _(a):
    return a["text"].rjust(a["endlänge"], a["zeichen"]), {}


@G("Texte", ["Polster_Rechts"], gen=g_pad)
def _(a):
    return a["text"].ljust(a["endlänge"], a["zeichen"]), {}


def g_split_char(rng, T):
    """text not empty (str.split would give [''], the implementation documents nothing for it)"""
    z = rchar(rng)
    parts = [rtext(rng, 0, 2, ["a", "b", "ä", "😀"], [5, 4, 2, 1]) for _ in range(rng.randint(1, 5))]
    t = z.join(parts)
    if not t:
        t = rng.choice([z, "a", z + z])
    return {"text": t[:10], "zeichen": z if rng.random() < 0.9 else rchar(rng)}


@G("Texte", ["Spalte"], gen=g_split_char)
def _(a):
    return a["text"].split(a["zeichen"]), {}


def g_split_text(rng, T):
    sep = rtext_ab(rng, 1, 3)
    parts = [rtext(rng, 0, 2, ["a", "b", "ä"], [5, 4, 2]) for _ in range(rng.randint(1, 4))]
    t = sep.join(parts) or sep
    return {"text": t[:12], "trenntext": sep}


@G("Texte", ["Spalte_Text"], gen=g_split_text)
def _(a):
    return a["text"].split(a["trenntext"]), {}


def g_find_sub(rng, T):
    """only (text, subtext) whose occurrences do not overlap: the comment does not say whether overlapping
    occurrences are all reported"""
    for _ in range(20):
        d = g_text_sub(rng, T, "subtext")
        occ = occurrences(d["text"], d["subtext"])
        if all(occ[i + 1] - occ[i] >= len(d["subtext"]) for i in range(len(occ) - 1)):
            return d
    return None


@G("Texte", ["Finde_Subtext"], gen=g_find_sub)
def _(a):
    return [i + 1 for i in occurrences(a["text"], a["subtext"])], {}


def rsep(rng):
    return rng.choice(["-", ",", " ", "ä", "😀", "a"])


@G("Texte", ["Verbinden_Text"], gen=lambda rng, T: {"liste": rlist(rng, "T"), "trennzeichen": rsep(rng)})
def _(a):
    return a["trennzeichen"].join(a["liste"]), {}


@G("Texte", ["Verbinden_Zahl"], gen=lambda rng, T: {"liste": [rzahl(rng) for _ in range(rlen(rng))], "trennzeichen": rsep(rng)})
def _(a):
    return a["trennzeichen"].join(str(x) for x in a["liste"]), {}


def fmt_k_short(x):
    s = repr(x)
    if s.endswith(".0"):
        s = s[:-2]
    return s.replace(".", ",")


@G("Texte", ["Verbinden_Kommazahl"], gen=lambda rng, T: {"liste": [rng.choice([1.5, 23.0, -0.25, 0.5, 2.0, 100.0, -7.0, 0.125]) for _ in range(rlen(rng))], "trennzeichen": rsep(rng)},
   note="elements with a short exact decimal expansion only (documented example: 1,4 -> \"1,4\", 23,0 -> \"23\")")
def _(a):
    return a["trennzeichen"].join(fmt_k_short(x) for x in a["liste"]), {}


@G("Texte", ["Verbinden_Buchstabe"], gen=lambda rng, T: {"liste": rlist(rng, "B"), "trennzeichen": rsep(rng)})
def _(a):
    return a["trennzeichen"].join(a["liste"]), {}


@G("Texte", ["Verbinden_Wahrheitswert"], gen=lambda rng, T: {"liste": rlist(rng, "W"), "trennzeichen": rsep(rng)})
def _(a):
    return a["trennzeichen"].join("wahr" if x else "falsch" for x in a["liste"]), {}


def g_two_texts(rng, T, k1="t1", k2="t2"):
    t1 = rtext_ab(rng, 0, 8)
    r = rng.random()
    if r < 0.35:
        t2 = "".join(c if rng.random() < 0.6 else rchar(rng) for c in t1)
    elif r < 0.5:
        t2 = t1
    elif r < 0.65:
        t2 = t1 + rtext_ab(rng, 1, 2)
    elif r < 0.75:
        t2 = t1[:rng.randint(0, len(t1))]
    else:
        t2 = rtext_ab(rng, 0, 8)
    return {k1: t1, k2: t2}


@G("Texte", ["Hamming_Distanz"], gen=g_two_texts)
def _(a):
    if len(a["t1"]) != len(a["t2"]):
        return -1, {}
    return sum(1 for x, y in zip(a["t1"], a["t2"]) if x != y), {}


def levenshtein(s, t):
    prev = list(range(len(t) + 1))
    for i, cs in enumerate(s, 1):
        cur = [i]
        for j, ct in enumerate(t, 1):
            cur.append(min(prev[j] + 1, cur[j - 1] + 1, prev[j - 1] + (cs != ct)))
        prev = cur
    return prev[len(t)]


@G("Texte", ["Levenshtein_Distanz"], gen=g_two_texts)
def _(a):
    return levenshtein(a["t1"], a["t2"]), {}


@G("Texte", ["Vergleiche_Text"], gen=lambda rng, T: g_two_texts(rng, T, "text1", "text2"))
def _(a):
    s, t = a["text1"], a["text2"]
    if s == t:
        return 0, {}
    if t.startswith(s):
        return -1, {}
    if s.startswith(t):
        return 1, {}
    i = next(k for k in range(min(len(s), len(t))) if s[k] != t[k])
    if s[i] > t[i]:
        return Pred(">0", lambda f: f.isdigit() and int(f) > 0), {}
    return Pred("<0", lambda f: f.startswith("-") and f[1:].isdigit() and int(f) < 0), {}


SPLITSET_ALPHA = ["a", "b", "ä", " ", "-", "😀"]


def g_splitset(rng, T, as_text=False):
    """documented by example: inner runs of separators collapse. Texts here neither start nor end with a
    separator and are not empty; the separator set is not empty"""
    seps = rng.sample([" ", "-", "😀", "b"], rng.randint(1, 3))
    words = ["".join(rng.choice(["a", "ä", "x"]) for _ in range(rng.randint(1, 3))) for _ in range(rng.randint(1, 4))]
    t = words[0]
    for w in words[1:]:
        t += "".join(rng.choice(seps) for _ in range(rng.randint(1, 3))) + w
    return {"text": t, "spaltmenge": "".join(seps) if as_text else seps}


def split_set(t, seps):
    out, cur = [], ""
    for c in t:
        if c in seps:
            if cur:
                out.append(cur)
            cur = ""
        else:
            cur += c
    if cur:
        out.append(cur)
    return out


@G("Texte", ["Spalten_Spaltmenge_Text", "Spalten_Spaltmenge_Text_Ref", "Spalten_Spaltmenge_Text_RefMenge"], gen=g_splitset)
def _(a):
    return split_set(a["text"], a["spaltmenge"]), {}


@G("Texte", ["Spalten_SpaltmengeText_Text"], gen=lambda rng, T: g_splitset(rng, T, True))
def _(a):
    return split_set(a["text"], a["spaltmenge"]), {}


WORD_ALPHA = ["a", "b", "ä", "!", " ", "\n", "\t", "\r"]


def g_words(rng, T):
    return {"text": "".join(rng.choices(WORD_ALPHA, [4, 3, 1, 1, 4, 1, 1, 1], k=rng.randint(0, 10)))}


@G("Texte", ["Text_Worte", "Text_Worte_Ref"], gen=g_words)
def _(a):
    return split_set(a["text"], " \n\t\r"), {}


@G("Texte", ["Text_Zu_ByteListe_Wert", "Text_Zu_ByteListe"], gen=lambda rng, T: {"t": rtext(rng)}, doc="alias only",
   note="no doc comment; 'die Bytes von <t>' taken as the UTF-8 encoding (the language defines Text as UTF-8)")
def _(a):
    return list(a["t"].encode("utf-8")), {}


@G("Texte", ["ByteListe_Zu_Text_Wert", "ByteListe_Zu_Text"], gen=lambda rng, T: {"b": list(rtext(rng).encode("utf-8"))}, doc="alias only",
   note="no doc comment; only valid UTF-8 byte sequences without NUL")
def _(a):
    return bytes(a["b"]).decode("utf-8"), {}


# ================================================================== Zeichen

def const_group(module, name, value, **kw):
    Group(module, [name], (lambda v: (lambda a: (v, {})))(value), lambda rng, T: {}, **kw)


for _n, _v in [("Leerzeichen", " "), ("Neue_Zeile", "\n"), ("Wagenrücklauf", "\r"), ("Tabulator", "\t"), ("Rückstrich", "\\"),
               ("Anführungszeichen", '"'), ("Apostroph", "'")]:
    const_group("Zeichen", _n, _v, doc="name only", weight=0.15)

LATIN1_UPPER = [chr(c) for c in range(192, 223) if c != 215]
LATIN1_LOWER = [chr(c) for c in range(223, 256) if c != 247]
CLASS_POOL = (list("azAZmM09 !@[`{~_") + ["\n", "\t", "\r", "\x01", "\x1f", "\x7f", "ä", "ö", "ü", "Ä", "Ö", "Ü", "ß", "€", "😀", "×", "÷", "é", "É", "þ", "Þ", "ÿ", "À"])


def g_class(rng, T):
    return {"b": rng.choice(CLASS_POOL)}


def e_class():
    return [{"b": c} for c in CLASS_POOL]


def is_upper_doc(c):
    return "A" <= c <= "Z" or c in LATIN1_UPPER


def is_lower_doc(c):
    return "a" <= c <= "z" or c in LATIN1_LOWER


def is_latin(c):
    return "a" <= c <= "z" or "A" <= c <= "Z"


def is_german(c):
    return is_latin(c) or c in "äöüÄÖÜß"


@G("Zeichen", ["Ist_Leer"], gen=g_class, enum=e_class)
def _(a):
    return a["b"] in " \n\t\r", {}


@G("Zeichen", ["Ist_Groß"], gen=g_class, enum=e_class, note="code points up to 255 plus symbols (€, emoji); capital letters beyond Latin-1 are left out ('es gibt noch viel mehr')")
def _(a):
    return is_upper_doc(a["b"]), {}


@G("Zeichen", ["Ist_Klein"], gen=g_class, enum=e_class)
def _(a):
    return is_lower_doc(a["b"]), {}


@G("Zeichen", ["Ist_Leerzeichen"], gen=g_class, enum=e_class)
def _(a):
    return a["b"] == " ", {}


@G("Zeichen", ["Buchstabe_Ist_Ziffer"], gen=g_class, enum=e_class)
def _(a):
    return "0" <= a["b"] <= "9", {}


@G("Zeichen", ["Ist_Kontroll"], gen=g_class, enum=e_class)
def _(a):
    return ord(a["b"]) <= 31, {}


@G("Zeichen", ["Ist_Lateinischer_Buchstabe"], gen=g_class, enum=e_class)
def _(a):
    return is_latin(a["b"]), {}


@G("Zeichen", ["Ist_Lateinischer_Buchstabe_Oder_Zahl"], gen=g_class, enum=e_class)
def _(a):
    return is_latin(a["b"]) or "0" <= a["b"] <= "9", {}


@G("Zeichen", ["Ist_Deutscher_Buchstabe"], gen=g_class, enum=e_class)
def _(a):
    return is_german(a["b"]), {}


@G("Zeichen", ["Ist_Deutscher_Buchstabe_Oder_Zahl"], gen=g_class, enum=e_class)
def _(a):
    return is_german(a["b"]) or "0" <= a["b"] <= "9", {}


def g_class_noß(rng, T):
    while True:
        d = g_class(rng, T)
        if d["b"] != "ß":
            return d


@G("Zeichen", ["Großgeschrieben"], gen=g_class_noß, enum=lambda: [d for d in e_class() if d["b"] != "ß"], note="ß left out (its capital form is not settled by the comment)")
def _(a):
    return upper_de(a["b"]), {}


@G("Zeichen", ["Kleingeschrieben"], gen=g_class, enum=e_class)
def _(a):
    return lower_de(a["b"]), {}


@G("Zeichen", ["ASCII_Zeichen"], gen=lambda rng, T: {"id": rng.choice([1, 9, 10, 32, 48, 65, 90, 97, 122, 126, 127, rng.randint(1, 127)])})
def _(a):
    return chr(a["id"]), {}


def g_two_chars(rng, T):
    z1 = rng.choice(CLASS_POOL)
    return {"z1": z1, "z2": z1 if rng.random() < 0.2 else rng.choice(CLASS_POOL)}


@G("Zeichen", ["ASCII_Größer"], gen=g_two_chars)
def _(a):
    return ord(a["z1"]) > ord(a["z2"]), {}


@G("Zeichen", ["ASCII_Kleiner"], gen=g_two_chars)
def _(a):
    return ord(a["z1"]) < ord(a["z2"]), {}


# ================================================================== Zahlen

const_group("Zahlen", "MaxZahl", 2 ** 63 - 1, weight=0.15)
const_group("Zahlen", "MinKommazahl", -(2 - 2.0 ** -31) * 2.0 ** 1023, weight=0.15)
const_group("Zahlen", "MaxKommazahl", (2 - 2.0 ** -31) * 2.0 ** 1023, weight=0.15)
const_group("Zahlen", "EpsilonPos", 2.0 ** -1022, weight=0.15)
const_group("Zahlen", "EpsilonNeg", -(2.0 ** -1022), weight=0.15)
const_group("Zahlen", "Unendlich", float("inf"), weight=0.15)
const_group("Zahlen", "Minus_Unendlich", float("-inf"), weight=0.15)
const_group("Zahlen", "KeineZahl", float("nan"), weight=0.15)
const_group("Zahlen", "Zahl_Eins", 1, doc="name only", weight=0.15)

EXCLUDED_FUNCTIONS = {
    "Zahlen.MinZahl": "comment says -9223372036854775807, the alias says 'der minimale Wert einer Zahl' (-9223372036854775808): contradictory, not judged",
}


def g_small_n(rng, T, key="n"):
    return {key: rng.choice([0, 1, 2, 3, 5, 7, 12, -1, -4, 100, 1000, 123456, -99999])}


@G("Zahlen", ["Zahl_Million"], gen=g_small_n, note="comment says 'Gibt 1000000 zurück'; alias '<n> Million' taken as n*1000000 (for n=1 both agree)")
def _(a):
    return a["n"] * 1000000, {}


for _n, _d in [("Halbe", 2), ("Drittel", 3), ("Viertel", 4), ("Fünftel", 5), ("Sechstel", 6), ("Siebtel", 7), ("Achtel", 8),
               ("Neuntel", 9), ("Zehntel", 10), ("Elftel", 11), ("Zwölftel", 12)]:
    Group("Zahlen", ["Zahl_Bruch_" + _n], (lambda d: (lambda a: (a["n"] / d, {})))(_d), g_small_n, weight=0.4)


@G("Zahlen", ["Zahl_Duzent"], gen=lambda rng, T: g_small_n(rng, T, "z"))
def _(a):
    return a["z"] * 12, {}


def g_hex(rng, T):
    n = rng.choice([0, 1, 9, 10, 15, 16, 255, 256, 4095, 0xabcdef, 0x7fffffff, 2 ** 40 + 11, 0xDEADBEEF, rng.randrange(0, 2 ** 52)])
    s = format(n, "x")
    r = rng.random()
    return {"hex": s.upper() if r < 0.4 else s if r < 0.8 else "".join(c.upper() if rng.random() < 0.5 else c for c in s)}


@G("Zahlen", ["Hex_Zu_Zahl"], gen=g_hex, doc="alias only",
   note="no doc comment; 'die Hexadezimalzahl <hex>' for 1..13 hex digits without prefix (value below 2^53)")
def _(a):
    return int(a["hex"], 16), {}


@G("Zahlen", ["Zahl_Zu_Hex"], gen=lambda rng, T: {"zahl": rng.choice([0, 1, 9, 10, 15, 16, 255, 256, 4096, 0xabcdef, 2 ** 31, 2 ** 62 + 5, rng.randrange(0, 2 ** 63)])},
   doc="alias only", note="no doc comment; non-negative numbers, digits compared without regard to letter case")
def _(a):
    want = format(a["zahl"], "x")
    return Pred("hex digits of %d in either case" % a["zahl"], lambda f, want=want: _unquote_text(f).lower() == want), {}


def _unquote_text(field):
    """printed Text field  <len>"raw"  -> raw"""
    i = field.find('"')
    return field[i + 1:-1] if i >= 0 and field.endswith('"') else field


# ================================================================== Mathe

def g_ints(keys, pool=None):
    def g(rng, T):
        base = rng.choice([0, 5, -5, 100, 2 ** 40])
        return {k: base + rng.choice([0, 0, 1, -1, 2, -3, 7]) for k in keys}
    return g


def g_floats(keys):
    def g(rng, T):
        base = rng.choice([0.0, 1.5, -2.5, 100.0])
        return {k: base + rng.choice([0.0, 0.0, 0.5, -0.5, 1.0, -0.25, 3.0]) for k in keys}
    return g


@G("Mathe", ["Max"], gen=g_ints("ab"))
def _(a):
    return max(a["a"], a["b"]), {}


@G("Mathe", ["Max3"], gen=g_ints("abc"))
def _(a):
    return max(a["a"], a["b"], a["c"]), {}


@G("Mathe", ["Min"], gen=g_ints("ab"))
def _(a):
    return min(a["a"], a["b"]), {}


@G("Mathe", ["Min3"], gen=g_ints("abc"))
def _(a):
    return min(a["a"], a["b"], a["c"]), {}


def g_clamp(kind):
    def g(rng, T):
        d = (g_ints if kind == "Z" else g_floats)(["wert", "x", "y"])(rng, T)
        lo, hi = sorted([d["x"], d["y"]])
        return {"wert": d["wert"], "max": hi, "min": lo}          # min <= max only
    return g


@G("Mathe", ["Clamp"], gen=g_clamp("Z"))
def _(a):
    return min(max(a["wert"], a["min"]), a["max"]), {}


@G("Mathe", ["Max_Kommazahl"], gen=g_floats("ab"))
def _(a):
    return max(a["a"], a["b"]), {}


@G("Mathe", ["Max3_Kommazahl"], gen=g_floats("abc"))
def _(a):
    return max(a["a"], a["b"], a["c"]), {}


@G("Mathe", ["Min_Kommazahl"], gen=g_floats("ab"))
def _(a):
    return min(a["a"], a["b"]), {}


@G("Mathe", ["Min3_Kommazahl"], gen=g_floats("abc"))
def _(a):
    return min(a["a"], a["b"], a["c"]), {}


@G("Mathe", ["Clamp_Kommazahl"], gen=g_clamp("K"))
def _(a):
    return min(max(a["wert"], a["min"]), a["max"]), {}


@G("Mathe", ["Sign"], gen=lambda rng, T: {"wert": rng.choice([0, 1, -1, 5, -5, 2 ** 62, -2 ** 62])})
def _(a):
    return (a["wert"] > 0) - (a["wert"] < 0), {}


@G("Mathe", ["Sign_Kommazahl"], gen=lambda rng, T: {"wert": rng.choice([0.0, 0.5, -0.5, 1.0, -1.0, 1e9, -1e9, 0.25])})
def _(a):
    return (a["wert"] > 0) - (a["wert"] < 0), {}


ROUND_POOL = [0.0, 1.0, -1.0, 2.0, 0.5, -0.5, 1.5, -1.5, 2.25, -2.25, 2.75, -2.75, 7.0, -7.0, 0.25, -0.25, 1000000.5, -1000000.5, 3.0, 99.75]


def g_round(rng, T):
    return {"wert": rng.choice(ROUND_POOL)}


def e_round():
    return [{"wert": x} for x in ROUND_POOL]


@G("Mathe", ["Floor"], gen=g_round, enum=e_round)
def _(a):
    return float(math.floor(a["wert"])), {}


@G("Mathe", ["Ceil"], gen=g_round, enum=e_round)
def _(a):
    return float(math.ceil(a["wert"])), {}


@G("Mathe", ["Trunc"], gen=g_round, enum=e_round)
def _(a):
    return float(math.trunc(a["wert"])), {}


def g_runden(rng, T):
    """n >= 0 (documented); the first dropped decimal digit is never 4, 5 (no ties, nothing near a tie)"""
    import decimal
    for _ in range(50):
        digits = rng.randint(1, 5)
        n = rng.randint(0, digits)
        s = "%d.%s" % (rng.choice([0, 1, 2, 12, 345]), "".join(rng.choice("0123456789") for _ in range(digits)))
        if n < digits and s.split(".")[1][n] in "45":
            continue
        x = float(s) * rng.choice([1, -1])
        if round(abs(x), n) == 0 and x < 0:
            continue                       # result would be -0
        return {"wert": x, "n": n}
    return None


@G("Mathe", ["Runden"], gen=g_runden)
def _(a):
    import decimal
    d = decimal.Decimal(a["wert"])                       # exact value of the double
    q = d.quantize(decimal.Decimal(1).scaleb(-a["n"]), rounding=decimal.ROUND_HALF_EVEN)
    r = float(q)
    return (0.0 if r == 0 else r), {}


def exact_point(module, name, args, value, **kw):
    Group(module, [name], (lambda v: (lambda a: (v, {})))(value), (lambda d: (lambda rng, T: dict(d)))(args), weight=0.15,
          note="only the argument with an exact result", **kw)


for _n, _x, _v in [("Sinus", 0.0, 0.0), ("Kosinus", 0.0, 1.0), ("Tangens", 0.0, 0.0), ("Arkussinus", 0.0, 0.0), ("Arkuskosinus", 1.0, 0.0),
                   ("Arkustangens", 0.0, 0.0), ("Hyperbelsinus", 0.0, 0.0), ("Hyperbelkosinus", 0.0, 1.0), ("Hyperbeltangens", 0.0, 0.0),
                   ("Areahyperbelsinus", 0.0, 0.0), ("Areahyperbelkosinus", 1.0, 0.0), ("Areahyperbeltangens", 0.0, 0.0),
                   ("Versinus", 0.0, 0.0), ("Koversinus", 0.0, 1.0), ("Sekans", 0.0, 1.0)]:
    exact_point("Mathe", _n, {"v": _x}, _v)
exact_point("Mathe", "Winkel", {"x": 1.0, "y": 0.0}, 0.0)
exact_point("Mathe", "Natürlicher_Logarithmus", {"x": 1.0}, 0.0)
exact_point("Mathe", "Gausssche_Fehlerfunktion", {"x": 0.0}, 0.0)

PI = 3.141592653589793


@G("Mathe", ["Bogenmaß_Zu_Grad"], gen=lambda rng, T: {"w": rng.choice([0.0, 1.0, -1.0, 0.5, 2.0, PI, PI / 2, 6.25])},
   note="documented formula r = w * 180 / PI evaluated in IEEE double in that order")
def _(a):
    return a["w"] * 180 / PI, {}


@G("Mathe", ["Grad_Zu_Bogenmaß"], gen=lambda rng, T: {"w": rng.choice([0.0, 180.0, 90.0, -45.0, 360.0, 1.0, 57.5])},
   note="documented formula r = w / 180 * PI evaluated in IEEE double in that order")
def _(a):
    return a["w"] / 180 * PI, {}


@G("Mathe", ["Grad_Zu_Bogenmaß_Zahl"], gen=lambda rng, T: {"w": rng.choice([0, 180, 90, -45, 360, 1, 30])})
def _(a):
    return a["w"] / 180 * PI, {}


def g_gcd(rng, T):
    """non-negative arguments, not both 0 (the comment says nothing about negative numbers)"""
    while True:
        k = rng.choice([1, 1, 2, 3, 6, 12])
        a, b = k * rng.choice([0, 1, 2, 3, 5, 7, 12, 100]), k * rng.choice([0, 1, 2, 3, 4, 9, 35, 64])
        if a or b:
            return {"a": a, "b": b}


@G("Mathe", ["Größter_Gemeinsamer_Teiler"], gen=g_gcd)
def _(a):
    return math.gcd(a["a"], a["b"]), {}


def g_lcm(rng, T):
    d = g_gcd(rng, T)
    return {"a": max(1, d["a"]), "b": max(1, d["b"])}


@G("Mathe", ["Kleinster_Gemeinsamer_Teiler"], gen=g_lcm,
   note="comment says 'kleinsten gemeinsamen Teiler', alias 'das kleinste gemeinsame Vielfache': alias taken (lcm), positive arguments")
def _(a):
    return a["a"] * a["b"] // math.gcd(a["a"], a["b"]), {}


@G("Mathe", ["Ist_Teilbar"], gen=lambda rng, T: {"dividend": rng.choice([0, 1, 6, 7, 12, -12, 100, 2 ** 40]), "divisor": rng.choice([1, 2, 3, 4, 7, -3, 12, 1024])})
def _(a):
    return a["dividend"] % a["divisor"] == 0, {}


def prime_factors(z):
    out, p = [], 2
    while p * p <= z:
        while z % p == 0:
            out.append(p)
            z //= p
        p += 1
    if z > 1:
        out.append(z)
    return out


@G("Mathe", ["Primfaktorzerlegung"], gen=lambda rng, T: {"z": rng.choice([2, 3, 4, 6, 8, 9, 12, 25, 49, 97, 100, 210, 1024, 9973, 2 * 3 * 5 * 7 * 11 * 13, 1000003, 2 ** 20 * 3])},
   note="z >= 2, factors compared as a multiset (order not documented)")
def _(a):
    return Unordered(prime_factors(a["z"])), {}


@G("Mathe", ["Teilerzerlegung"], gen=lambda rng, T: {"z": rng.choice([1, 2, 3, 4, 6, 12, 16, 17, 36, 100, 97, 360])},
   note="z >= 1, divisors compared as a set (order not documented)")
def _(a):
    return Unordered([d for d in range(1, a["z"] + 1) if a["z"] % d == 0]), {}


SQ_POOL = [0.0, 1.0, -1.0, 1.5, -2.5, 0.25, 12.0, 1024.0, -0.125, 3.0]


@G("Mathe", ["Quadriere"], gen=lambda rng, T: {"x": rng.choice(SQ_POOL)})
def _(a):
    return None, {"x": a["x"] * a["x"]}


@G("Mathe", ["Quadriere_Wert"], gen=lambda rng, T: {"x": rng.choice(SQ_POOL)})
def _(a):
    return a["x"] * a["x"], {}


@G("Mathe", ["Ganze_Zahl"], gen=lambda rng, T: {"x": rng.choice(ROUND_POOL)})
def _(a):
    return a["x"] == math.trunc(a["x"]), {}


@G("Mathe", ["Gerade_Zahl"], gen=lambda rng, T: {"x": rng.choice([0, 1, 2, 3, -1, -2, 7, 100, 2 ** 40, 2 ** 40 + 1, -99])})
def _(a):
    return a["x"] % 2 == 0, {}


@G("Mathe", ["Gerade_Kommazahl"], gen=lambda rng, T: {"x": rng.choice([0.0, 1.0, 2.0, 3.0, -1.0, -2.0, 100.0, 7.0, 2.5, 3.5, -2.25])},
   note="documented as ((int)x mod 2 = 0)")
def _(a):
    return math.trunc(a["x"]) % 2 == 0, {}


@G("Mathe", ["Fakultät"], gen=lambda rng, T: {"x": rng.choice([0, 1, 2, 3, 5, 10, 12, 13, 19, 20, rng.randint(0, 20)])}, note="0 <= x <= 20 (x! fits 64 bit)")
def _(a):
    return math.factorial(a["x"]), {}


# ================================================================== Statistik

def rk_list(rng, n=None, minlen=1, pool=None):
    if n is None:
        n = rlen(rng, minlen)
    pool = pool or [0.0, 0.5, 1.0, 1.5, 2.0, 2.5, 3.0, -0.5, -1.0, -2.5, 4.0, 7.5, 10.0]
    return [rng.choice(pool) for _ in range(n)]


@G("Statistik", ["Höchste_ListeZ"], gen=lambda rng, T: {"liste": rnum_list(rng, "Z", rlen(rng, 1))}, note="non-empty lists")
def _(a):
    return max(a["liste"]), {}


@G("Statistik", ["Höchste_ListeK"], gen=lambda rng, T: {"liste": rk_list(rng)})
def _(a):
    return max(a["liste"]), {}


@G("Statistik", ["Kleinste_ListeZ"], gen=lambda rng, T: {"liste": rnum_list(rng, "Z", rlen(rng, 1))})
def _(a):
    return min(a["liste"]), {}


@G("Statistik", ["Kleinste_ListeK"], gen=lambda rng, T: {"liste": rk_list(rng)})
def _(a):
    return min(a["liste"]), {}


def g_frac_list(rng, T):
    """list length a power of two (relative frequencies k/n exactly representable); thresholds between the pool values"""
    n = rng.choice([1, 2, 4, 8])
    return {"x": rng.choice([0.25, 0.75, 1.25, 1.0, 2.0, -0.75, 3.5]), "liste": rk_list(rng, n)}


@G("Statistik", ["Mindestens_Liste"], gen=g_frac_list, note="relative frequency in [0,1] as the comment says (the alias speaks of Prozent)")
def _(a):
    return sum(1 for z in a["liste"] if z >= a["x"]) / len(a["liste"]), {}


@G("Statistik", ["Höchstens_Liste"], gen=g_frac_list)
def _(a):
    return sum(1 for z in a["liste"] if z <= a["x"]) / len(a["liste"]), {}


def g_between(rng, T):
    """bounds never equal to a list value ('zwischen' inclusive or not is not documented); x < y"""
    n = rng.choice([1, 2, 4, 8])
    x, y = sorted(rng.sample([0.25, 0.75, 1.25, 2.25, -0.75, 3.75, 8.25], 2))
    return {"x": x, "y": y, "liste": rk_list(rng, n)}


@G("Statistik", ["Zwischen_Liste"], gen=g_between)
def _(a):
    return sum(1 for z in a["liste"] if a["x"] < z < a["y"]) / len(a["liste"]), {}


def g_freq(rng, T, pow2=False):
    n = rng.choice([1, 2, 4, 8]) if pow2 else rlen(rng, 1)
    l = rk_list(rng, n, pool=[0.5, 1.0, 1.5, -2.5])
    return {"liste": l, "x": rng.choice(l) if rng.random() < 0.7 else 9.0}


@G("Statistik", ["Absolute_Häufigkeit"], gen=g_freq)
def _(a):
    return a["liste"].count(a["x"]), {}


@G("Statistik", ["Relative_Häufigkeit"], gen=lambda rng, T: g_freq(rng, T, True))
def _(a):
    return a["liste"].count(a["x"]) / len(a["liste"]), {}


@G("Statistik", ["Summe"], gen=lambda rng, T: {"liste": rk_list(rng, minlen=0)})
def _(a):
    return float(sum(Fraction(x) for x in a["liste"])), {}


@G("Statistik", ["Mittelwert"], gen=lambda rng, T: {"liste": rk_list(rng)}, note="exact sum divided once (IEEE)")
def _(a):
    return float(sum(Fraction(x) for x in a["liste"])) / len(a["liste"]), {}


@G("Statistik", ["Median"], gen=lambda rng, T: {"liste": sorted(rk_list(rng))}, note="sorted non-empty lists (documented precondition)")
def _(a):
    l = a["liste"]
    n = len(l)
    return (l[n // 2] if n % 2 else (l[n // 2 - 1] + l[n // 2]) / 2), {}


@G("Statistik", ["Modalwert"], gen=lambda rng, T: {"liste": rk_list(rng, minlen=0, pool=[0.5, 1.0, 1.5, -2.5])}, note="order of the result not documented: compared as a set")
def _(a):
    l = a["liste"]
    if not l:
        return [], {}
    m = max(l.count(x) for x in l)
    return Unordered(sorted({x for x in l if l.count(x) == m})), {}


def quantile(l, p):
    """textbook definition the comment refers to: np integer -> mean of x[np], x[np+1]; else x[ceil(np)] (1-based)"""
    np_ = Fraction(len(l)) * Fraction(p)
    if np_.denominator == 1:
        k = int(np_)
        return (l[k - 1] + l[k]) / 2
    return l[math.ceil(np_) - 1]


def g_quantile(rng, T):
    """sorted list; 0 < p < 1 dyadic so that n*p is exact (then 1 <= np <= n-1 when integral, 1 <= ceil(np) <= n otherwise)"""
    l = sorted(rk_list(rng, minlen=2))
    return {"liste": l, "p": rng.choice([0.25, 0.5, 0.75, 0.125, 0.375])}


@G("Statistik", ["Quantil"], gen=g_quantile)
def _(a):
    return quantile(a["liste"], a["p"]), {}


def variance_exact(l):
    n = len(l)
    m = sum(Fraction(x) for x in l) / n
    return m, sum((Fraction(x) - m) ** 2 for x in l)


def g_var(rng, T):
    """n >= 2, mean exactly representable with few bits: every intermediate value of the documented computation is exact,
    only the final division rounds (once, IEEE)"""
    for _ in range(40):
        l = rk_list(rng, rng.choice([2, 3, 4, 5, 8, 9]), pool=[0.0, 1.0, 2.0, 3.0, 4.0, 5.0, 0.5, 1.5, -1.0, -2.0, 6.0, 8.0])
        m, ss = variance_exact(l)
        if slim(m, 20) and slim(ss, 40):
            return {"liste": l}
    return None


def parse_k(field):
    return float(field.replace(",", "."))


def close_to(x, rel=1e-12):
    return lambda f: abs(parse_k(f) - x) <= rel * max(1.0, abs(x))


@G("Statistik", ["Varianz"], gen=g_var, note="the comment does not say whether the divisor is n or n-1: both accepted (n-1 exactly, n within 1e-12); n >= 2")
def _(a):
    m, ss = variance_exact(a["liste"])
    n = len(a["liste"])
    v1, v0 = float(ss) / (n - 1), float(ss) / n
    return Pred("%r (divisor n-1) or %r (divisor n)" % (v1, v0), lambda f: f == _fmt_k(v1) or close_to(v0)(f)), {}


def _fmt_k(x):
    s = ("%.16g" % x).replace(".", ",")
    return "0" if s == "-0" else s


def is_square(fr):
    if fr < 0:
        return None
    n, d = fr.numerator, fr.denominator
    rn, rd = math.isqrt(n), math.isqrt(d)
    if rn * rn == n and rd * rd == d:
        return Fraction(rn, rd)
    return None


def g_sd(rng, T):
    for _ in range(300):
        d = g_var(rng, T)
        if d is None:
            continue
        m, ss = variance_exact(d["liste"])
        v = ss / (len(d["liste"]) - 1)
        r = is_square(v)
        if r is not None and slim(v, 30):
            return d
    return None


@G("Statistik", ["Standardabweichung"], gen=g_sd, note="only lists whose (n-1)-variance is an exactly representable perfect square; the root of the n-variance is accepted within 1e-12")
def _(a):
    m, ss = variance_exact(a["liste"])
    n = len(a["liste"])
    s1 = float(is_square(ss / (n - 1)))
    s0 = math.sqrt(float(ss) / n)
    return Pred("%r (divisor n-1) or about %r (divisor n)" % (s1, s0), lambda f: f == _fmt_k(s1) or close_to(s0)(f)), {}


@G("Statistik", ["Spannweite"], gen=lambda rng, T: {"liste": rk_list(rng)})
def _(a):
    return max(a["liste"]) - min(a["liste"]), {}


def g_iqr(rng, T):
    return {"liste": sorted(rk_list(rng, minlen=1))}


@G("Statistik", ["Interquartilabstand"], gen=g_iqr, note="sorted non-empty lists")
def _(a):
    return quantile(a["liste"], 0.75) - quantile(a["liste"], 0.25), {}


def cov_exact(l1, l2):
    n = len(l1)
    m1 = sum(Fraction(x) for x in l1) / n
    m2 = sum(Fraction(x) for x in l2) / n
    return m1, m2, sum((Fraction(x) - m1) * (Fraction(y) - m2) for x, y in zip(l1, l2))


def g_cov(rng, T):
    for _ in range(60):
        n = rng.choice([2, 3, 4, 5, 8, 9])
        pool = [0.0, 1.0, 2.0, 3.0, 4.0, 5.0, 0.5, 1.5, -1.0, -2.0, 6.0, 8.0]
        l1, l2 = rk_list(rng, n, pool=pool), rk_list(rng, n, pool=pool)
        m1, m2, s = cov_exact(l1, l2)
        if slim(m1, 20) and slim(m2, 20) and slim(s, 40):
            return {"liste1": l1, "liste2": l2}
    return None


@G("Statistik", ["Kovarianz"], gen=g_cov, note="lists of equal length n >= 2")
def _(a):
    m1, m2, s = cov_exact(a["liste1"], a["liste2"])
    return float(s) / (len(a["liste1"]) - 1), {}


def g_corr(rng, T):
    """perfectly (anti-)correlated lists with exact standard deviations: the coefficient is exactly 1 or -1"""
    for _ in range(300):
        d = g_sd(rng, T)
        if d is None:
            continue
        l1 = d["liste"]
        if len(set(l1)) < 2:
            continue                       # variance 0: coefficient undefined
        k = rng.choice([1.0, 2.0, -1.0, 0.5, -2.0])
        c = rng.choice([0.0, 1.0, -3.0])
        l2 = [k * x + c for x in l1]
        return {"liste1": l1, "liste2": l2}
    return None


@G("Statistik", ["Korrelationskoeffizient"], gen=g_corr, note="only linearly dependent lists with exact standard deviations (result exactly 1 or -1)")
def _(a):
    l1, l2 = a["liste1"], a["liste2"]
    i = next(i for i in range(len(l1)) if l1[i] != l1[0])
    return (1.0 if (l2[i] - l2[0]) * (l1[i] - l1[0]) > 0 else -1.0), {}


@G("Statistik", ["Bestimmtheitsmaß"], gen=g_corr)
def _(a):
    return 1.0, {}


# ------------------------------------------------------------------ constants (Konstante declarations)

CONSTANTS = {
    "Zahlen": {"Null": 0, "null": 0, "Zwei": 2, "zwei": 2, "zweite": 2, "zweiten": 2, "Drei": 3, "drei": 3, "dritte": 3, "dritten": 3,
               "Vier": 4, "vier": 4, "vierte": 4, "vierten": 4, "Fünf": 5, "fünf": 5, "fünfte": 5, "fünften": 5, "Sechs": 6, "sechs": 6,
               "sechste": 6, "sechsten": 6, "Sieben": 7, "sieben": 7, "siebte": 7, "siebten": 7, "Acht": 8, "acht": 8, "achte": 8,
               "achten": 8, "Neun": 9, "neun": 9, "neunte": 9, "neunten": 9, "Zehn": 10, "zehn": 10, "zehnte": 10, "zehnten": 10,
               "Elf": 11, "elf": 11, "elfte": 11, "elften": 11, "Zwölf": 12, "zwölf": 12, "zwölfte": 12, "zwölften": 12,
               "Einhundert": 100, "Hundert": 100, "hundert": 100, "Eintausend": 1000, "Tausend": 1000, "tausend": 1000,
               "Zehntausend": 10000, "zehntausend": 10000, "Einhunderttausend": 100000, "einhunderttausend": 100000, "Million": 1000000,
               "einhalb": 0.5, "halb": 0.5, "anderthalb": 1.5, "eineinhalb": 1.5},
    "Mathe": {"PI": 3.141592653589793, "E": 2.718281828459045, "TAU": 6.283185307179586, "PHI": 1.618033988749895},
}
