"""C15 helper: a small typed description language for programs with generic functions and
generic Kombinationen, and a printer that renders ONE description in two ways:

  G  - the generic functions as written (type parameters T, R ...)
  M  - every generic function replaced by one textual specialisation per instantiation
       (type parameters replaced by the concrete types, German articles / plural list
       names adjusted, distinct function names, aliases either overloaded by exact type
       or renamed); optionally also every generic Kombination replaced by monomorphic ones.

Types are tuples:  ('p',name) primitive | ('l',elem) list | ('s',name) Kombination |
('g',name,(args..)) instantiated generic Kombination | ('v',name) type parameter |
('d',name,base) type definition ("Wir definieren einen Meter als eine Zahl": a NEW type; values are made by converting
a value of the base type, `(5 als Meter)`, and printed by converting back) |
('a',name,target) type alias ("Wir nennen eine Zahl auch eine Nummer": the SAME type under another name).
Aliases are transparent for the model: `canon` removes them, unification binds type parameters to canonical types, so an
instantiation with an alias IS the instantiation with its target (one specialisation in M, one overload of `zeige`); only
the places that spell a declared type (variable declarations, casts) keep the alias name.
"""

# ------------------------------------------------------------------ types

def P(n):
    return ('p', n)


def L(t):
    return ('l', t)


def S(n):
    return ('s', n)


def GI(n, *args):
    return ('g', n, tuple(args))


def V(n):
    return ('v', n)


def D(n, base, gender='m'):
    NAMED[n] = gender
    return ('d', n, base)


def A(n, target, gender='f'):
    NAMED[n] = gender
    return ('a', n, target)


NAMED = {}      # name of a type definition / type alias -> grammatical gender (names are unique per program)


ZAHL, KOMMA, BYTE, BOOL, CHAR, TEXT = P('Zahl'), P('Kommazahl'), P('Byte'), P('Wahrheitswert'), P('Buchstabe'), P('Text')

PRIM = {
    'Zahl': dict(g='f', plural='Zahlen', ref='Zahlen'),
    'Kommazahl': dict(g='f', plural='Kommazahlen', ref='Kommazahlen'),
    'Byte': dict(g='m', plural='Byte', ref='Byte'),
    'Wahrheitswert': dict(g='m', plural='Wahrheitswert', ref='Wahrheitswert'),
    'Buchstabe': dict(g='m', plural='Buchstaben', ref='Buchstaben'),
    'Text': dict(g='m', plural='Text', ref='Text'),
}

ART_NOM = {'m': 'Der', 'f': 'Die', 'n': 'Das'}
ART_DAT = {'m': 'dem', 'f': 'der', 'n': 'dem'}
ADJ_PUB_DAT = 'öffentlichen'
ART_ACC_INDEF = {'m': 'einen', 'f': 'eine', 'n': 'ein'}
ART_DAT_INDEF = {'m': 'einem', 'f': 'einer', 'n': 'einem'}
PRON_EACH = {'m': 'jeden', 'f': 'jede', 'n': 'jedes'}


def canon(t):
    """the type without type aliases (what the compiler's ddptypes.Equal compares)"""
    k = t[0]
    if k == 'a':
        return canon(t[2])
    if k == 'l':
        return ('l', canon(t[1]))
    if k == 'g':
        return ('g', t[1], tuple(canon(a) for a in t[2]))
    return t


def named_in(t, acc=None):
    """the type definitions and type aliases mentioned in t (aliases are not looked through)"""
    acc = [] if acc is None else acc
    k = t[0]
    if k in ('d', 'a'):
        if t not in acc:
            acc.append(t)
    elif k == 'l':
        named_in(t[1], acc)
    elif k == 'g':
        for a in t[2]:
            named_in(a, acc)
    return acc


def defs_in(t):
    """type definitions mentioned in t, looking through aliases (alias of a definition)"""
    out = []
    for n in named_in(t):
        x = n
        while x[0] == 'a':
            x = x[2]
        for y in ([x] if x[0] == 'd' else named_in(x)):
            if y[0] == 'd' and y not in out:
                out.append(y)
    return out


def subst(t, s):
    k = t[0]
    if k == 'v':
        return s.get(t[1], t)
    if k == 'l':
        return ('l', subst(t[1], s))
    if k == 'g':
        return ('g', t[1], tuple(subst(a, s) for a in t[2]))
    return t


def tvars(t, acc=None):
    acc = [] if acc is None else acc
    k = t[0]
    if k == 'v':
        if t[1] not in acc:
            acc.append(t[1])
    elif k == 'l':
        tvars(t[1], acc)
    elif k == 'g':
        for a in t[2]:
            tvars(a, acc)
    return acc


def is_concrete(t):
    return not tvars(t)


def unify(pat, tgt, b):
    """one-sided: variables of `pat` are bound in b; `tgt` is opaque (its variables are constants).
    Type aliases are transparent: bindings are canonical types"""
    tgt = canon(tgt)
    if pat[0] == 'a':
        pat = canon(pat)
    k = pat[0]
    if k == 'v':
        if pat[1] in b:
            return b[pat[1]] == tgt
        b[pat[1]] = tgt
        return True
    if k == 'l':
        return tgt[0] == 'l' and unify(pat[1], tgt[1], b)
    if k == 'g':
        if tgt[0] != 'g' or tgt[1] != pat[1] or len(tgt[2]) != len(pat[2]):
            return False
        return all(unify(p, t, b) for p, t in zip(pat[2], tgt[2]))
    return canon(pat) == tgt


def list_depth(t):
    d = 0
    while t[0] == 'l':
        d += 1
        t = t[1]
    return d


def contains_nested_list(t):
    k = t[0]
    if k == 'l':
        return t[1][0] == 'l' or contains_nested_list(t[1])
    if k == 'g':
        return any(contains_nested_list(a) for a in t[2])
    return False


def mangle(t):
    k = t[0]
    if k == 'a':
        return mangle(canon(t))
    if k in ('p', 's', 'v', 'd'):
        return t[1]
    if k == 'l':
        return 'L' + mangle(t[1])
    return t[1] + '_' + '_'.join(mangle(a) for a in t[2]) + '_e'


def show_word(t):
    """the overloaded print alias; Kombinationen with two type parameters have their own word (an overload set that mixes
    instantiated Kombinationen of different arity crashes the pinned parser in UnifyGenericType - not this check's subject)"""
    t = canon(t)
    while t[0] == 'l':
        t = t[1]
    return 'zeige2' if t[0] == 'g' and len(t[2]) > 1 else 'zeige'


class StructDef:
    def __init__(self, name, gender, fields, tparams=(), ctor=True):
        self.name, self.gender, self.fields, self.tparams, self.ctor = name, gender, list(fields), list(tparams), ctor

    @property
    def generic(self):
        return bool(self.tparams)


class FuncDef:
    """alias: template, '<p>' marks parameters, '{W}' the word that may be renamed per specialisation"""

    def __init__(self, name, params, ret, alias, body, tparams=(), public=False, operator=None, word=None, forward=False):
        self.name, self.params, self.ret, self.alias, self.body = name, list(params), ret, alias, list(body)
        self.tparams, self.public, self.operator = list(tparams), public, operator
        self.word = word if word is not None else name
        self.forward = forward     # G: irrelevant; M: emit specialisations as forward declaration + later definition

    @property
    def generic(self):
        return bool(self.tparams)


class Lang:
    """printer; `mono` = render instantiated generic Kombinationen as monomorphic ones"""

    def __init__(self, structs, mono=False):
        self.structs = structs
        self.mono = mono
        self.aliases_needed = []   # nested list element types that need a type alias (collected while printing)
        self.note_ginst = lambda t: None

    # ---------------- type names
    def gender(self, t):
        k = t[0]
        if k == 'p':
            return PRIM[t[1]]['g']
        if k == 'l':
            return 'f'
        if k in ('s', 'g'):
            return self.structs[t[1]].gender
        if k in ('d', 'a'):
            return NAMED[t[1]]
        return 'n'  # type parameter: every article is accepted

    def mono_name(self, t):
        return mangle(t)

    def _nested_alias(self, elem):
        """a list whose element is a list has no surface syntax: go through a (transparent) type alias"""
        if elem not in self.aliases_needed:
            self.aliases_needed.append(elem)
        return 'Reihe_' + mangle(elem)

    def tname(self, t):
        k = t[0]
        if k in ('p', 's', 'v', 'd', 'a'):
            return t[1]
        if k == 'l':
            e = t[1]
            if e[0] == 'p':
                return PRIM[e[1]]['plural'] + ' Liste'
            if e[0] == 'l':
                return self._nested_alias(e) + ' Liste'
            return self.tname(e) + ' Liste'
        if self.mono and is_concrete(t):
            self.note_ginst(t)
            return self.mono_name(t)
        return '-'.join(self.targ(a) for a in t[2]) + '-' + t[1]

    def targ(self, t):
        k = t[0]
        if k in ('p', 's', 'v', 'd', 'a'):
            return t[1]
        if k == 'g' and self.mono and is_concrete(t):
            self.note_ginst(t)
            return self.mono_name(t)
        return '(' + self.tname(t) + ')'

    def tname_ref(self, t):
        k = t[0]
        if k == 'p':
            return PRIM[t[1]]['ref'] + ' Referenz'
        if k == 'l':
            e = t[1]
            if e[0] == 'p':
                return PRIM[e[1]]['plural'] + ' Listen Referenz'
            if e[0] == 'l':
                return self._nested_alias(e) + ' Listen Referenz'
            return self.tname(e) + ' Listen Referenz'
        return self.tname(t) + ' Referenz'

    def tname_after(self, t, article):
        """'einen Buchstaben' / 'jeden Buchstaben' is the one inflected type name"""
        if t == CHAR and article in ('einen', 'jeden'):
            return 'Buchstaben'
        return self.tname(t)

    def decl_head(self, t):
        return ART_NOM[self.gender(t)] + ' ' + self.tname(t)

    def ret_phrase(self, t):
        if t is None:
            return 'nichts'
        a = ART_ACC_INDEF[self.gender(t)]
        return a + ' ' + self.tname_after(t, a)

    # ---------------- expressions
    def atom(self, e, ctx):
        s = self.expr(e, ctx)
        if e[0] in ('var', 'lit'):
            return s
        return '(' + s + ')'

    def expr(self, e, ctx):
        k = e[0]
        if k == 'var':
            return e[1]
        if k in ('lit', 'rawexpr'):
            return e[2]
        if k == 'field':
            return '%s von %s' % (e[1], self.atom(e[2], ctx))
        if k == 'index':
            return '%s an der Stelle %s' % (self.atom(e[1], ctx), self.atom(e[2], ctx))
        if k == 'len':
            return 'die Länge von %s' % self.atom(e[1], ctx)
        if k == 'concat':
            return '%s verkettet mit %s' % (self.atom(e[1], ctx), self.atom(e[2], ctx))
        if k == 'bin':
            return '%s %s %s' % (self.atom(e[2], ctx), e[1], self.atom(e[3], ctx))
        if k == 'default':
            t = e[1]
            a = ART_DAT_INDEF[self.gender(t)]
            return 'der Standardwert von %s %s' % (a, self.tname(t))
        if k == 'cast':
            inner = self.atom(e[1], ctx)
            if inner.startswith('-'):
                inner = '(' + inner + ')'       # `als` binds tighter than the unary minus
            return '%s als %s' % (inner, self.tname(e[2]))
        if k == 'listlit':
            if not e[2]:
                return 'eine leere %s' % self.tname(L(e[1]))
            return 'eine Liste, die aus %s besteht' % ', '.join(self.atom(x, ctx) for x in e[2])
        if k == 'ctor':
            sd = self.structs[e[1]]
            name = e[1]
            if self.mono and sd.generic:
                ct = ctx.etype(e)
                self.note_ginst(ct)
                name = self.mono_name(ct)
            return '%s(%s)' % (name, ', '.join(self.atom(x, ctx) for x in e[2]))
        if k == 'call':
            return ctx.render_call(self, e)
        if k == 'opcall':
            f = ctx.funcs[e[1]]
            ctx.note_call(e)
            if f.operator == 'als':
                return '%s als %s' % (self.atom(e[2][0], ctx), self.tname(ctx.etype(e)))
            return '%s %s %s' % (self.atom(e[2][0], ctx), f.operator, self.atom(e[2][1], ctx))
        raise ValueError('expr kind ' + k)

    def cond(self, c, ctx):
        k = c[0]
        if k == 'eq':
            return '%s gleich %s ist' % (self.atom(c[1], ctx), self.atom(c[2], ctx))
        if k == 'ne':
            return '%s ungleich %s ist' % (self.atom(c[1], ctx), self.atom(c[2], ctx))
        if k == 'lt':
            return '%s kleiner als %s ist' % (self.atom(c[1], ctx), self.atom(c[2], ctx))
        if k == 'gt':
            return '%s größer als %s ist' % (self.atom(c[1], ctx), self.atom(c[2], ctx))
        raise ValueError('cond kind ' + k)

    # ---------------- statements
    def stmts(self, body, ctx, ind):
        out = []
        tab = '\t' * ind
        for s in body:
            k = s[0]
            if k == 'decl':
                t = s[2]
                out.append('%s%s %s ist %s.' % (tab, self.decl_head(t), s[1], self.expr(s[3], ctx)))
                ctx.bind(s[1], t)
            elif k == 'assign':
                out.append('%sSpeichere %s in %s.' % (tab, self.expr(s[2], ctx), self.expr(s[1], ctx)))
            elif k == 'ret':
                if s[1] is None:
                    out.append('%sVerlasse die Funktion.' % tab)
                else:
                    out.append('%sGib %s zurück.' % (tab, self.expr(s[1], ctx)))
            elif k == 'expr':
                out.append('%s%s.' % (tab, self.expr(s[1], ctx)))
            elif k == 'show':
                st = ctx.etype(s[1])
                ctx.note_show(st)
                out.append('%s%s %s.' % (tab, show_word(st), self.atom(s[1], ctx)))
            elif k == 'print':
                out.append('%sSchreibe (%s) auf eine Zeile.' % (tab, self.expr(s[1], ctx)))
            elif k == 'write':
                out.append('%sSchreibe %s.' % (tab, self.atom(s[1], ctx)))
            elif k == 'if':
                out.append('%sWenn %s, dann:' % (tab, self.cond(s[1], ctx)))
                ctx.push()
                out += self.stmts(s[2], ctx, ind + 1)
                ctx.pop()
                if len(s) > 3 and s[3]:
                    out.append('%sSonst:' % tab)
                    ctx.push()
                    out += self.stmts(s[3], ctx, ind + 1)
                    ctx.pop()
            elif k == 'repeat':
                out.append('%sWiederhole:' % tab)
                ctx.push()
                out += self.stmts(s[2], ctx, ind + 1)
                ctx.pop()
                out.append('%s%s Mal.' % (tab, self.atom(s[1], ctx)))
            elif k == 'foreach':
                t = s[2]
                a = PRON_EACH[self.gender(t)]
                out.append('%sFür %s %s %s in %s, mache:' % (tab, a, self.tname_after(t, a), s[1], self.atom(s[3], ctx)))
                ctx.push()
                ctx.bind(s[1], t)
                out += self.stmts(s[4], ctx, ind + 1)
                ctx.pop()
            elif k == 'raw':
                out.append(tab + s[1])
            else:
                raise ValueError('stmt kind ' + k)
        return out


# ------------------------------------------------------------------ substitution over bodies

def subst_expr(e, s):
    k = e[0]
    if k in ('var', 'lit', 'rawexpr'):
        return e
    if k == 'field':
        return ('field', e[1], subst_expr(e[2], s))
    if k == 'index':
        return ('index', subst_expr(e[1], s), subst_expr(e[2], s))
    if k == 'len':
        return ('len', subst_expr(e[1], s))
    if k == 'concat':
        return ('concat', subst_expr(e[1], s), subst_expr(e[2], s))
    if k == 'bin':
        return ('bin', e[1], subst_expr(e[2], s), subst_expr(e[3], s))
    if k == 'default':
        return ('default', subst(e[1], s))
    if k == 'cast':
        return ('cast', subst_expr(e[1], s), subst(e[2], s))
    if k == 'listlit':
        return ('listlit', subst(e[1], s), [subst_expr(x, s) for x in e[2]])
    if k == 'ctor':
        return ('ctor', e[1], [subst_expr(x, s) for x in e[2]])
    if k in ('call', 'opcall'):
        return (k, e[1], [subst_expr(x, s) for x in e[2]]) + tuple(subst(t, s) if isinstance(t, tuple) else t for t in e[3:])
    raise ValueError('expr kind ' + k)


def subst_body(body, s):
    out = []
    for st in body:
        k = st[0]
        if k == 'decl':
            out.append(('decl', st[1], subst(st[2], s), subst_expr(st[3], s)))
        elif k == 'assign':
            out.append(('assign', subst_expr(st[1], s), subst_expr(st[2], s)))
        elif k == 'ret':
            out.append(('ret', None if st[1] is None else subst_expr(st[1], s)))
        elif k in ('expr', 'show', 'print', 'write'):
            out.append((k, subst_expr(st[1], s)))
        elif k == 'if':
            c = st[1]
            out.append(('if', (c[0], subst_expr(c[1], s), subst_expr(c[2], s)), subst_body(st[2], s), subst_body(st[3], s) if len(st) > 3 and st[3] else []))
        elif k == 'repeat':
            out.append(('repeat', subst_expr(st[1], s), subst_body(st[2], s)))
        elif k == 'foreach':
            out.append(('foreach', st[1], subst(st[2], s), subst_expr(st[3], s), subst_body(st[4], s)))
        elif k == 'raw':
            out.append(st)
        else:
            raise ValueError('stmt kind ' + k)
    return out


# ------------------------------------------------------------------ typing context

class TypeErrorInModel(Exception):
    pass


class Ctx:
    """scope + function table; types expressions; records calls of generic functions and `zeige` uses.
    mode 'G': calls print the generic alias; mode 'M': calls print the alias of the specialisation."""

    def __init__(self, prog, module, mode, tconst=()):
        self.prog, self.module, self.mode = prog, module, mode
        self.funcs = prog.funcs
        self.scopes = [{}]
        self.calls = []      # (fname, sigma tuple)
        self.shows = []      # concrete types shown here

    def push(self):
        self.scopes.append({})

    def pop(self):
        self.scopes.pop()

    def bind(self, name, t):
        self.scopes[-1][name] = t

    def lookup(self, name):
        for sc in reversed(self.scopes):
            if name in sc:
                return sc[name]
        g = self.prog.global_type(self.module, name)
        if g is None:
            raise TypeErrorInModel('unbound ' + name)
        return g

    def note_show(self, t):
        if t not in self.shows:
            self.shows.append(t)

    def call_sigma(self, e):
        f = self.funcs[e[1]]
        b = {}
        for (pn, pt, ref), a in zip(f.params, e[2]):
            at = self.etype(a)
            if not unify(pt, at, b):
                raise TypeErrorInModel('call %s: parameter %s' % (f.name, pn))
        return f, b

    def note_call(self, e):
        f, b = self.call_sigma(e)
        if f.generic:
            key = (f.name, tuple((tp, b[tp]) for tp in f.tparams))
            if key not in self.calls:
                self.calls.append(key)
            return f, key[1]
        return f, None

    def render_call(self, lang, e):
        f, sig = self.note_call(e)
        alias = f.alias
        word = f.word
        if f.generic and self.mode == 'M':
            if all(is_concrete(t) for _, t in sig):
                word = self.prog.spec_word(f, sig)
        s = alias.replace('{W}', word)
        for (pn, pt, ref), a in zip(f.params, e[2]):
            s = s.replace('<%s>' % pn, lang.atom(a, self))
        return s

    def etype(self, e):
        k = e[0]
        if k == 'var':
            return self.lookup(e[1])
        if k in ('lit', 'rawexpr'):
            return e[1]
        if k == 'field':
            st = canon(self.etype(e[2]))
            if st[0] not in ('s', 'g'):
                raise TypeErrorInModel('field of non-Kombination')
            sd = self.prog.structs[st[1]]
            for fn, ft in sd.fields:
                if fn == e[1]:
                    if st[0] == 'g':
                        return subst(ft, dict(zip(sd.tparams, st[2])))
                    return ft
            raise TypeErrorInModel('no field ' + e[1])
        if k == 'index':
            lt = canon(self.etype(e[1]))
            if lt == TEXT:
                return CHAR
            if lt[0] != 'l':
                raise TypeErrorInModel('index of non-list')
            return lt[1]
        if k == 'len':
            return ZAHL
        if k == 'concat':
            a, b = canon(self.etype(e[1])), canon(self.etype(e[2]))
            if a[0] == 'l':
                return a
            if b[0] == 'l':
                return b
            if a in (TEXT, CHAR) and b in (TEXT, CHAR):
                return TEXT
            return L(a)
        if k == 'bin':
            return self.etype(e[2])
        if k == 'default':
            return e[1]
        if k == 'cast':
            return e[2]
        if k == 'listlit':
            return L(e[1])
        if k == 'ctor':
            sd = self.prog.structs[e[1]]
            if not sd.generic:
                return S(e[1])
            b = {}
            for (fn, ft), a in zip(sd.fields, e[2]):
                if not unify(ft, self.etype(a), b):
                    raise TypeErrorInModel('ctor ' + e[1])
            return GI(e[1], *[b[tp] for tp in sd.tparams])
        if k in ('call', 'opcall'):
            f, b = self.call_sigma(e)
            if f.ret is None:
                return None
            return subst(f.ret, b)
        raise ValueError('expr kind ' + k)
