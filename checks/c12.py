"""C12 A Text is a sequence of Unicode code points.

Part A (direct): native/rt_driver.c calls the text functions of libddpruntime.a (ASan+UBSan build and plain build)
  * sweep: all 1 112 063 scalar values U+0001..U+10FFFF through char->text->length/index/slice/concat/replace/equality,
    encoding compared with an independent encoder; surrogates and values > U+10FFFF must be rejected
  * histories: random command sequences over a table of live texts, every step compared with Python str
Part B (compiled): the same kind of histories rendered as DDP programs, compiled by the real kddp, output compared
  with the same model (plain executable at -O 1 [thorough: 0,1,2] and an executable linked against the ASan runtime)."""
import json
import os
import random
import re
import sys

import vlib
from vlib import Check, Scratch, log
from checks import c12_model as M
from checks import c12_direct as D

PID = "C12"
NS_DDP = 4
HERE = os.path.dirname(os.path.abspath(__file__))


# ------------------------------------------------------------------ drivers

def _mtime(p):
    try:
        return os.path.getmtime(p)
    except OSError:
        return 0


def get_drivers(sc):
    """build.sh builds native/rt_driver.c; it keys that step on native/ and the headers only, so after a change of the
    runtime sources the binaries may be older than the libraries - then they are rebuilt here into the scratch dir"""
    src = os.path.join(vlib.VERIF, "native", "rt_driver.c")
    inc = os.path.join(vlib.REPO, "lib", "runtime", "include")
    out = []
    for name, cc, lib in (("rt_driver", ["clang", "-O1", "-g", "-fsanitize=address,undefined", "-fno-sanitize-recover=all", "-fno-omit-frame-pointer"],
                           os.path.join(vlib.DDP_ASAN, "lib", "libddpruntime.a")),
                          ("rt_driver_plain", ["gcc", "-O1", "-g"], os.path.join(vlib.DDP, "lib", "libddpruntime.a"))):
        exe = os.path.join(vlib.BUILD, "native", name)
        if _mtime(exe) < max(_mtime(src), _mtime(lib)):
            exe = os.path.join(sc.path, name)
            p = vlib.run(cc + ["-I" + inc, "-o", exe, src, lib, "-lm"], wall_s=300)
            if p.rc != 0:
                raise vlib.BuildFailed("rt_driver: " + p.err[-2000:])
        out.append(exe)
    return out


# ------------------------------------------------------------------ part A: sweep

def part_sweep(chk, drv_asan, drv_plain):
    def one(a):
        name, drv, asan = a
        return name, vlib.run([drv, "sweep"], env=vlib.base_env(vlib.ASAN_ENV if asan else None), wall_s=900, cpu_s=600, max_out=1 << 24)
    for name, p in vlib.pmap(one, [("asan", drv_asan, True), ("plain", drv_plain, False)]):
        if p.timed_out:
            chk.inconclusive += 1
            continue
        summary = None
        examples = {}
        for line in p.out.split("\n"):
            if line.startswith("SWEEP "):
                summary = dict(kv.split("=") for kv in line.split()[1:])
            elif line.startswith("NUL "):
                chk.extra["U+0000 (not judged)"] = line[4:]
            elif line.startswith("M "):
                examples.setdefault(line.split(" cp=")[0][2:], []).append(line)
        if summary is None:
            chk.violation({"part": "sweep", "kind": "driver died: " + M.classify_death(p.rc, p.err), "build": name}, files={"stderr.txt": p.err[-8000:], "stdout.txt": p.out[-4000:]},
                          text="rt_driver sweep (%s) ended with status %s without a summary" % (name, p.rc))
            continue
        n = int(summary["scalars"])
        with chk.lock:
            chk.evaluations += n
            chk.distinct_extra = max(chk.distinct_extra, n)
        chk.count("sweep_scalars_%s" % name, n)
        for w in ("w1", "w2", "w3", "w4"):
            chk.counters["sweep_%s" % w] = int(summary[w])
        chk.counters["sweep_non_scalars_probed"] = int(summary["surrogates"]) + int(summary["above"]) + int(summary["negative"])
        chk.count("sweep_mismatches_%s" % name, int(summary["mismatches"]))
        for line in p.out.split("\n"):
            if not line.startswith("K "):
                continue
            m = re.match(r"K (.*) count=(\d+) first=(\w+) last=(\w+)$", line)
            kind, rng_ = m.group(1), ""
            mm = re.match(r"(.*)\[(.*)\]$", kind)
            if mm:
                kind, rng_ = mm.group(1), mm.group(2)
            sig = {"part": "sweep", "kind": kind}
            if rng_:
                sig["range"] = rng_
            chk.violation(sig, files={"sweep_%s.txt" % name: p.out[-20000:]},
                          text="%s: %s code points U+%s..U+%s (%s build)\n%s" % (m.group(1), m.group(2), m.group(3), m.group(4), name, "\n".join(examples.get(m.group(1), []))))
        if name == "asan":
            chk.sample({"sweep": summary})


# ------------------------------------------------------------------ part A: histories

def part_direct(chk, sc, drv_asan, drv_plain, total, chunk):
    jobs = []
    for k, start in enumerate(range(0, total, chunk)):
        job = {"seed": chk.seed, "start": start, "count": min(chunk, total - start), "driver_asan": drv_asan, "driver_plain": drv_plain}
        path = os.path.join(sc.path, "job%d.json" % k)
        with open(path, "w") as f:
            json.dump(job, f)
        jobs.append(path)
    tpath = os.path.join(sc.path, "job_targeted.json")
    with open(tpath, "w") as f:
        json.dump({"targeted": True, "driver_asan": drv_asan, "driver_plain": drv_plain}, f)
    jobs.append(tpath)

    def one(path):
        p = vlib.run([sys.executable or "/usr/bin/python3", os.path.join(HERE, "c12_direct.py"), path], wall_s=1500, max_out=1 << 30)
        if p.timed_out or p.rc != 0:
            return {"failed": p.err[-3000:], "count": json.load(open(path)).get("count", 0)}
        return json.loads(p.out)

    hashes = set()
    for r in vlib.pmap(one, jobs):
        if "failed" in r:
            log("[C12] direct worker failed:", r["failed"])
            chk.inconclusive += max(1, r["count"])
            continue
        hashes.update(r["hashes"])
        with chk.lock:
            chk.evaluations += r["histories"]
        chk.inconclusive += r["inconclusive"]
        for k in ("histories", "steps", "tainted_steps", "expected_errors", "eq_true", "eq_false", "repl_shrink", "repl_grow", "repl_same", "driver_restarts"):
            chk.count("direct_" + k, r.get(k, 0))
        for op, n in r["ops"].items():
            chk.count("direct_op_" + op, n)
        for s in r["samples"]:
            chk.sample({"direct": s}, limit=3)
        for key, n in r["sigcount"].items():
            chk.count("direct_mismatch " + key, n)
        for f in r["findings"]:
            if f.get("infra"):
                log("[C12] driver problem:", f["text"][:500])
                chk.inconclusive += 1
                continue
            chk.violation(f["sig"], files={"history.txt": f["stream"], "driver.txt": f["driver"]}, text="(%s build) %s" % (f["driver"], f["text"]))
    with chk.lock:
        chk.distinct_extra += len(hashes)


# ------------------------------------------------------------------ part B: compiled programs

def gen_program(seed, pi, per_prog):
    rng = random.Random("C12/%d/ddp/%d" % (seed, pi))
    hs = [(h, M.gen_history(rng, "ddp", NS_DDP)) for h in range(per_prog)]
    return hs, rng


def run_program(chk, sc, pi, per_prog, olevels, with_asan):
    hs, rng = gen_program(chk.seed, pi, per_prog)
    d = sc.sub("p%d" % pi)
    src = os.path.join(d, "p.ddp")
    text = M.render_ddp_program(hs, NS_DDP, random.Random("C12/%d/ddp-render/%d" % (chk.seed, pi)))
    vlib.write_file(src, text)
    hjson = json.dumps({"per_prog": per_prog, "prog": pi, "histories": [[h, c] for h, c in hs]}, ensure_ascii=False)
    for O in olevels:
        exe = os.path.join(d, "p_O%d" % O)
        cp = vlib.kddp_compile(src, exe, O=O)
        if cp.timed_out:
            chk.inconclusive += 1
            continue
        if cp.rc != 0 or not os.path.exists(exe):
            chk.violation({"part": "compiled", "op": "(kddp)", "history": M.FRESH, "symptom": "generated program rejected", "O": O},
                          files={"p.ddp": text, "histories.json": hjson, "kddp_stderr.txt": cp.err[-6000:] + cp.out[-3000:]}, text="kddp rc=%s" % cp.rc)
            continue
        rp = vlib.run_exe(exe)
        judge_program(chk, "compiled", O, hs, rp, text, hjson)
        try:
            os.unlink(exe)
        except OSError:
            pass
    if with_asan:
        safe = [(h, c) for h, c in hs if not M.risky(c, NS_DDP)]
        chk.count("compiled_asan_histories_excluded(known weakness would end the process)", len(hs) - len(safe))
        if safe:
            atext = M.render_ddp_program(safe, NS_DDP, random.Random("C12/%d/ddp-render-asan/%d" % (chk.seed, pi)))
            asrc = os.path.join(d, "pa.ddp")
            vlib.write_file(asrc, atext)
            obj = os.path.join(d, "pa.o")
            cp = vlib.kddp_compile(asrc, obj, O=1)
            ajson = json.dumps({"per_prog": per_prog, "prog": pi, "asan": True, "histories": [[h, c] for h, c in safe]}, ensure_ascii=False)
            if cp.timed_out:
                chk.inconclusive += 1
            elif cp.rc != 0 or not os.path.exists(obj):
                chk.violation({"part": "compiled-asan", "op": "(kddp)", "history": M.FRESH, "symptom": "generated program rejected", "O": 1},
                              files={"p.ddp": atext, "histories.json": ajson, "kddp_stderr.txt": cp.err[-6000:] + cp.out[-3000:]}, text="kddp rc=%s" % cp.rc)
            else:
                exe = os.path.join(d, "pa_asan")
                lp = vlib.link_asan(obj, exe)
                if lp.rc != 0 or lp.timed_out:
                    log("[C12] asan link failed:", lp.err[-800:])
                    chk.inconclusive += 1
                else:
                    rp = run_asan_exe(exe)
                    judge_program(chk, "compiled-asan", 1, safe, rp, atext, ajson)
    import shutil
    shutil.rmtree(d, ignore_errors=True)


def run_asan_exe(exe):
    # not vlib.run_exe: its address-space limit keeps ASan from reserving its shadow memory
    return vlib.run([exe], cwd=os.path.dirname(exe), env=vlib.base_env(vlib.ASAN_ENV), wall_s=120, cpu_s=60)


def judge_program(chk, part, O, hs, rp, text, hjson):
    files = {"p.ddp": text, "histories.json": hjson, "stdout.txt": rp.out[-20000:], "stderr.txt": rp.err[-8000:], "config.json": json.dumps({"part": part, "O": O})}
    if rp.timed_out:
        chk.inconclusive += 1
        return
    chk.count("%s_programs_run" % part)
    obs = M.parse_ddp_output(rp.out)
    if rp.rc != 0 or rp.cpu_killed or "<<END>>" not in rp.out:
        sym = "cpu limit (loop?)" if rp.cpu_killed else M.classify_death(rp.rc, rp.err)
        fr = M._FRAME.search(rp.err)
        sig = {"part": part, "op": "(program)", "history": "whole program", "symptom": sym, "O": O}
        if fr:
            sig["frame"] = fr.group(1)
        chk.violation(sig, files=files, text="program ended with status %s after %d observations\n%s" % (rp.rc, len(obs), rp.err[:3000]))
    for h, cmds in hs:
        if (h, 0) not in obs and (rp.rc != 0 or rp.cpu_killed):
            chk.count("%s_histories_lost_after_program_death" % part)
            continue
        f, steps, tsteps = M.judge_ddp(h, cmds, obs, NS_DDP, part)
        chk.note_case("ddp:" + repr(cmds))
        chk.count("%s_histories" % part)
        chk.count("%s_steps" % part, steps)
        chk.count("%s_tainted_steps" % part, tsteps)
        if not f and len(cmds) >= 5:
            chk.sample({part: {"O": O, "commands": [" ".join(str(x) if not isinstance(x, str) else repr(x) for x in c) for c in cmds],
                               "printed": [obs.get((h, k)) for k in range(len(cmds))]}}, limit=5)
        for sig, t in f:
            sig = dict(sig)
            sig["O"] = O
            chk.count("%s_mismatch %s" % (part, json.dumps({k: v for k, v in sig.items() if k != "O"}, sort_keys=True, ensure_ascii=False)))
            mini = M.render_ddp_program([(h, cmds)], NS_DDP, random.Random(0))
            ff = dict(files)
            ff["minimal.ddp"] = mini
            chk.violation(sig, files=ff, text=t)


def part_compiled(chk, sc, nprog, per_prog, olevels):
    vlib.pmap(lambda pi: run_program(chk, sc, pi, per_prog, olevels, True), range(nprog))


# ------------------------------------------------------------------ entry points

def run(tier):
    vlib.ensure_build()
    chk = Check(PID, tier)
    if tier == "quick":
        total, chunk, nprog, per_prog, olevels = 20000, 1250, 100, 20, (1,)
    else:
        total, chunk, nprog, per_prog, olevels = 300000, 5000, 400, 20, (0, 1, 2)
    chk.rule = ("model: Python str (code points). sweep: every scalar value U+0001..U+10FFFF (surrogates excluded) through utf8_char_to_string, ddp_char_to_string, "
                "ddp_string_length, ddp_string_index, utf8_num_bytes/_char/indicated, utf8_string_to_char, equality with the literal, and inside the text a·X·€ through "
                "concatenation, index, slice, char·text and replacement; encoding compared with an independent encoder; surrogates, U+110000..U+12FFFF, larger and negative values "
                "must be rejected. histories: case i is a pure function of (VERIF_SEED, i): 1-12 commands over <=6 live texts (literal 0-6 characters of {a,ä,€,😀,\\n,\"}, "
                "char->text, int->text, copy, text·text, text·char, char·text, slice, in-place replace, index, length, equality (also against a fresh literal with the same code points), "
                "iteration with utf8_string_to_char, text->int, free); after every command the reported bytes of all touched texts, the scalar result and the invariants "
                "(terminator inside cap, valid UTF-8) are compared with the model, under the ASan+UBSan build and the plain build of the runtime. compiled: the same kind of "
                "histories (in-domain only) as DDP programs (%d histories each), kddp -O %s and an executable linked against the ASan runtime. distinct = distinct command "
                "sequences + scalar values." % (per_prog, "/".join(map(str, olevels))))
    chk.assumptions = [
        "executables run with LOCPATH=<build>/locale (de_DE.UTF-8 shim = C.utf8 with decimal comma); without a UTF-8 locale c32rtomb/mbrtoc32 reject every non-ASCII character",
        "U+0000 is outside the model: a Text is documented as a NUL-terminated byte array (ddptypes.h); its behaviour is recorded in the evidence, not judged",
        "invalid code points (surrogates, > U+10FFFF, negative) are only judged for 'the conversion to Text rejects them' (empty text / (size_t)-1, as operators.c and utf8.h document); "
        "replacing or concatenating with them is not exercised in histories",
        "out-of-domain index/replace/slice commands appear only as the last command of a direct history and must give 'Laufzeitfehler' and exit status 1; compiled programs contain in-domain commands only (C06 covers the rest)",
        "Text->Zahl is modelled as strtoll prefix semantics (leading white space, sign, ASCII digits, saturating)",
        "capacity is never judged by itself; a value whose buffer went through an in-place replacement by a shorter character is tracked by the model only to label findings "
        "('history': 'after in-place shrink') and to resynchronise the model with the observed value so that the rest of the history is still checked",
        "histories applying equality/concatenation/iteration to such a value are left out of the ASan-linked compiled programs (the first sanitizer report ends a process); they are run in the plain programs and, one forked child per history, in the ASan build of the direct driver",
        "compiled for-each loops carry a guard that leaves after 40 rounds, so that a loop that does not end is a finding and not a hang",
    ]
    with Scratch("c12") as sc:
        import time
        drv_asan, drv_plain = get_drivers(sc)
        t0 = time.time()
        part_sweep(chk, drv_asan, drv_plain)
        t1 = time.time()
        part_direct(chk, sc, drv_asan, drv_plain, total, chunk)
        t2 = time.time()
        part_compiled(chk, sc, nprog, per_prog, olevels)
        t3 = time.time()
        chk.extra["wall_s_parts"] = {"sweep": round(t1 - t0, 1), "direct": round(t2 - t1, 1), "compiled": round(t3 - t2, 1)}
        log("[C12] wall: sweep %.1fs, direct histories %.1fs, compiled programs %.1fs" % (t1 - t0, t2 - t1, t3 - t2))
    return chk.finish(min_events=1000)


def replay(path):
    """re-runs one replay directory; exit 1 if the finding shows again"""
    vlib.ensure_build()
    v = json.load(open(os.path.join(path, "violation.json")))
    sig = v["signature"]
    with Scratch("c12r") as sc:
        drv_asan, drv_plain = get_drivers(sc)
        if sig["part"] == "sweep":
            bad = 0
            for drv, asan in ((drv_asan, True), (drv_plain, False)):
                p = vlib.run([drv, "sweep"], env=vlib.base_env(vlib.ASAN_ENV if asan else None), wall_s=900, max_out=1 << 24)
                print(p.out[-3000:])
                bad += 1 if re.search(r"^K ", p.out, re.M) or "SWEEP " not in p.out else 0
            return 1 if bad else 0
        if sig["part"] == "direct":
            stream = open(os.path.join(path, "history.txt")).read()
            cmds = [M.parse_direct_cmd(l) for l in stream.split("\n")[1:] if l and l != "E"]
            bad = 0
            for name, drv, asan in (("asan", drv_asan, True), ("plain", drv_plain, False)):
                blocks, _, problem = D.run_all(drv, asan, [(stream.split("\n")[0].split()[1], cmds)], symbolize=True)
                for b in blocks.values():
                    f, _, _ = M.judge_direct(cmds, b)
                    for s, t in f:
                        print("[%s] %s\n%s\n" % (name, json.dumps(s, ensure_ascii=False), t[:3000]))
                        bad += 1
            return 1 if bad else 0
        # compiled
        cfg = json.load(open(os.path.join(path, "config.json"))) if os.path.exists(os.path.join(path, "config.json")) else {"part": sig["part"], "O": sig.get("O", 1)}
        hj = json.load(open(os.path.join(path, "histories.json")))
        hs = [(h, [tuple(c) for c in cmds]) for h, cmds in hj["histories"]]
        src = os.path.join(sc.path, "p.ddp")
        vlib.write_file(src, open(os.path.join(path, "p.ddp")).read())
        if cfg["part"] == "compiled-asan":
            obj = os.path.join(sc.path, "p.o")
            cp = vlib.kddp_compile(src, obj, O=1)
            exe = os.path.join(sc.path, "p_asan")
            if cp.rc == 0:
                vlib.link_asan(obj, exe)
            rp = run_asan_exe(exe) if os.path.exists(exe) else None
        else:
            exe = os.path.join(sc.path, "p")
            cp = vlib.kddp_compile(src, exe, O=cfg["O"])
            rp = vlib.run_exe(exe) if os.path.exists(exe) else None
        if rp is None:
            print("kddp failed:", cp.err[-3000:])
            return 1
        bad = 0
        if rp.rc != 0 or "<<END>>" not in rp.out:
            print("program status %s\n%s" % (rp.rc, rp.err[:3000]))
            bad += 1
        obs = M.parse_ddp_output(rp.out)
        for h, cmds in hs:
            f, _, _ = M.judge_ddp(h, cmds, obs, NS_DDP, cfg["part"])
            for s, t in f:
                print("%s\n%s\n" % (json.dumps(s, ensure_ascii=False), t[:2000]))
                bad += 1
        return 1 if bad else 0
