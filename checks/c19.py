"""C19 Every literal denotes its written value.
Reference-model monitor: generated literals are printed by compiled programs (`Schreibe <literal>`);
the output is compared with the value an independent decoder assigns to the written text
(Python int / correctly rounded float / escape decoder). Invalid literals must be rejected."""
import itertools
import json
import os
import random
import re

import vlib
from vlib import Check, Scratch, Probe, ProbeDied
from ddpmodel import fmt_float

PID = "C19"

# text/char alphabet as *source fragments*: (source, value or None if it makes the literal invalid)
TEXT_SYMS = [("a", "a"), ("ä", "ä"), ("😀", "😀"), ('\\"', '"'), ("\\\\", "\\"), ("\\n", "\n"), ("n", "n"), ("t", "t"), ("\n", "\n"), ("\\t", "\t"), ("\\q", None)]
ESCAPES = {"a": "\a", "b": "\b", "n": "\n", "r": "\r", "t": "\t", "\\": "\\"}


def int_cases(rnd, thorough):
    vals = {0, 1, 7, 10, 99, 255, 256, 65535, 2 ** 31 - 1, 2 ** 31, 2 ** 32, 2 ** 53, 2 ** 53 + 1, 10 ** 18, 2 ** 63 - 1}
    for k in range(1, 63):
        vals.update({2 ** k - 1, 2 ** k, 2 ** k + 1})
    for _ in range(60 if not thorough else 3000):
        vals.add(rnd.randrange(0, 2 ** 63))
        vals.add(rnd.randrange(0, 10 ** rnd.randint(1, 18)))
    out = []
    for v in sorted(vals):
        out.append((str(v), str(v)))
        if rnd.random() < 0.2:
            out.append(("00" + str(v), str(v)))              # leading zeros
        if v > 0 and rnd.random() < 0.5:
            out.append(("(-%d)" % v, str(-v)))                # unary minus applied to a literal
    invalid = [str(2 ** 63), str(2 ** 63 + 1), str(2 ** 64), "1" + "0" * 20, "9" * 19, "99999999999999999999999999999"]
    return out, invalid


def float_cases(rnd, thorough):
    out = []
    lits = set()
    for a, b in itertools.product(["0", "1", "9", "10", "255", "999"], ["0", "5", "25", "1", "001", "999", "125", "10"]):
        lits.add(a + "," + b)
    n = 150 if not thorough else 20000
    for _ in range(n):
        ip = str(rnd.randrange(0, 10 ** rnd.randint(1, 17)))
        fp = "".join(rnd.choice("0123456789") for _ in range(rnd.randint(1, 17)))
        lits.add(ip + "," + fp)
    # rounding at the 53-bit boundary, long fractional tails, tiny and huge values
    lits.update(["9007199254740993,0", "9007199254740992,5", "9007199254740993,5", "0,1", "0,2", "0,30000000000000004", "0,1000000000000000055511151231257827",
                 "123456789012345678,9", "0,000000000000000000000000000001", "4,35", "2,675", "1,0000000000000002", "1,00000000000000011102230246251565",
                 "179769313486231570000000000000000000000000000000000000000000000,0", "0,5", "0,25", "0,125"])
    for lit in sorted(lits):
        v = float(lit.replace(",", "."))
        out.append((lit, fmt_float(v)))
        if rnd.random() < 0.3:
            out.append(("(-%s)" % lit, fmt_float(-v) if v != 0 else fmt_float(-0.0)))
    # a negated zero literal denotes negative zero: prints as -0, divides to -Unendlich, converts to the text "-0"
    for z in ("0,0", "0,000", "00,0", "0,00000000000000000000"):
        out.append(("(-%s)" % z, fmt_float(-0.0)))
        out.append(("(1 durch (-%s))" % z, "-Unendlich"))
        out.append(("(1 durch %s)" % z, "Unendlich"))
        out.append(("((-%s) als Text)" % z, fmt_float(-0.0)))
        out.append(("((eine Liste, die aus (-%s), 1,5 besteht) an der Stelle 1)" % z, fmt_float(-0.0)))
    return out


def decode_text(frags):
    val = ""
    for src, v in frags:
        if v is None:
            return None
        val += v
    return val


def text_cases(thorough):
    maxlen = 3 if not thorough else 4
    valid, invalid = [], []
    for n in range(0, maxlen + 1):
        for combo in itertools.product(TEXT_SYMS, repeat=n):
            src = '"' + "".join(s for s, _ in combo) + '"'
            v = decode_text(combo)
            if v is None:
                invalid.append(src)
            else:
                valid.append((src, v))
    # adjacent escapes that stress in-place splicing
    for src, v in [('"\\\\n"', "\\n"), ('"\\\\\\\\"', "\\\\"), ('"\\"\\\\"', '"\\'), ('"\\\\\\"x"', '\\"x'), ('"a\\\\\\nb"', "a\\\nb"),
                   ('"\\a\\b\\r"', "\a\b\r"), ('"Übergrößenträger €"', "Übergrößenträger €")]:
        valid.append((src, v))
    return valid, invalid


def char_cases():
    valid = []
    for ch in "aZ0 ä€😀\"-.[]<>ß":
        valid.append(("'%s'" % ch, ch))
    for e, v in ESCAPES.items():
        valid.append(("'\\%s'" % e, v))
    valid.append(("'\\''", "'"))
    invalid = ["'ab'", "'\\q'", "''", "'aä'", "'\\nn'", "'\\\"'"]
    return valid, invalid


def run(tier):
    vlib.ensure_build(asan=False)
    chk = Check(PID, tier)
    thorough = tier == "thorough"
    rnd = random.Random("%d/%s" % (chk.seed, PID))
    ints, bad_ints = int_cases(rnd, thorough)
    floats = float_cases(rnd, thorough)
    texts, bad_texts = text_cases(thorough)
    chars, bad_chars = char_cases()
    cases = []  # (kind, source literal, expected printed bytes)
    cases += [("int", s, v) for s, v in ints]
    cases += [("float", s, v) for s, v in floats]
    cases += [("text", s, v) for s, v in texts]
    cases += [("char", s, v) for s, v in chars]
    cases += [("bool", "wahr", "wahr"), ("bool", "falsch", "falsch")]
    # list literal forms
    cases += [("list", "(eine Liste, die aus 1, 2, 3 besteht)", "1, 2, 3"), ("list", "(eine Liste, die aus \"a\", \"ä\\n\" besteht)", "a, ä\n"),
              ("list", "(eine leere Zahlen Liste)", ""), ("list", "(eine Liste, die aus 1,5, 2,25 besteht)", "1,5, 2,25"),
              ("list", "(eine Liste, die aus 'a', '\\n', 'ä' besteht)", "a, \n, ä"), ("list", "(eine Liste, die aus wahr, falsch besteht)", "wahr, falsch"),
              ("list", "(eine leere Text Liste)", "")]
    if not thorough:
        # quick: all ints/chars/lists, seeded sample of floats and texts
        keep = [c for c in cases if c[0] not in ("float", "text")]
        fl = [c for c in cases if c[0] == "float"]
        tx = [c for c in cases if c[0] == "text"]
        rnd.shuffle(fl)
        cases = keep + fl[:400] + tx
    per = 80
    progs = [cases[i:i + per] for i in range(0, len(cases), per)]
    chk.rule = ("literals: integers (0, all 2^k and 2^k+-1, random up to 2^63-1, leading zeros, unary minus), decimal-comma literals (grid of short "
                "forms, random up to 17+17 digits, 53-bit rounding boundaries, long tails), every character escape and multi-byte characters, "
                "ALL texts of length <= %d over the fragment alphabet %r plus adjacent-escape patterns, truth values, list literal forms; invalid: "
                "out-of-range integers, unknown escapes, over-long characters. Distinct by literal text; each is one observation. Oracle: Python int / "
                "correctly rounded float printed with %%.16g and decimal comma / independent escape decoder." % (4 if thorough else 3, [s for s, _ in TEXT_SYMS]))
    chk.assumptions = ["Kommazahl values are observed through their %.16g rendering", "locale shim de_DE.UTF-8"]
    with Scratch("c19") as sc:
        def work(job):
            k, batch = job
            lines = ['Binde "Duden/Ausgabe" ein.']
            exp = ""
            for j, (kind, src, val) in enumerate(batch):
                lines.append('Schreibe "#%d:".' % j)
                lines.append("Schreibe %s." % src)
                lines.append('Schreibe "#e\\n".')
                exp += "#%d:%s#e\n" % (j, val)
            d = os.path.join(sc.path, "p%d" % k)
            os.makedirs(d)
            sp = os.path.join(d, "m.ddp")
            open(sp, "w").write("\n".join(lines) + "\n")
            c = vlib.kddp_compile(sp, os.path.join(d, "m"))
            if c.timed_out:
                return k, batch, "inconclusive", None, None
            if c.rc != 0:
                return k, batch, "compile", c.err, exp
            r = vlib.run_exe(os.path.join(d, "m"))
            if r.timed_out:
                return k, batch, "inconclusive", None, None
            return k, batch, "ran", r, exp

        for k, batch, st, r, exp in vlib.pmap(work, list(enumerate(progs))):
            if st == "inconclusive":
                chk.inconclusive += 1
                continue
            for kind, src, val in batch:
                chk.note_case((kind, src))
                chk.count("literals_" + kind)
            if st == "compile":
                # attribute: find the literal on the reported line
                m = re.search(r"\(Z: (\d+), S:", r)
                culprit = None
                if m:
                    ln = int(m.group(1))
                    j = (ln - 2) // 3
                    if 0 <= j < len(batch):
                        culprit = batch[j]
                chk.violation({"kind": "valid literal rejected", "literal_kind": culprit[0] if culprit else "?", "literal": (culprit[1] if culprit else "?")[:60]},
                              files={"stderr.txt": r[-4000:], "batch.json": json.dumps(batch, ensure_ascii=False)}, text="a program of valid literals did not compile")
                continue
            got = r.out
            if got == exp and r.rc == 0:
                continue
            # attribute per observation
            parts = dict((int(m.group(1)), m.group(2)) for m in re.finditer(r"#(\d+):(.*?)#e\n", got, re.S))
            for j, (kind, src, val) in enumerate(batch):
                if parts.get(j) != val:
                    chk.violation({"kind": "literal value", "literal_kind": kind, "literal": src[:60]},
                                  files={"case.json": json.dumps({"literal": src, "expected": val, "got": parts.get(j)}, ensure_ascii=False)},
                                  text="literal %s printed %r, expected %r" % (src[:80], parts.get(j), val))
                    break
        chk.sample({"literal": ints[5][0], "expected_output": ints[5][1]})
        chk.sample({"literal": floats[7][0], "expected_output": floats[7][1]})
        chk.sample({"literal": texts[200][0], "expected_output": texts[200][1]})

        # invalid literals: the front end must reject each (>= 1 error diagnostic, faulty), kddp exit != 0 for a sample
        invalid = [("int", s) for s in bad_ints] + [("char", s) for s in bad_chars] + [("text", s) for s in bad_texts]
        if not thorough:
            bt = [c for c in invalid if c[0] == "text"]
            rnd.shuffle(bt)
            invalid = [c for c in invalid if c[0] != "text"] + bt[:120]
        chunks = [invalid[i::vlib.NCPU] for i in range(vlib.NCPU)]

        def inv_work(args):
            w, chunk = args
            pr = Probe(sc.path)
            outs = []
            for n, (kind, src) in enumerate(chunk):
                d = os.path.join(sc.path, "inv%d_%d" % (w, n))
                os.makedirs(d)
                sp = os.path.join(d, "m.ddp")
                decl = {"int": "Die Zahl x ist %s.", "char": "Der Buchstabe x ist %s.", "text": "Der Text x ist %s."}[kind]
                open(sp, "w").write('Binde "Duden/Ausgabe" ein.\n' + (decl % src) + "\nSchreibe x.\n")
                try:
                    r = pr.request({"op": "parse", "id": "inv", "file": sp})
                except ProbeDied:
                    r = {"panic": "died"}
                cli = None
                if n % 6 == 0:
                    c = vlib.kddp_compile(sp, os.path.join(d, "m"))
                    cli = (c.rc, os.path.exists(os.path.join(d, "m")))
                outs.append((kind, src, r, cli))
            pr.close()
            return outs

        for outs in vlib.pmap(inv_work, list(enumerate(chunks))):
            for kind, src, r, cli in outs:
                chk.note_case(("invalid", kind, src))
                chk.count("invalid_literals")
                if r.get("panic"):
                    chk.count("frontend_crash_left_to_C03")
                    continue
                if not (r.get("errors", 0) >= 1 and r.get("faulty")):
                    chk.violation({"kind": "invalid literal accepted", "literal_kind": kind, "literal": src[:60]},
                                  files={"result.json": json.dumps(r, indent=1, ensure_ascii=False)}, text="invalid %s literal %s: errors=%s faulty=%s" % (kind, src, r.get("errors"), r.get("faulty")))
                if cli is not None and (cli[0] == 0 or cli[1]):
                    chk.violation({"kind": "invalid literal compiled", "literal_kind": kind, "literal": src[:60]}, files={}, text="kddp rc=%s exe=%s for %s" % (cli[0], cli[1], src))
    return chk.finish(min_events=500)


def replay(path):
    print("replay: re-run ./check C19 (cases are deterministic)")
    return 0
