"""C15 helper: sets of generic operator overloads vs. their textual specialisations.

One operator is overloaded by TWO generic functions whose parameter shapes differ in which positions are generic (T, T Liste,
Zahl, Referenz). Each overload returns its own number, so the printed value names the overload that was chosen. The operator is
then applied to every combination of operands (Punkt, Punkt Liste, Zahl); a combination that no overload fits must fall back to
the built-in operator or be rejected - in G exactly as in M. M is G with T replaced by the concrete types the uses need.
pairs() -> [(name, G files, M files)]"""
import itertools

OPS = {"verkettet mit": "%s verkettet mit %s", "plus": "%s plus %s", "minus": "%s minus %s", "mal": "%s mal %s", "gleich": "%s gleich %s ist", "kleiner als": "%s kleiner als %s ist"}
SHAPES = {"TL,Z": ("T Liste", "Zahl"), "T,T": ("T", "T"), "T,TL": ("T", "T Liste"), "TL,TL": ("T Liste", "T Liste"), "TL,T": ("T Liste", "T"), "Z,TL": ("Zahl", "T Liste"),
          "TR,T": ("T Referenz", "T"), "T,Z": ("T", "Zahl")}
HEAD = '''Binde "Duden/Ausgabe" ein.
Wir nennen die Kombination aus
	der Zahl z mit Standardwert 0,
einen Punkt, und erstellen sie so:
	"Punkt <z>"
'''
OPERANDS = {"p": "p1", "q": "p2", "pl": "ps", "ql": "qs", "z": "3"}
SETUP = '''Der Punkt p1 ist Punkt 1.
Der Punkt p2 ist Punkt 2.
Die Punkt Liste ps ist eine Liste, die aus (Punkt 1), (Punkt 2) besteht.
Die Punkt Liste qs ist eine Liste, die aus (Punkt 7) besteht.
'''


def decl(name, op, shape, number, T=None):
    a, b = SHAPES[shape]
    gen = "generische " if T is None else ""
    if T is not None:
        ref = (T[:-len("Liste")] + "Listen Referenz") if T.endswith("Liste") else T + " Referenz"
        sub = lambda t: t.replace("T Liste", T + " Liste").replace("T Referenz", ref) if t != "T" else T
        a, b = sub(a), sub(b)
    ret = "einen Wahrheitswert" if op in ("gleich", "kleiner als") else "eine Zahl"
    val = ("wahr" if number % 2 else "falsch") if op in ("gleich", "kleiner als") else str(number)
    return ("Die %sFunktion %s mit den Parametern a und b vom Typ %s und %s, gibt %s zurück, macht:\n\tGib %s zurück.\nUnd überlädt den \"%s\" Operator.\n" % (
        gen, name, a, b, ret, val, op))


def pairs():
    out = []
    # (T, T Liste)+(T, T) and (T Liste, T)+(T Liste, T Liste) are not used: the front end treats such generic overloads as duplicates
    # of each other at the declaration (T unifies with T Liste), which a textual specialisation cannot mirror
    shape_pairs = [("TL,Z", "T,T"), ("T,T", "TL,Z"), ("Z,TL", "T,T"), ("TR,T", "T,T"), ("T,Z", "T,T"), ("TL,Z", "TL,TL"), ("T,Z", "TL,TL"), ("Z,TL", "TL,Z")]
    for op, tpl in OPS.items():
        for s1, s2 in shape_pairs:
            for use_a, use_b in [("pl", "z"), ("pl", "ql"), ("p", "q"), ("p", "pl"), ("pl", "p"), ("z", "pl"), ("p", "z")]:
                expr = tpl % (OPERANDS[use_a], OPERANDS[use_b])
                is_bool = op in ("gleich", "kleiner als")
                use = ("Schreibe (%s) auf eine Zeile.\n" % expr) if is_bool else ("Die Zahl r ist %s.\nSchreibe r auf eine Zeile.\n" % expr)
                G = HEAD + decl("ueber_eins", op, s1, 11) + decl("ueber_zwei", op, s2, 22) + SETUP + use
                # specialisations: T bound to Punkt and to Punkt Liste for each overload (every instantiation a use could need)
                M = HEAD
                k = 0
                for nm, sh, num in (("ueber_eins", s1, 11), ("ueber_zwei", s2, 22)):
                    for T in ("Punkt", "Punkt Liste"):
                        if "Liste" in T and ("T Liste" in SHAPES[sh][0] or "T Liste" in SHAPES[sh][1]):
                            continue     # no nested lists in the surface syntax
                        k += 1
                        M += decl("%s_%d" % (nm, k), op, sh, num, T=T)
                M += SETUP + use
                out.append(("%s|%s+%s|%s,%s" % (op, s1, s2, use_a, use_b), {"main.ddp": G}, {"main.ddp": M}))
    return out
