"""C14 Type equivalence is lawful; aliases are transparent, definitions opaque.

Part 1 (in-process, exhaustive): `ddpprobe types` builds the closure of {6 primitives, Variable, two
Kombinationen with the same name and fields} under list-of / alias-of (x2) / definition-of (x2) with the
real ddptypes constructors and checks, against a canonical form computed from the harness's own
construction terms: Equal <=> same canonical form, reflexivity, symmetry, transitivity on all triples,
alias ~ target, definition !~ base / sibling, the Is* predicates, GetUnderlying / TrueUnderlying /
DeepEqual / ParamTypesEqual. A seeded sample of raw observations is re-judged here in Python.

Part 2 (parser level, real syntax): the depth-2 (thorough: depth-3) closure is declared with
`Wir nennen ... auch ...` / `Wir definieren ... als ...` and for every ordered pair (S,T) the real
front end decides `Der T x ist <e:S>.`, `Speichere <e:S> in x.` and `(<e:S>) als T`, with
e = `der Standardwert von einem S`. Oracle: initialisation == assignment (model-free); acceptance ==
equivalent or both numeric or target Variable; a cast that involves a definition is accepted exactly
to/from its own base type."""
import json
import os
import random
import subprocess
import threading

import vlib
from vlib import Check, Scratch, Probe, ProbeDied, log

PID = "C14"
TYP_BAD_ASSIGNEMENT = 3001
TYP_BAD_CAST = 3004

# ------------------------------------------------------------------ part 1: in-process laws


def run_types(args):
    p = subprocess.run([vlib.PROBE, "types"] + args, stdout=subprocess.PIPE, stderr=subprocess.PIPE, env=vlib.base_env())
    agg, bad, samples = None, [], []
    for l in p.stdout.decode("utf-8", "replace").split("\n"):
        if l.startswith("AGG "):
            agg = json.loads(l[4:])
        elif l.startswith("BAD "):
            bad.append(json.loads(l[4:]))
        elif l.startswith("SAMPLE "):
            samples.append(json.loads(l[7:]))
    return args, p.returncode, agg, bad, samples, p.stderr.decode("utf-8", "replace")[-3000:]


def parse_term(s):
    """construction term of the worker -> nested tuple"""
    pos = 0

    def rec():
        nonlocal pos
        if s.startswith("P:", pos):
            j = pos
            while j < len(s) and s[j] not in "()":
                j += 1
            t = ("p", s[pos + 2:j])
            pos = j
            return t
        if s.startswith("V", pos):
            pos += 1
            return ("v",)
        if s.startswith("S#", pos):
            j = pos + 2
            while j < len(s) and s[j].isdigit():
                j += 1
            t = ("k", int(s[pos + 2:j]))
            pos = j
            return t
        if s.startswith("L(", pos):
            pos += 2
            inner = rec()
            assert s[pos] == ")"
            pos += 1
            return ("l", inner)
        if s[pos] in "AD" and s[pos + 1] == "#":
            kind = s[pos].lower()
            j = pos + 2
            while s[j].isdigit():
                j += 1
            ident = int(s[pos + 2:j])
            assert s[j] == "("
            pos = j + 1
            inner = rec()
            assert s[pos] == ")"
            pos += 1
            return (kind, ident, inner)
        raise ValueError("bad term %r at %d" % (s, pos))

    t = rec()
    assert pos == len(s), s
    return t


def canon(t, strip_defs=False):
    """aliases stripped everywhere; lists structural; definitions and Kombinationen nominal"""
    k = t[0]
    if k in ("p", "v", "k"):
        return t
    if k == "l":
        return ("l", canon(t[1], strip_defs))
    if k == "a":
        return canon(t[2], strip_defs)
    if k == "d":
        return canon(t[2], strip_defs) if strip_defs else ("d", t[1])
    if k == "g":       # instantiation of the generic Kombination Box: structural in its type argument
        return ("g", canon(t[1], strip_defs))
    raise ValueError(t)


NUMERIC = {("p", "Zahl"), ("p", "Kommazahl"), ("p", "Byte")}


def rejudge_samples(chk, samples):
    for s in samples:
        a, b = parse_term(s["a"]), parse_term(s["b"])
        ca, cb = canon(a), canon(b)
        want = {"equal": ca == cb, "deep": canon(a, True) == canon(b, True), "num_a": ca in NUMERIC, "list_a": ca[0] == "l", "def_a": ca[0] == "d"}
        chk.count("python_rejudged_observations")
        for k, w in want.items():
            if s[k] != w:
                chk.violation({"level": "ddptypes", "law": "python re-judge: " + k, "a_shape": shape_of_term(a), "b_shape": shape_of_term(b)},
                              files={"sample.json": json.dumps(s, indent=1)}, text="%s(%s, %s) = %s, canonical form says %s" % (k, s["a"], s["b"], s[k], w))


def shape_of_term(t):
    k = t[0]
    if k == "p":
        return "num" if t in NUMERIC else "prim"
    if k == "v":
        return "Var"
    if k == "k":
        return "K"
    if k == "l":
        return "L(%s)" % shape_of_term(t[1])
    if k == "g":
        return "G(%s)" % shape_of_term(t[1])
    return "%s(%s)" % (k.upper(), shape_of_term(t[2]))


def part1(chk, tier):
    pd, td, ns = (3, 3, 4000) if tier == "quick" else (4, 3, 40000)
    parts = vlib.NCPU
    jobs = [["--depth", str(pd), "--pairs", "--sample", str(ns), "--seed", str(chk.seed)]]
    for p in range(parts):
        jobs.append(["--depth", str(td), "--triples", "--part", str(p), "--parts", str(parts)])
    res = vlib.pmap(run_types, jobs)
    tot = {}
    for args, rc, agg, bad, samples, err in res:
        if agg is None:
            chk.violation({"level": "ddptypes", "law": "worker died", "stderr": vlib.classify_death(err)[0]}, files={"stderr.txt": err, "args.json": json.dumps(args)},
                          text="ddpprobe types died")
            continue
        for b in bad:
            chk.violation({"level": "ddptypes", "law": b["law"], "a_shape": shape_of_term(parse_term(b["a"])),
                           "b_shape": shape_of_term(parse_term(b["b"])) if b.get("b") else ""},
                          files={"bad.json": json.dumps(b, indent=1, ensure_ascii=False), "args.json": json.dumps(args)},
                          text="%s: a=%s b=%s c=%s got %s want %s" % (b["law"], b["a"], b.get("b"), b.get("c"), b["got"], b["want"]))
        rejudge_samples(chk, samples)
        if "--pairs" in args:
            tot["pairs"] = agg
        else:
            t = tot.setdefault("triples", {"triples": 0, "triples_with_premise": 0, "triples_with_premise_deep": 0, "types": agg["types"], "depth": agg["depth"]})
            for k in ("triples", "triples_with_premise", "triples_with_premise_deep"):
                t[k] += agg[k]
    if "pairs" in tot:
        a = tot["pairs"]
        chk.evaluations += a["pairs"]
        chk.distinct_extra += a["pairs"]  # ordered pairs are enumerated without repetition
        chk.extra["ddptypes_pairs"] = {k: a[k] for k in ("types", "depth", "types_by_kind", "canon_classes", "pairs", "pairs_equal", "pairs_deep_equal", "alias_target_pairs",
                                                        "definition_base_pairs", "definition_sibling_pairs", "unary_law_evaluations", "congruence_evaluations", "real_predicate_calls")}
    if "triples" in tot:
        chk.evaluations += tot["triples"]["triples"]
        chk.extra["ddptypes_triples"] = tot["triples"]
    return pd, td


# ------------------------------------------------------------------ part 2: parser level

NOM = {"m": "Der", "f": "Die", "n": "Das"}
DAT = {"m": "einem", "f": "einer", "n": "einem"}
AKK = {"m": "einen", "f": "eine", "n": "ein"}
PRIMS = [("Zahl", "f", "Zahlen Liste"), ("Kommazahl", "f", "Kommazahlen Liste"), ("Byte", "m", "Byte Liste"), ("Wahrheitswert", "m", "Wahrheitswert Liste"),
         ("Buchstabe", "m", "Buchstaben Liste"), ("Text", "m", "Text Liste"), ("Variable", "f", "Variablen Liste")]
STRUCT_DECL = "Wir nennen die Kombination aus\n\tder Zahl a mit Standardwert 1,\n\tdem Text b mit Standardwert \"b\",\neinen %s.\n"


class Ty:
    __slots__ = ("idx", "kind", "name", "gender", "term", "canon", "depth", "operand", "listname", "decl", "named")

    def __init__(self, **kw):
        for k in self.__slots__:
            setattr(self, k, kw.get(k))


def build_closure(depth):
    """closure that the surface syntax can write: lists only of primitives, Variable and named types"""
    tys = []

    def add(**kw):
        t = Ty(idx=len(tys), **kw)
        t.canon = canon(t.term)
        tys.append(t)
        return t

    for name, g, listname in PRIMS:
        term = ("v",) if name == "Variable" else ("p", name)
        add(kind="base", name=name, gender=g, term=term, depth=0, listname=listname, named=True)
    for i in (1, 2):
        add(kind="k", name="K%d" % i, gender="m", term=("k", i), depth=0, listname="K%d Liste" % i, decl=STRUCT_DECL % ("K%d" % i), named=True)
    lo, hi = 0, len(tys)
    gcycle = "mfn"
    ident = 10
    for d in range(1, depth + 1):
        for i in range(lo, hi):
            b = tys[i]
            if b.named:  # X Liste
                add(kind="l", name=b.listname, gender="f", term=("l", b.term), depth=d, operand=i, named=False)
            ident += 1
            g = gcycle[ident % 3]
            n = "Ali%d" % ident
            add(kind="a", name=n, gender=g, term=("a", ident, b.term), depth=d, operand=i, listname=n + " Liste", named=True,
                decl="Wir nennen %s %s auch %s %s.\n" % (AKK[b.gender], b.name, AKK[g], n))
            if b.canon != ("v",):  # the language forbids definitions of Variable
                ident += 1
                g = gcycle[ident % 3]
                n = "Def%d" % ident
                add(kind="d", name=n, gender=g, term=("d", ident, b.term), depth=d, operand=i, listname=n + " Liste", named=True,
                    decl="Wir definieren %s %s als %s %s.\n" % (AKK[g], n, AKK[b.gender], b.name))
        lo, hi = hi, len(tys)
    # instantiations of one generic Kombination with every type of depth <= 1 (two instantiations are the same type exactly when
    # their type arguments are equivalent: an alias is transparent inside, a definition is not)
    for i in range(len(tys)):
        b = tys[i]
        if b.depth <= 1:
            add(kind="g", name=("%s-Box" % b.name) if b.named else ("(%s)-Box" % b.name), gender="f", term=("g", b.term), depth=b.depth + 1, operand=i, named=False)
    return tys


def defval(t):
    return "der Standardwert von %s %s" % (DAT[t.gender], t.name)


def model_assign(s, t):
    return s.canon == t.canon or (s.canon in NUMERIC and t.canon in NUMERIC) or t.canon == ("v",)


def def_base_canon(tys, t):
    """canonical form of the base of the definition that t is equivalent to"""
    x = t
    while x.kind == "a":
        x = tys[x.operand]
    assert x.kind == "d"
    return tys[x.operand].canon


def model_cast(tys, s, t):
    """None = not judged here (no definition involved, Variable involved, or identity)"""
    sd, td = s.canon[0] == "d", t.canon[0] == "d"
    if not (sd or td) or s.canon == ("v",) or t.canon == ("v",) or s.canon == t.canon:
        return None
    return (sd and def_base_canon(tys, s) == t.canon) or (td and def_base_canon(tys, t) == s.canon)


def needed(tys, idxs):
    """indices of all types that must be declared for the given ones (operands first)"""
    need = set()

    def rec(i):
        if i in need:
            return
        if tys[i].operand is not None:
            rec(tys[i].operand)
        need.add(i)
    for i in idxs:
        rec(i)
    return sorted(need)


def make_program(tys, pairs, declare_all):
    """returns (source, {line: (pair_index, position)}, control_lines)"""
    used = sorted({i for p in pairs for i in p})
    decl = range(len(tys)) if declare_all else needed(tys, used)
    lines = []
    if any(tys[i].kind == "g" for i in decl):
        lines += ["Wir nennen die generische Kombination aus", "\tdem T inhalt,", "eine Box."]
    for i in decl:
        if tys[i].decl:
            lines.extend(tys[i].decl.rstrip("\n").split("\n"))
    control = {}
    for i in sorted({t for _, t in pairs}):
        t = tys[i]
        lines.append("%s %s h%d ist %s." % (NOM[t.gender], t.name, i, defval(t)))
        control[len(lines)] = i
    where = {}
    for n, (si, ti) in enumerate(pairs):
        s, t = tys[si], tys[ti]
        lines.append("%s %s i%d ist %s." % (NOM[t.gender], t.name, n, defval(s)))
        where[len(lines)] = (n, "init")
        lines.append("Speichere %s in h%d." % (defval(s), ti))
        where[len(lines)] = (n, "assign")
        lines.append("Die Variable c%d ist (%s) als %s." % (n, defval(s), t.name))
        where[len(lines)] = (n, "cast")
    return "\n".join(lines) + "\n", where, control


class Harness(Exception):
    pass


_tl = threading.local()
_probes = []


def thread_probe(sc):
    """one ddpprobe child per worker thread, reused for all its programs"""
    pr = getattr(_tl, "probe", None)
    if pr is None:
        pr = _tl.probe = Probe(sc.path)
        _probes.append(pr)
    return pr


def close_probes():
    for pr in _probes:
        pr.close()
    del _probes[:]
    _tl.__dict__.clear()


def observe(sc, tys, pairs, tag, declare_all=True, bulk=False):
    """{pair_index: {position: accepted}} as decided by the real front end"""
    src, where, control = make_program(tys, pairs, declare_all)
    d = sc.sub(tag)
    f = os.path.join(d, "main.ddp")
    vlib.write_file(f, src)
    pr = thread_probe(sc)
    if bulk:
        # `repeat` with n=1 is one parser.Parse like `parse`, without rendering every diagnostic against the source
        r = pr.request({"op": "repeat", "id": tag, "file": f, "n": 1}, wall_s=300)["first"]
    else:
        r = pr.request({"op": "parse", "id": tag, "file": f}, wall_s=300)
    if r.get("panic") or r.get("err") or r.get("read_error"):
        raise Harness("front end did not return normally on %s: %s" % (tag, r.get("panic") or r.get("err") or r.get("read_error")))
    obs = {n: {"init": True, "assign": True, "cast": True} for n in range(len(pairs))}
    for dg in r.get("diags") or []:
        if dg["level"] != 2:
            continue
        w = where.get(dg["l1"])
        expected_code = {"init": TYP_BAD_ASSIGNEMENT, "assign": TYP_BAD_ASSIGNEMENT, "cast": TYP_BAD_CAST}.get(w[1]) if w else None
        if w is None or dg["code"] != expected_code or not dg["file"].endswith("main.ddp"):
            # a diagnostic on a declaration / control line or of another kind: the generated text is not what the oracle assumes
            raise Harness("unexpected diagnostic %d at line %d (%s): %s\n%s" % (dg["code"], dg["l1"], w, dg["msg"], src.split("\n")[dg["l1"] - 1]))
        obs[w[0]][w[1]] = False
    return obs, src


def shape(t):
    return shape_of_term(t.term)


def judge(chk, tys, pair, o, src, confirm=None):
    """compares one observation with the oracle; confirm(pair) re-observes the pair alone in its own program"""
    s, t = tys[pair[0]], tys[pair[1]]
    exp = model_assign(s, t)
    expc = model_cast(tys, s, t)
    problems = []
    if o["init"] != o["assign"]:
        problems.append(("initialisation and assignment agree", "init=%s assign=%s" % (acc(o["init"]), acc(o["assign"])), "equal"))
    if o["init"] != exp:
        problems.append(("initialisation accepts exactly: equivalent, numeric for numeric, anything for Variable", acc(o["init"]), acc(exp)))
    if o["assign"] != exp:
        problems.append(("assignment accepts exactly: equivalent, numeric for numeric, anything for Variable", acc(o["assign"]), acc(exp)))
    if expc is not None and o["cast"] != expc:
        problems.append(("a definition converts exactly to and from its own base type", acc(o["cast"]), acc(expc)))
    if problems and confirm is not None:
        o2, src2 = confirm(pair)
        chk.count("disagreements_reverified_alone")
        return judge(chk, tys, pair, o2, src2, None)
    for law, got, want in problems:
        chk.violation({"level": "parser", "law": law, "source": shape(s), "target": shape(t), "got": got, "want": want},
                      files={"main.ddp": src, "pair.json": json.dumps({"source": s.name, "target": t.name, "source_term": repr(s.term), "target_term": repr(t.term),
                                                                        "observed": o, "expected_assign": exp, "expected_cast": expc}, indent=1)},
                      text="source %s (%s), target %s (%s): %s: got %s, want %s" % (s.name, shape(s), t.name, shape(t), law, got, want))
    return not problems


def acc(b):
    return "accepted" if b else "rejected"


def part2(chk, tier, sc):
    depth = 2 if tier == "quick" else 3
    tys = build_closure(depth)
    n = len(tys)
    rng = random.Random(chk.seed * 7919 + 14)
    allpairs = [(i, j) for i in range(n) for j in range(n)]
    pairs = allpairs
    rng.shuffle(pairs)  # every program sees a mix of types
    per = 120
    chunks = [pairs[k:k + per] for k in range(0, len(pairs), per)]

    def confirm(pair):
        return (lambda r: (r[0][0], r[1]))(observe(sc, tys, [pair], "single-%d-%d" % pair, declare_all=False))

    def job(k):
        try:
            obs, src = observe(sc, tys, chunks[k], "prog%d" % k, declare_all=False, bulk=True)
        except (Harness, ProbeDied) as e:
            return k, None, str(e)
        return k, obs, src

    results = vlib.pmap(job, range(len(chunks)))
    cells = {"accepted": 0, "rejected": 0}
    for k, obs, src in results:
        if obs is None:
            chk.inconclusive += len(chunks[k])
            chk.count("harness_failures")
            log("[C14] program %d not usable: %s" % (k, src[:600]))
            continue
        for n_, pair in enumerate(chunks[k]):
            o = obs[n_]
            s, t = tys[pair[0]], tys[pair[1]]
            chk.note_case("pair %d %d" % pair)
            for pos in ("init", "assign", "cast"):
                chk.count("%s_%s" % (pos, acc(o[pos])))
            ec = model_cast(tys, s, t)
            chk.count("casts_judged" if ec is not None else "casts_not_judged")
            if ec:
                chk.count("definition_base_casts_expected_accepted")
            try:
                ok = judge(chk, tys, pair, o, src, confirm)
            except (Harness, ProbeDied) as e:
                chk.inconclusive += 1
                log("[C14] re-verification failed: %s" % e)
                continue
            if len(chk.samples) < 6 and (pair[0] * 31 + pair[1]) % 97 == 0 and s.depth > 0 and t.depth > 0:
                chk.sample({"source": "%s = %s" % (s.name, shape(s)), "target": "%s = %s" % (t.name, shape(t)),
                            "init": "%s %s i ist %s." % (NOM[t.gender], t.name, defval(s)), "observed": {p: acc(o[p]) for p in o},
                            "expected_init_assign": acc(model_assign(s, t)), "expected_cast": "not judged" if ec is None else acc(ec)})
    chk.extra["parser_closure"] = {"depth": depth, "types": n, "by_kind": {k: sum(1 for t in tys if t.kind == k) for k in ("base", "k", "l", "a", "d", "g")},
                                   "ordered_pairs_total": n * n, "ordered_pairs_tested": len(pairs), "programs": len(chunks)}
    return depth, n, len(pairs)


def run(tier):
    vlib.ensure_build(frontend_only=True)
    chk = Check(PID, tier)
    pd, td = part1(chk, tier)
    with Scratch("c14") as sc:
        try:
            depth, n, npairs = part2(chk, tier, sc)
        finally:
            close_probes()
    chk.rule = ("part 1 (exhaustive): all ordered pairs of the depth-%d closure and all ordered triples of the depth-%d closure of {Zahl, Kommazahl, Byte, Wahrheitswert, "
                "Buchstabe, Text, Variable, two same-named Kombinationen} under list-of, alias-of (two siblings), definition-of (two siblings), built with the real ddptypes "
                "constructors; part 2: %d ordered pairs (source, target) of the %d types of the depth-%d closure expressible in the surface syntax, each in three positions "
                "(initialisation, assignment, cast). A pair counts as one evaluation, pairs are pairwise distinct." % (pd, td, npairs, n, depth))
    chk.extra.update({"exhaustive": True, "exhaustive_scope": "ordered pairs / triples of the stated constructor closures (in-process and parser level)"})
    chk.assumptions = [
        "the source value is always `der Standardwert von einem S` (never 'nothing'); literals are not used as sources",
        "list types are only written as `X Liste` with X a primitive, Variable or a named type (the syntax has no list-of-list), definitions of Variable are not generated (the language forbids them)",
        "casts are judged only when source or target is equivalent to a definition; casts to/from Variable and identity casts (source equivalent to target) are not judged",
        "DeepEqual, TrueUnderlying, GetUnderlying, the Is* predicates and ParamTypesEqual are judged against their documented meaning (doc comments in src/ddptypes)",
    ]
    return chk.finish(min_events=10000)


def replay(path):
    vlib.ensure_build(frontend_only=True)
    v = json.load(open(os.path.join(path, "violation.json")))
    sig = v["signature"]
    if sig.get("level") == "parser":
        pj = json.load(open(os.path.join(path, "pair.json")))
        chk = Check(PID, "replay")
        tys = build_closure(3)
        byname = {t.name: t for t in tys}
        s, t = byname.get(pj["source"]), byname.get(pj["target"])
        if s is None or t is None or repr(s.term) != pj["source_term"] or repr(t.term) != pj["target_term"]:
            print("replay: the pair cannot be rebuilt from the closure")
            return 2
        with Scratch("c14r") as sc:
            try:
                obs, src = observe(sc, tys, [(s.idx, t.idx)], "replay", declare_all=False)
                ok = judge(chk, tys, (s.idx, t.idx), obs[0], src, None)
            finally:
                close_probes()
        return 0 if ok and not chk.violations and not chk.known_hits else 1
    # in-process laws: re-run the sweep that found it
    args = json.load(open(os.path.join(path, "args.json"))) if os.path.exists(os.path.join(path, "args.json")) else ["--depth", "3", "--pairs"]
    _, rc, agg, bad, samples, err = run_types([a for a in args])
    if agg is None or bad:
        print("VIOLATION property=%s replay=%s" % (PID, path))
        return 1
    chk = Check(PID, "replay")
    rejudge_samples(chk, samples)
    return 1 if chk.violations else 0
