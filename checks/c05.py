"""C05 Compiled programs release every heap block exactly once.
Monitors on executions of generated programs (ownership-biased): (1) the allocation ledger interposed on
ddp_reallocate (exactly-once release, true size, nothing live at normal exit), (2) valgrind memcheck on the
unmodified optimised executable, (3) ASan+UBSan build of runtime/stdlib linked with the object kddp emits, (4) asan_ir: the LLVM IR kddp emits for
the whole program, instrumented by clang's AddressSanitizer (every load/store of the generated code is checked), linked with (3)'s libraries.
All must be silent. A violating program is reduced and its shape named in the signature."""
import json
import os
import random
import re

import vlib
from vlib import Check, Scratch
from ddpmodel import *
from ddpmodel.gen import StmtGen, wrap_in_function
from ddpmodel import runner
from checks import progcheck

PID = "C05"


class OwnGen(StmtGen):
    """statement generator biased to heap-owning values, temporaries and early exits"""

    def __init__(self, rnd):
        super().__init__(rnd)
        heavy = [T, L(Z), L(T), L(K), L(C), self.struct_ty, L(self.struct_ty), V]
        self.types = heavy * 3 + [Z, W, C, K]

    # a part of a TEMPORARY Kombination (struct literal, function result, element of a temporary list) as an arm of a 'falls'
    # expression: each arm is evaluated in a scope of its own, so the part has to be moved out of (or copied from) a holder that
    # is released when the arm ends; the same for the other consumers that open scopes (conditions, loop collections)
    def temp_struct(self, d):
        r = self.r
        fs = [f for f in self.prog.funcs if f.ret == self.struct_ty and not any(p.ref for p in f.params)]
        roll = r.random()
        if fs and roll < 0.35:
            f = r.choice(fs)
            return Call(f, [self.expr(p.ty, max(0, d - 2)) for p in f.params], self.struct_ty)
        if roll < 0.55:
            return Bin("index", ListLit(L(self.struct_ty), [self.lit(self.struct_ty) for _ in range(r.randint(1, 2))]), Lit(Z, 1), self.struct_ty)
        return StructLit(self.struct_ty, [self.lit(Z), self.lit(T), self.lit(L(Z))])

    def temp_field(self, ty, d):
        return Field(self.temp_struct(d), {T: "name", L(Z): "werte"}[ty], ty)

    def expr(self, ty, d):
        r = self.r
        if d > 0 and self.struct_ty is not None and ty in (T, L(Z)) and r.random() < 0.14:
            self.cells.add(("temp_field", str(ty)))
            if r.random() < 0.7:
                a = self.temp_field(ty, d) if r.random() < 0.7 else self.leaf(ty)
                b = self.temp_field(ty, d) if (r.random() < 0.6 or not isinstance(a, Field)) else self.leaf(ty)
                self.cells.add(("falls_arm_is_part_of_temporary", str(ty)))
                return Ter("falls", a, self.expr(W, d - 1) if r.random() < 0.5 else self.leaf(W), b, ty)
            return self.temp_field(ty, d)
        return super().expr(ty, d)


def ledger_report(path):
    viol, summary, live = [], None, []
    try:
        for l in open(path, errors="replace"):
            if l.startswith("VIOLATION"):
                viol.append(l.strip())
            elif l.startswith("SUMMARY"):
                summary = dict(kv.split("=") for kv in l.split()[1:])
            elif l.startswith("LIVE"):
                live.append(l.strip())
    except OSError:
        pass
    return viol, summary, live


def memcheck_class(err):
    kinds = []
    for pat, name in [(r"Invalid free|free\(\): invalid|double free", "invalid free"), (r"Invalid read", "invalid read"), (r"Invalid write", "invalid write"),
                      (r"uninitialised", "uninitialised value"), (r"definitely lost|indirectly lost|possibly lost", "leak"), (r"Mismatched free", "mismatched free"),
                      (r"Process terminating|Segmentation fault", "crash")]:
        if re.search(pat, err):
            kinds.append(name)
    return "+".join(kinds) or "error"


def monitors(prog, workdir, O, which, exp):
    """returns (cls, detail). cls 'ok' or '<monitor>:<class>'"""
    os.makedirs(workdir, exist_ok=True)
    src = Printer(prog).program()
    sp = os.path.join(workdir, "m.ddp")
    open(sp, "w").write(src)
    detail = {"src": src, "O": O, "expected": {"out": exp[0], "rc": exp[1], "rt": exp[2]}}
    normal_exit = exp[2] is None
    if which == "ledger":
        exe = os.path.join(workdir, "m_led")
        c = vlib.kddp_compile(sp, exe, O=O, gcc_opts=vlib.ledger_gcc_opts())
        if c.timed_out:
            return "inconclusive", detail
        if c.rc != 0:
            return "compile:" + runner.compile_class(c.err), dict(detail, stderr=c.err[-2000:])
        lp = os.path.join(workdir, "ledger.txt")
        if os.path.exists(lp):
            os.unlink(lp)
        r = vlib.run_exe(exe, env_extra={"VERIF_LEDGER": lp})
        if r.timed_out:
            return "inconclusive", detail
        viol, summary, live = ledger_report(lp)
        detail.update({"ledger_violations": viol[:5], "ledger_summary": summary, "ledger_live": live[:5], "rc": r.rc, "stderr": r.err[:500]})
        if viol:
            kind = re.search(r"kind=(\S+)", viol[0]).group(1)
            return "ledger:" + kind, detail
        if r.rc < 0:
            return "ledger:crash signal %d" % -r.rc, detail
        if summary is None:
            return ("ledger:no summary (abnormal end)" if normal_exit else "ok"), detail
        if normal_exit and r.rc == 0 and int(summary.get("live_blocks", 0)) != 0:
            return "ledger:leak", detail
        return "ok", detail
    if which == "memcheck":
        exe = os.path.join(workdir, "m_mc")
        c = vlib.kddp_compile(sp, exe, O=O)
        if c.timed_out:
            return "inconclusive", detail
        if c.rc != 0:
            return "compile:" + runner.compile_class(c.err), dict(detail, stderr=c.err[-2000:])
        r = vlib.run_memcheck(exe)
        if r.timed_out:
            return "inconclusive", detail
        detail.update({"rc": r.rc, "valgrind": "\n".join(l for l in r.err.split("\n") if l.startswith("=="))[:3000]})
        if r.rc == 97 or "== Invalid" in r.err or "== Conditional jump" in r.err or "Process terminating" in r.err:
            cls = memcheck_class(r.err)
            if cls == "leak" and not normal_exit:
                return "ok", detail
            return "memcheck:" + cls, detail
        return "ok", detail
    if which in ("asan", "asan_ir"):
        exe = os.path.join(workdir, "m_" + which)
        if which == "asan_ir":
            stage, c = vlib.compile_asan_ir(sp, exe, O=O)
            if c.timed_out:
                return "inconclusive", detail
            if stage == "kddp":
                return "compile:" + runner.compile_class(c.err), dict(detail, stderr=c.err[-2000:])
            if stage != "ok":
                return "inconclusive", dict(detail, stage=stage, err=c.err[-500:])
        else:
            obj = os.path.join(workdir, "m_asan.o")
            c = vlib.kddp_compile(sp, obj, O=O)
            if c.timed_out:
                return "inconclusive", detail
            if c.rc != 0:
                return "compile:" + runner.compile_class(c.err), dict(detail, stderr=c.err[-2000:])
            l = vlib.link_asan(obj, exe)
            if l.rc != 0:
                return "inconclusive", dict(detail, link=l.err[-500:])
        r = vlib.run_exe(exe, env_extra=vlib.ASAN_ENV, wall_s=60, cpu_s=30)
        if r.timed_out:
            return "inconclusive", detail
        detail.update({"rc": r.rc, "asan": r.err[:3000]})
        m = re.search(r"ERROR: AddressSanitizer: (\S+)|runtime error: ([^\n]+)", r.err)
        if m:
            what = m.group(1) or ("ubsan " + re.sub(r"0x[0-9a-f]+|\d+", "N", m.group(2))[:60])
            fr = re.search(r"#\d+ \S+ in (ddp_\w+|\w+)", r.err)
            return "%s:%s%s" % (which, what, (" in " + fr.group(1)) if fr else ""), detail
        return "ok", detail
    raise ValueError(which)


def run(tier):
    vlib.ensure_build(asan=True)
    chk = Check(PID, tier)
    nprog = 60 if tier == "quick" else 1500
    chk.rule = ("seeded ownership-biased statement programs (Text, lists, lists of Text, Kombinationen with Text/list fields, lists of Kombinationen, Variable in "
                "every role: global, local, temporary, by-value and Referenz argument, return value, list element, field, loop collection/element; early return, "
                "break/continue from inner scopes, short-circuit operands, falls arms, discarded results; functions also forward declared / generic); every fourth program is one of C08's copy/alias programs. Monitors per program: allocation ledger at -O 0/1/2, "
                "valgrind memcheck at -O 1 (thorough: 0/1/2), ASan+UBSan runtime at -O 1 (every third program), ASan-instrumented emitted IR (every third program; thorough: all). Distinct by source hash; non-trivial = ledger saw >= 1 allocation.")
    chk.assumptions = ["leak rule only for executions that end through main's return", "a pointer the ledger never saw (obtained by library code through malloc) is counted, not judged",
                       "ASan leak detection is off (ledger and memcheck decide leaks)", "programs stay inside the reference model's domain (no runtime errors)"]
    plan = []
    for i in range(nprog):
        mons = [("ledger", 0), ("ledger", 1), ("ledger", 2), ("memcheck", 1)]
        if tier == "thorough":
            mons += [("memcheck", 0), ("memcheck", 2)]
        if i % 3 == 0:
            mons.append(("asan", 1))
        if i % 3 == 1 or tier == "thorough":
            mons.append(("asan_ir", 0))
        plan.append((i, mons))
    with Scratch("c05") as sc:
        def work(job):
            i, mons = job
            rnd = random.Random("%d/%s/%d" % (chk.seed, PID, i))
            if i % 4 == 3:
                # C08's copy/alias programs (by-value + Referenz arguments, callee forms, operator overloads, local holders):
                # the constructs where the compiler elides copies, i.e. where an ownership mistake frees twice or never
                from checks import c08
                prog = c08.build(rnd).prog
            else:
                g = OwnGen(rnd)
                local = rnd.random() < 0.35   # all variables local to one function
                prog = g.build(n_items=rnd.randint(10, 22), d=2, nest=rnd.randint(1, 3), n_funcs=rnd.randint(0, 2) if local else rnd.randint(1, 3), pure_funcs=local)
                if local:
                    wrap_in_function(prog, allow_funcs=True)
            try:
                exp = runner.expected(prog)
            except ModelDomain:
                return None
            out = []
            for which, O in mons:
                cls, det = monitors(prog, os.path.join(sc.path, "p%d" % i, "%s%d" % (which, O)), O, which, exp)
                out.append((which, O, cls, det))
            return i, prog, exp, out

        nviol = 0
        for r in vlib.pmap(work, plan):
            if r is None:
                chk.count("discarded_outside_model")
                continue
            i, prog, exp, outs = r
            allocs = 0
            for which, O, cls, det in outs:
                chk.count("executions_" + which)
                if which == "ledger" and det.get("ledger_summary"):
                    allocs = max(allocs, int(det["ledger_summary"].get("allocs", 0)))
                    chk.count("ledger_events", int(det["ledger_summary"].get("events", 0)))
                    chk.count("ledger_foreign_blocks", int(det["ledger_summary"].get("foreign", 0)))
                if cls == "ok":
                    continue
                if cls == "inconclusive":
                    chk.inconclusive += 1
                    continue
                nviol += 1
                if nviol > 6:
                    chk.count("further_failing_executions")
                    continue

                def judge_fn(q, wd, O_, which=which):
                    e = runner.expected(q)
                    return monitors(q, wd, O_, which, e)
                progcheck.handle_violation(chk, "memory", prog, cls, det, O, os.path.join(sc.path, "v%d_%s%d" % (i, which, O)), judge_fn=judge_fn,
                                           reduce_budget=50, extra_sig={"monitor": which})
            chk.note_case(hash(outs[0][3]["src"]), nontrivial=allocs > 0)
            if i < 2:
                chk.sample({"source_head": outs[0][3]["src"][-800:], "ledger_summary": outs[0][3].get("ledger_summary"), "verdicts": [(w, O, c) for w, O, c, _ in outs]})
    return chk.finish(min_events=10)


def replay(path):
    vlib.ensure_build(asan=True)
    v = json.load(open(os.path.join(path, "violation.json")))
    print("replay: compile witness.ddp and run under the monitor named in the signature:", v["signature"].get("monitor"))
    src = open(os.path.join(path, "witness.ddp")).read()
    with Scratch("c05r") as sc:
        sp = os.path.join(sc.path, "m.ddp")
        open(sp, "w").write(src)
        exe = os.path.join(sc.path, "m")
        c = vlib.kddp_compile(sp, exe, O=v["signature"].get("O", 1))
        if c.rc != 0:
            print("VIOLATION property=%s replay=%s" % (PID, path))
            return 1
        r = vlib.run_memcheck(exe)
        if r.rc == 97 or r.rc < 0:
            print("VIOLATION property=%s replay=%s" % (PID, path))
            return 1
    return 0
