"""C03 helper: grammar-combinatorial hostile programs.

Token-level mutants of the corpus rarely put a *well-formed* construct into a place where the parser, resolver or
typechecker assumes another kind of construct. This family enumerates such combinations systematically; every case is a
small program (sometimes with an imported module), well-formed or not - only totality of the front end is judged.

  A  alias declarations ("Der Alias ... steht für die Funktion N") for every kind of name N
  B  operator overload declarations for every operator name with 0..3 parameters, followed by uses of the operator
  C  a variable (or parameter) named like a type / function / constant, followed by uses of the shadowed thing
  D  every statement kind as the single statement of every one-line if / else / loop form
  E  selective imports of one name whose type mentions names that are not imported, used in several declaration forms

cases() -> list of (name, {relative path: text}, main file)
"""

PRE = '''Binde "Duden/Ausgabe" ein.
Wir nennen die Kombination aus
	der Zahl x mit Standardwert 0,
	dem Text n mit Standardwert "p",
einen Foo, und erstellen sie so:
	"ein Foo" oder
	"ein Foo mit <x>"
Wir nennen eine Foo Liste auch eine FooListe.
Wir definieren eine Nummer als eine Zahl.
Die Konstante konst ist 7.
Die Zahl glob ist 1.
Die Zahlen Liste liste ist eine Liste, die aus 1, 2 besteht.
Die Funktion foo gibt nichts zurück, macht:
	Verlasse die Funktion.
Und kann so benutzt werden:
	"foo"
Die Funktion wert mit dem Parameter a vom Typ Zahl, gibt eine Zahl zurück, macht:
	Gib a zurück.
Und kann so benutzt werden:
	"wert <a>"
Die generische Funktion gen mit dem Parameter a vom Typ T, gibt ein T zurück, macht:
	Gib a zurück.
Und kann so benutzt werden:
	"gen <a>"
'''

UNARY_OPS = ["Betrag", "Länge", "unäres minus", "nicht", "logisch nicht", "als", "Größe", "Standardwert"]
BINARY_OPS = ["und", "oder", "entweder ... oder", "verkettet mit", "plus", "minus", "mal", "durch", "an der Stelle", "hoch", "logarithmus", "logisch und",
              "logisch oder", "logisch kontra", "modulo", "links verschiebung", "rechts verschiebung", "gleich", "ungleich", "kleiner als", "größer als",
              "kleiner als, oder", "größer als, oder", "von", "bis zum", "ab dem"]
TERNARY_OPS = ["von bis", "zwischen", "falls"]
USES = ["Die Zahl u1 ist f1 als Zahl.", "Der Text u2 ist f1 als Text.", "Die Zahl u3 ist der Betrag von f1.", "Die Zahl u4 ist die Länge von f1.",
        "Der Foo u5 ist -f1.", "Der Wahrheitswert u6 ist nicht f1.", "Der Foo u7 ist f1 plus f2.", "Der Foo u8 ist f1 minus 1.", "Der Foo u9 ist f1 mal f2.",
        "Der Foo u10 ist f1 verkettet mit f2.", "Der Wahrheitswert u11 ist f1 kleiner als f2 ist.", "Der Wahrheitswert u12 ist f1 gleich f2 ist.",
        "Die Zahl u13 ist f1 an der Stelle 1.", "Der Foo u14 ist f1 im Bereich von 1 bis 2.", "Der Wahrheitswert u15 ist f1 zwischen f2 und f1 ist.",
        "Der Foo u16 ist f1 hoch f2.", "Der Foo u17 ist f1 logisch und f2.", "Der Foo u18 ist f1 um 1 Bit nach links verschoben.", "Der Foo u19 ist f1 bis zum 1. Element.",
        "Der Foo u20 ist f1 ab dem 1. Element.", "Der Foo u21 ist f1, falls wahr, ansonsten f2.", "Der Wahrheitswert u22 ist f1 und f2.", "Die Zahl u23 ist f1 modulo f2."]


def _params(n, typ="Foo"):
    names = ["a", "b", "c"][:n]
    if n == 0:
        return ""
    if n == 1:
        return " mit dem Parameter a vom Typ %s," % typ
    return " mit den Parametern %s vom Typ %s," % (", ".join(names[:-1]) + " und " + names[-1], ", ".join([typ] * (n - 1)) + " und " + typ)


def family_a():
    out = []
    names = {"struct": "Foo", "typealias": "FooListe", "typedef": "Nummer", "constant": "konst", "variable": "glob", "function": "foo", "generic": "gen",
             "undefined": "gibtsnicht", "keyword": "Zahl", "parameterised": "wert"}
    for kind, n in names.items():
        for alias in ('"mach es"', '"mach <a>"', '"mach <a> und <b>"', '""', '"<a>"'):
            out.append(("A:%s:%s" % (kind, alias), {"main.ddp": PRE + 'Der Alias %s steht für die Funktion %s.\nmach es.\n' % (alias, n)}, "main.ddp"))
    return out


def family_b():
    out = []
    ret_for = lambda op: "einen Wahrheitswert" if op in ("nicht", "gleich", "ungleich", "kleiner als", "größer als", "kleiner als, oder", "größer als, oder", "zwischen", "und", "oder") else \
        ("eine Zahl" if op in ("Länge", "Größe", "als") else "einen Foo")
    body_for = {"einen Wahrheitswert": "Gib wahr zurück.", "eine Zahl": "Gib 1 zurück.", "einen Foo": "Gib ein Foo zurück."}
    k = 0
    for op in UNARY_OPS + BINARY_OPS + TERNARY_OPS:
        for n in (0, 1, 2, 3, 4):
            if n == 4 and op not in ("als", "plus", "falls"):
                continue
            for ptyp in (["Foo"] if n != 1 else ["Foo", "Zahl", "T"]):
                k += 1
                ret = ret_for(op)
                gen = "generische " if ptyp == "T" else ""
                decl = "Die %sFunktion op%d%s gibt %s zurück, macht:\n\t%s\nUnd überlädt den \"%s\" Operator.\n" % (gen, k, _params(n, ptyp), ret, body_for[ret], op)
                src = PRE + decl + "Der Foo f1 ist ein Foo.\nDer Foo f2 ist ein Foo mit 2.\n" + "\n".join(USES) + "\n"
                out.append(("B:%s:%d:%s" % (op, n, ptyp), {"main.ddp": src}, "main.ddp"))
    return out


def family_c():
    out = []
    shadowers = {"struct": ("Foo", ["Der Foo a ist ein Foo.", "Die Zahl %s ist 1.", "Die Zahl r1 ist x von a.", "Der Foo b ist ein Foo mit 3.", "Der Text r2 ist n von b.",
                                    "Die Foo Liste fl ist eine leere Foo Liste.", "Der Foo c ist der Standardwert von einem Foo.", "Die Variable v ist a als Variable.",
                                    "Der Foo d ist v als Foo.", "Wenn v ein Foo ist, Schreibe 1."]),
                 "typealias": ("FooListe", ["Die FooListe a ist eine leere FooListe.", "Die Zahl %s ist 1.", "Die FooListe b ist eine leere FooListe.", "Die Zahl r1 ist die Länge von a.",
                                            "Die Variable v ist a als Variable.", "Die FooListe c ist v als FooListe."]),
                 "typedef": ("Nummer", ["Die Nummer a ist 1 als Nummer.", "Der Text %s ist \"t\".", "Die Nummer b ist 2 als Nummer.", "Die Zahl r1 ist a als Zahl.", "Die Nummer Liste nl ist eine leere Nummer Liste."]),
                 "function": ("foo", ["Die Zahl %s ist 1.", "foo.", "Die Zahl r1 ist %s plus 1."]),
                 "paramfunction": ("wert", ["Die Zahl %s ist 1.", "Die Zahl r1 ist wert 3.", "Die Zahl r2 ist wert %s."]),
                 "generic": ("gen", ["Der Text %s ist \"t\".", "Die Zahl r1 ist gen 3.", "Der Text r2 ist gen %s."]),
                 "constant": ("konst", ["Die Zahl %s ist 1.", "Die Zahl r1 ist konst plus 1.", "Speichere 2 in konst."]),
                 "global": ("glob", ["Der Text %s ist \"t\".", "Die Zahl r1 ist glob plus 1.", "Speichere 2 in glob."])}
    for kind, (name, lines) in shadowers.items():
        body = [l.replace("%s", name) for l in lines]
        # inside a function, at top level, inside a loop, as a parameter name
        fn = "Die Funktion f gibt nichts zurück, macht:\n" + "\n".join("\t" + l for l in body) + "\nUnd kann so benutzt werden:\n\t\"eff\"\neff.\n"
        out.append(("C:%s:function" % kind, {"main.ddp": PRE + fn}, "main.ddp"))
        out.append(("C:%s:toplevel" % kind, {"main.ddp": PRE + "\n".join(body) + "\n"}, "main.ddp"))
        out.append(("C:%s:block" % kind, {"main.ddp": PRE + "Wenn wahr, dann:\n" + "\n".join("\t" + l for l in body) + "\n"}, "main.ddp"))
        rest = [l for l in body if not l.startswith("Die Zahl %s ist" % name) and not l.startswith("Der Text %s ist" % name)]
        pf = ("Die Funktion g mit dem Parameter %s vom Typ Zahl, gibt nichts zurück, macht:\n" % name) + "\n".join("\t" + l for l in rest) + \
             "\nUnd kann so benutzt werden:\n\t\"geh <%s>\"\ngeh 1.\n" % name
        out.append(("C:%s:parameter" % kind, {"main.ddp": PRE + pf}, "main.ddp"))
        out.append(("C:%s:loopvar" % kind, {"main.ddp": PRE + "Für jede Zahl %s von 1 bis 2, mache:\n" % name + "\n".join("\t" + l for l in rest) + "\n"}, "main.ddp"))
        out.append(("C:%s:foreachvar" % kind, {"main.ddp": PRE + "Für jede Zahl %s in liste, mache:\n" % name + "\n".join("\t" + l for l in rest) + "\n"}, "main.ddp"))
    return out


STATEMENTS = {
    "alias": 'Der Alias "bar" steht für die Funktion foo.',
    "alias-bad": 'Der Alias "bar <q>" steht für die Funktion foo.',
    "vardecl": "Die Zahl neu ist 1.",
    "vardecl-text": 'Der Text neu ist "t".',
    "constdecl": "Die Konstante neuk ist 1.",
    "funcdecl": 'Die Funktion innen gibt nichts zurück, macht:\n\tVerlasse die Funktion.\nUnd kann so benutzt werden:\n\t"innen"',
    "structdecl": 'Wir nennen die Kombination aus\n\tder Zahl y mit Standardwert 0,\neinen Bar, und erstellen sie so:\n\t"ein Bar"',
    "typealias": "Wir nennen eine Zahl auch eine Anzahl.",
    "typedef": "Wir definieren eine Menge als eine Zahl.",
    "import": 'Binde "Duden/Texte" ein.',
    "import-missing": 'Binde "gibtsnicht" ein.',
    "import-named-missing": 'Binde quatsch aus "gibtsnicht" ein.',
    "return": "Gib 1 zurück.",
    "return-void": "Verlasse die Funktion.",
    "break": "Verlasse die Schleife.",
    "continue": "Fahre mit der Schleife fort.",
    "expr": "foo.",
    "assign": "Speichere 2 in glob.",
    "compound": "Erhöhe glob um 1.",
    "print": "Schreibe 1.",
    "todo": "...",
    "nested-if": "Wenn wahr, Schreibe 1.",
    "nested-for": "Für jede Zahl k von 1 bis 2, Schreibe k.",
    "nested-while": "Solange falsch, Schreibe 1.",
    "repeat": "Schreibe 1 3 Mal.",
    "lowercase": "schreibe 1.",
    "empty": ".",
    "colon": ":",
    "nothing": "",
    "operator-decl": 'Die Funktion opx mit dem Parameter a vom Typ Foo, gibt eine Zahl zurück, macht:\n\tGib 1 zurück.\nUnd überlädt den "Länge" Operator.',
    "extern": 'Die Funktion ext gibt nichts zurück,\nist in "x.c" definiert\nUnd kann so benutzt werden:\n\t"ext"',
    "forward": 'Die Funktion spaeter gibt nichts zurück,\nwird später definiert\nUnd kann so benutzt werden:\n\t"spaeter"',
}
ONE_LINE = {
    "if": "Wenn wahr, %s",
    "if-else": "Wenn falsch, Schreibe 0.\nSonst %s",
    "if-elseif": "Wenn falsch, Schreibe 0.\nWenn aber wahr, %s",
    "while": "Solange falsch, %s",
    "for": "Für jede Zahl i von 1 bis 3, %s",
    "for-step": "Für jede Zahl i von 1 bis 3 mit Schrittgröße 2, %s",
    "foreach": "Für jede Zahl z in liste, %s",
    "foreach-text": 'Für jeden Buchstaben b in "ab", %s',
    "in-function-if": "Die Funktion hh gibt eine Zahl zurück, macht:\n\tWenn wahr, %s\n\tGib 0 zurück.\nUnd kann so benutzt werden:\n\t\"hh\"",
    "in-function-for": "Die Funktion hh gibt eine Zahl zurück, macht:\n\tFür jede Zahl i von 1 bis 3, %s\n\tGib 0 zurück.\nUnd kann so benutzt werden:\n\t\"hh\"",
}


def family_d():
    out = []
    for cn, ctx in ONE_LINE.items():
        for sn, st in STATEMENTS.items():
            if cn.startswith("in-function"):
                st = st.replace("\n", "\n\t")
            out.append(("D:%s:%s" % (cn, sn), {"main.ddp": PRE + (ctx % st) + "\nSchreibe 5.\n"}, "main.ddp"))
    return out


MOD = '''Wir nennen die öffentliche Kombination aus
	der öffentlichen Zahl x mit Standardwert 0,
	der Zahl geheim mit Standardwert 1,
einen Foo, und erstellen sie so:
	"ein Foo"
Wir nennen die Kombination aus
	der Zahl y mit Standardwert 0,
einen Privat, und erstellen sie so:
	"ein Privat"
Wir nennen eine Foo Liste öffentlich auch eine FooListe.
Wir nennen eine Privat Liste auch eine PrivatListe.
Wir nennen eine FooListe Liste öffentlich auch eine FooMatrix.
Wir definieren einen FooDef öffentlich als einen Foo.
Wir definieren eine Reihe öffentlich als eine Foo Liste.
Die öffentliche Foo Liste foos ist eine leere Foo Liste.
Die öffentliche Konstante fk ist 3.
Die öffentliche Funktion mach gibt einen Foo zurück, macht:
	Gib ein Foo zurück.
Und kann so benutzt werden:
	"mach"
Die öffentliche Funktion nimm mit dem Parameter f vom Typ FooListe, gibt eine Zahl zurück, macht:
	Gib die Länge von f zurück.
Und kann so benutzt werden:
	"nimm <f>"
Die öffentliche generische Funktion erstes mit dem Parameter l vom Typ T Liste, gibt ein T zurück, macht:
	Gib l an der Stelle 1 zurück.
Und kann so benutzt werden:
	"das erste von <l>"
Wir nennen die öffentliche generische Kombination aus
	dem öffentlichen T inhalt,
eine Kiste, und erstellen sie so:
	"eine Kiste mit <inhalt>"
'''
E_NAMES = ["Foo", "FooListe", "PrivatListe", "FooMatrix", "FooDef", "Reihe", "foos", "fk", "mach", "nimm", "erstes", "Kiste", "Privat", "geheim", "gibtsnicht"]
E_USES = {
    "public-var": "Die öffentliche %N v1 ist der Standardwert von einer %N.",
    "private-var": "Die %N v2 ist der Standardwert von einer %N.",
    "empty-list": "Die %N v3 ist eine leere %N.",
    "list-of": "Die %N Liste v4 ist eine leere %N Liste.",
    "public-list-of": "Die öffentliche %N Liste v5 ist eine leere %N Liste.",
    "param": 'Die Funktion p1 mit dem Parameter a vom Typ %N, gibt nichts zurück, macht:\n\tVerlasse die Funktion.\nUnd kann so benutzt werden:\n\t"p1 <a>"',
    "public-param": 'Die öffentliche Funktion p2 mit dem Parameter a vom Typ %N, gibt nichts zurück, macht:\n\tVerlasse die Funktion.\nUnd kann so benutzt werden:\n\t"p2 <a>"',
    "public-return": 'Die öffentliche Funktion p3 gibt eine %N zurück, macht:\n\tGib der Standardwert von einer %N zurück.\nUnd kann so benutzt werden:\n\t"p3"',
    "field": 'Wir nennen die öffentliche Kombination aus\n\tder öffentlichen %N feld,\neinen Halter, und erstellen sie so:\n\t"ein Halter"',
    "alias-of": "Wir nennen eine %N öffentlich auch eine Weiter.",
    "typedef-of": "Wir definieren eine Neu öffentlich als eine %N.",
    "value-use": "Die Variable v6 ist %N als Variable.",
    "call": "Schreibe (die Länge von %N).",
    "field-access": "Schreibe (x von (%N an der Stelle 1)).",
    "instantiate": "Die %N-Kiste v7 ist eine Kiste mit (der Standardwert von einer %N).",
    "element-field": "Die %N v8 ist eine leere %N.\nSchreibe (geheim von (v8 an der Stelle 1)).",
}


def family_e():
    out = []
    for n in E_NAMES:
        for un, use in E_USES.items():
            for imp in ("Binde %s aus \"mod\" ein.\n" % n, "Binde %s und fk aus \"mod\" ein.\n" % n):
                out.append(("E:%s:%s:%d" % (n, un, len(imp)), {"mod.ddp": MOD, "main.ddp": 'Binde "Duden/Ausgabe" ein.\n' + imp + use.replace("%N", n) + "\n"}, "main.ddp"))
    return out


def cases():
    return family_a() + family_b() + family_c() + family_d() + family_e()
