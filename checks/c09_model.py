"""C09 reference model: alias declarations, call-site units and the *stated* resolution rule.

Nothing here looks at the compiler's sources or data structures; the rule is the one of the
property text:

  among the declared aliases whose token pattern matches the tokens at the call position
  (a placeholder matches one argument: a single token, a negated literal/name or a parenthesised
  expression) and whose parameter types equal the static argument types exactly (a Referenz
  parameter additionally needs an assignable argument), the longest pattern wins; on equal
  length a non-generic declaration is preferred over a generic one and, among those, the one
  with more Referenz parameters.  Arguments bind to parameters by placeholder name.
"""

# ---------------------------------------------------------------- types
# concrete types: Z Zahl, K Kommazahl, B Byte, W Wahrheitswert, C Buchstabe, S Text,
#                 P Punkt, Q Paar (Kombinationen of the prelude), ZL Zahlen Liste, SL Text Liste
# generic parameter types: ("g", "T") = T, ("gl", "T") = T Liste
CONCRETE = ["Z", "K", "B", "W", "C", "S", "P", "Q", "ZL", "SL"]
LIST_ELEM = {"ZL": "Z", "SL": "S"}
TYPE_NAME = {"Z": "Zahl", "K": "Kommazahl", "B": "Byte", "W": "Wahrheitswert", "C": "Buchstabe", "S": "Text",
             "P": "Punkt", "Q": "Paar", "ZL": "Zahlen Liste", "SL": "Text Liste"}
REF_NAME = {"Z": "Zahlen Referenz", "K": "Kommazahlen Referenz", "B": "Byte Referenz", "W": "Wahrheitswert Referenz",
            "C": "Buchstaben Referenz", "S": "Text Referenz", "P": "Punkt Referenz", "Q": "Paar Referenz",
            "ZL": "Zahlen Listen Referenz", "SL": "Text Listen Referenz"}


def is_generic(t):
    return isinstance(t, tuple)


def type_text(t, ref):
    if is_generic(t):
        if t[0] == "g":
            return t[1] + (" Referenz" if ref else "")
        return t[1] + (" Listen Referenz" if ref else " Liste")
    return REF_NAME[t] if ref else TYPE_NAME[t]


def type_short(t, ref=False):
    s = (t[1] if t[0] == "g" else t[1] + "[]") if is_generic(t) else t
    return s + ("&" if ref else "")


# ---------------------------------------------------------------- declarations

class Param:
    __slots__ = ("name", "type", "ref")

    def __init__(self, name, type_, ref=False):
        self.name, self.type, self.ref = name, type_, ref


class Decl:
    """kind: 'func' | 'struct' | 'op';  ret: 'N' | 'Z' | 'W' | struct name (for constructors)"""

    def __init__(self, name, kind, params, ret, module="main", retval=None, op=None, defaults=None):
        self.name, self.kind, self.params, self.ret, self.module = name, kind, params, ret, module
        self.retval = retval
        self.op = op
        self.defaults = defaults or {}
        self.aliases = []
        self.neg_marker = None   # (alias index, position in tokens, marker word)

    def param(self, name):
        for p in self.params:
            if p.name == name:
                return p
        raise KeyError(name)

    @property
    def generic_count(self):
        return sum(1 for p in self.params if is_generic(p.type))

    @property
    def generic(self):
        return self.generic_count > 0


class Alias:
    """toks: list of ('w', word) / ('p', parameter name).  `negated`: this is the negated form of a marker alias."""

    def __init__(self, decl, toks, negated=False):
        self.decl, self.toks, self.negated = decl, toks, negated

    def __len__(self):
        return len(self.toks)

    def pnames(self):
        return [t[1] for t in self.toks if t[0] == "p"]

    def key(self):
        """what makes two aliases 'the same alias' (duplicate): words and (type, Referenz) of the placeholders"""
        k = []
        for t in self.toks:
            if t[0] == "w":
                k.append(("w", t[1]))
            else:
                p = self.decl.param(t[1])
                k.append(("p", p.type, p.ref))
        return tuple(k)

    def refs(self):
        return sum(1 for n in self.pnames() if self.decl.param(n).ref)

    def text(self):
        return " ".join(t[1] if t[0] == "w" else "<%s>" % t[1] for t in self.toks)

    def shape(self):
        """abstract description used in violation signatures: words numbered by first occurrence, placeholders by type"""
        seen, out = {}, []
        for t in self.toks:
            if t[0] == "w":
                out.append("w%d" % seen.setdefault(t[1], len(seen) + 1))
            else:
                p = self.decl.param(t[1])
                out.append("<%s>" % type_short(p.type, p.ref))
        return " ".join(out)


# ---------------------------------------------------------------- call-site units

class Unit:
    """one segment of the call site: a word token, or one argument (single token, negated token, parenthesised expression).
    type: static type of the unit read as an expression (None: not an expression of known type, e.g. a plain alias word)
    assign: 'var' (a variable name), 'paren' (parenthesised assignable: whether that still counts as assignable is not
            settled by the property -> both readings are evaluated), 'no' (literal / temporary)
    is_word: the unit is a single identifier/symbol/keyword token and can therefore match a pattern word with the same text"""
    __slots__ = ("text", "type", "assign", "is_word", "value", "form")

    def __init__(self, text, type_=None, assign="no", is_word=False, value=None, form="word"):
        self.text, self.type, self.assign, self.is_word, self.value, self.form = text, type_, assign, is_word, value, form


def _unify(ptype, atype, env):
    """parameter type against argument type; env maps type variables to concrete types (consistent substitution)"""
    if not is_generic(ptype):
        return ptype == atype
    if ptype[0] == "gl":
        if atype not in LIST_ELEM:
            return False
        atype = LIST_ELEM[atype]
    var = ptype[1]
    if var in env:
        return env[var] == atype
    env[var] = atype
    return True


def match_alias(alias, units, paren_assignable):
    """does `alias` match a prefix of `units` with exactly equal types?  returns the binding {param name: unit} or None"""
    if len(alias) > len(units):
        return None
    env, bind = {}, {}
    for tok, u in zip(alias.toks, units):
        if tok[0] == "w":
            if not (u.is_word and u.text == tok[1]):
                return None
        else:
            if u.type is None:
                return None
            p = alias.decl.param(tok[1])
            if not _unify(p.type, u.type, env):
                return None
            if p.ref and not (u.assign == "var" or (u.assign == "paren" and paren_assignable)):
                return None
            bind[tok[1]] = u
    return bind


def _better(a, b):
    """strict preference of the stated rule (partial: two generic declarations with a different number of generic
    parameters are not ordered by the property)"""
    if len(a) != len(b):
        return len(a) > len(b)
    ga, gb = a.decl.generic, b.decl.generic
    if ga != gb:
        return not ga
    if ga and a.decl.generic_count != b.decl.generic_count:
        return False
    return a.refs() > b.refs()


def resolve(aliases, units, paren_assignable):
    """maximal candidates under the stated rule: list of (alias, binding)"""
    cands = []
    for al in aliases:
        b = match_alias(al, units, paren_assignable)
        if b is not None:
            cands.append((al, b))
    best = [c for c in cands if not any(_better(o[0], c[0]) for o in cands)]
    return best, len(cands)


def pattern_candidates(aliases, units):
    """number of aliases whose *pattern* (ignoring types) matches a prefix: the size of the set the real parser has to sort"""
    n = 0
    for al in aliases:
        if len(al) > len(units):
            continue
        ok = True
        for tok, u in zip(al.toks, units):
            if tok[0] == "w":
                if not (u.is_word and u.text == tok[1]):
                    ok = False
                    break
            elif u.form == "kw":
                ok = False
                break
        n += ok
    return n


# ---------------------------------------------------------------- operators (same exact-type rule, positional operands)

def resolve_op(overloads, op, operands, paren_assignable):
    """overloads: Decl(kind='op'); operands: list of Unit.  returns (maximal list of decls, number of candidates)"""
    cands = []
    for d in overloads:
        if d.op != op or len(d.params) != len(operands):
            continue
        env, ok = {}, True
        for p, u in zip(d.params, operands):
            if not _unify(p.type, u.type, env):
                ok = False
                break
            if p.ref and not (u.assign == "var" or (u.assign == "paren" and paren_assignable)):
                ok = False
                break
        if ok:
            cands.append(d)

    def better(a, b):
        if a.generic != b.generic:
            return not a.generic
        if a.generic and a.generic_count != b.generic_count:
            return False
        ra, rb = sum(p.ref for p in a.params), sum(p.ref for p in b.params)
        return ra > rb
    best = [c for c in cands if not any(better(o, c) for o in cands)]
    return best, len(cands), cands


# ---------------------------------------------------------------- how the prelude's `Zeig <v>` prints a value

def fmt_k(x):
    s = "%.16g" % x
    return s.replace(".", ",")


def show(t, v):
    if t == "Z":
        return str(v)
    if t == "K":
        return fmt_k(v)
    if t == "B":
        return "b%d" % v
    if t == "W":
        return "wahr" if v else "falsch"
    if t == "C":
        return "'" + v
    if t == "S":
        return '"' + v
    if t == "P":
        return "P%d/%d" % v
    if t == "Q":
        return "Q%s/%d" % v
    if t == "ZL":
        return "L" + ", ".join(str(x) for x in v)
    if t == "SL":
        return "M" + ", ".join(v)
    raise ValueError(t)
