"""C15 helper: seeded generator of programs with generic functions. A program is a list of *units*
(each: helpers + 1..3 generic functions + call sites in several modules); every unit is a pure function
of (seed, unit key, layout, position), so a unit can be re-generated alone for attribution.
Concrete types at call sites include the pool's type definitions and type aliases (POOL_NAMED, ORT) and lists / instantiations of
them; unit kinds `typedef` and `samename` are about them (see their docstrings)."""
import random

from checks.c15_lang import (FuncDef, StructDef, V, L, GI, S, D, A, ZAHL, KOMMA, TEXT, CHAR, BOOL, BYTE, subst, unify, tvars,
                             TypeErrorInModel, contains_nested_list, canon, named_in, defs_in)
from checks.c15_prog import Program, Module

LAYOUTS = ['one', 'two', 'three', 'hidden']
OPERATORS = ['plus', 'minus', 'mal', 'durch']


def pool_structs():
    return {
        'Punkt': StructDef('Punkt', 'm', [('pz', ZAHL), ('pt', TEXT)]),
        'Vektor2': StructDef('Vektor2', 'm', [('vx', V('T')), ('vy', V('T'))], tparams=['T']),
        'Paar': StructDef('Paar', 'm', [('pa', V('A')), ('pb', V('B'))], tparams=['A', 'B']),
        'Kiste': StructDef('Kiste', 'f', [('inhalt', L(V('E'))), ('marke', TEXT)], tparams=['E']),
    }


VZ, VT = GI('Vektor2', ZAHL), GI('Vektor2', TEXT)
BASE = [ZAHL, KOMMA, TEXT, CHAR, BOOL, BYTE]
BASE_W = [5, 3, 5, 2, 2, 1]
LISTS = [L(ZAHL), L(TEXT), L(KOMMA), L(CHAR), L(BOOL)]
STRUCTY = [S('Punkt'), VZ, VT, GI('Paar', ZAHL, TEXT), GI('Kiste', ZAHL), GI('Vektor2', VZ), GI('Paar', TEXT, VZ), L(S('Punkt')), L(VZ),
           GI('Paar', L(ZAHL), BOOL), GI('Vektor2', KOMMA), GI('Kiste', TEXT)]


# type definitions and type aliases of the pool: public, declared in the module of the generic Kombinationen or in a module of
# their own that every module imports (Gen.tymod); `Ort` defines a Kombination and always lives next to it
# (masculine / feminine names only: a neuter type cannot be written as a field type, see the assumptions of c15.py)
METER, WORT, PEGEL = D('Meter', ZAHL, 'm'), D('Begriff', TEXT, 'm'), D('Pegel', KOMMA, 'm')
ORT = D('Ort', S('Punkt'), 'm')
NUMMER, SILBE = A('Nummer', ZAHL, 'f'), A('Silbe', TEXT, 'f')
STRECKE = A('Strecke', METER, 'f')            # alias of a definition
POOL_NAMED = [METER, WORT, PEGEL, NUMMER, SILBE, STRECKE]
NAMED_SCALAR = [METER, WORT, NUMMER, STRECKE, PEGEL, SILBE, ORT]
NAMED_SCALAR_W = [6, 4, 5, 2, 1, 2, 2]
NAMED_COMPOSITE = [GI('Vektor2', METER), GI('Kiste', METER), L(METER), GI('Paar', METER, ZAHL), GI('Vektor2', NUMMER), L(NUMMER), GI('Kiste', NUMMER),
                   GI('Vektor2', WORT), L(WORT), GI('Paar', ZAHL, STRECKE), GI('Vektor2', ORT), L(ORT), GI('Paar', SILBE, METER), GI('Kiste', SILBE)]
# (definition, its base, an alias of the base or None, an alias of the definition or None)
TRIPLES = [(METER, ZAHL, NUMMER, STRECKE), (METER, ZAHL, NUMMER, STRECKE), (WORT, TEXT, SILBE, None), (PEGEL, KOMMA, None, None), (ORT, S('Punkt'), None, None)]


def pattern_depth(t):
    """how many instantiated Kombinationen enclose the innermost type parameter (0: none / plain T / T Liste)"""
    k = t[0]
    if k == 'l':
        return pattern_depth(t[1])
    if k == 'g':
        d = [pattern_depth(a) for a in t[2] if tvars(a)]
        return 1 + max(d) if d else 0
    return 0


def two_param_top(t):
    while t[0] == 'l':
        t = t[1]
    return t[0] == 'g' and len(t[2]) > 1


def lit(t, s):
    return ('lit', t, s)


def var(n):
    return ('var', n)


LITS = {
    ZAHL: ['0', '1', '2', '7', '42', '255', '1000', '-5'],
    KOMMA: ['0,5', '1,5', '2,25', '10,0'],
    TEXT: ['"x"', '"hallo"', '"äöü"', '""', '"a b"', '"T"'],
    CHAR: ["'a'", "'ä'", "'€'", "'Z'"],
    BOOL: ['wahr', 'falsch'],
}


class Layout:
    def __init__(self, kind):
        self.kind = kind
        if kind == 'one':
            self.mods = {'D': 'main', 'I': 'main', 'M': 'main'}
        elif kind == 'two':
            self.mods = {'D': 'decl', 'I': 'main', 'M': 'main'}
        else:
            self.mods = {'D': 'decl', 'I': 'mitte', 'M': 'main'}

    def roles_distinct_from_D(self):
        return [r for r in ('I', 'M') if self.mods[r] != self.mods['D']]


class Unit:
    def __init__(self, uid, kind):
        self.uid, self.kind = uid, kind
        self.feats = set()
        self.helpers = {'D': [], 'I': [], 'M': []}     # plain FuncDefs / globals declared before the generics of that role
        self.globals = {'D': [], 'I': [], 'M': []}     # (name, type, expr, public)
        self.gens = {'D': [], 'I': [], 'M': []}        # items ('func', FuncDef) / ('fwd', name)
        self.sites = {'D': [], 'I': [], 'M': []}       # statements
        self.flags = {}                                # fname -> {tparam: set(flags)}
        self.funcs = []                                # all FuncDefs (for registration)
        self.raws = {'D': [], 'I': [], 'M': []}        # module-level source lines (type declarations) placed before the helpers
        self.private_named = set()                     # those of self.named that are declared without `öffentlich` in a module others import
        self.named = {'D': [], 'I': [], 'M': []}       # type definitions / aliases of the unit's own, declared at the top of that role's module
        self.typename = None                           # a type private to the declaring module that generic bodies mention by name
        self.rt = None                                 # separate PRNG for the type-name feature (keeps the other draws unchanged)


# ------------------------------------------------------------------ concrete values at call sites

class SiteGen:
    def __init__(self, rnd, structs, prefix):
        self.rnd, self.structs, self.prefix = rnd, structs, prefix
        self.n = 0

    def fresh(self):
        self.n += 1
        return '%s%d' % (self.prefix, self.n)

    def cval(self, t, pre, atomic=False):
        """expression of concrete type t; statements needed before it are appended to pre"""
        r = self.rnd
        k = t[0]
        if k == 'p':
            if t == BYTE:
                return ('cast', lit(ZAHL, r.choice(['7', '200', '0'])), BYTE)
            return lit(t, r.choice(LITS[t]))
        if k == 'd':
            # a value of a type definition: a value of its base type, converted
            return ('cast', self.cval(t[2], pre), t)
        if k == 'a':
            # a value of an alias type: a variable declared under the alias name, initialised with a value of the target
            n = self.fresh()
            pre.append(('decl', n, t, self.cval(t[2], pre)))
            return var(n)
        if k == 'l':
            n = self.fresh()
            el = t[1]
            if el[0] == 'l':
                items = [self.cval(el, pre) for _ in range(r.randint(1, 2))]
            else:
                items = [self.cval(el, pre) for _ in range(r.randint(1, 3))]
            pre.append(('decl', n, t, ('listlit', el, items)))
            return var(n)
        sd = self.structs[t[1]]
        s = dict(zip(sd.tparams, t[2])) if k == 'g' else {}
        return ('ctor', t[1], [self.cval(subst(ft, s), pre) for fn, ft in sd.fields])

    def cvar(self, t, pre):
        e = self.cval(t, pre)
        if e[0] == 'var':
            return e
        n = self.fresh()
        pre.append(('decl', n, t, e))
        return var(n)


# ------------------------------------------------------------------ generic bodies

PARAM_NAMES = ['a', 'b', 'c', 'd']
STEMS = ['nimm', 'wähle', 'baue', 'reiche', 'tausche', 'hole', 'packe', 'dreh', 'misch', 'falte', 'prüfe', 'sammle']
ALIAS1 = ['{W} <%s>', 'das {W} von <%s>', '<%s> {W}', '{W}(<%s>)']
ALIAS2 = ['{W} <%s> <%s>', '{W} <%s> und <%s>', '{W} von <%s> mit <%s>', '<%s> {W} <%s>', '{W}(<%s>, <%s>)']
ALIAS3 = ['{W} <%s> <%s> <%s>', '{W} <%s> mit <%s> und <%s>', '{W}(<%s>, <%s>, <%s>)']
ALIAS4 = ['{W} <%s> <%s> <%s> <%s>', '{W}(<%s>, <%s>, <%s>, <%s>)']


def make_alias(rnd, names, stmt_like=False):
    tpls = {1: ALIAS1, 2: ALIAS2, 3: ALIAS3, 4: ALIAS4}[len(names)]
    if stmt_like:
        tpls = [t for t in tpls if t.startswith('{W}')]
    return rnd.choice(tpls) % tuple(names)


class BodyGen:
    def __init__(self, rnd, gen, unit, f_name, tparams, params, ret, callable_generics, helper, counter, allow_show=True, pure=False):
        self.rnd, self.gen, self.unit = rnd, gen, unit
        self.structs = gen.structs
        self.f_name, self.tparams, self.params, self.ret = f_name, tparams, params, ret
        self.callable = callable_generics   # FuncDefs that may be called from this body
        self.helper, self.counter = helper, counter
        self.flags = {tp: set() for tp in tparams}
        self.scope = []   # (name, type, assignable)
        for pn, pt, ref in params:
            self.scope.append((pn, pt, True))
            self._type_flags(pt)
        if ret is not None:
            self._type_flags(ret)
        self.nloc = 0
        self.allow_show = allow_show and not pure
        self.pure = pure      # the body names nothing but its parameters, type parameters and public Kombinationen: it means the same in any module

    def _type_flags(self, t, under_list=False):
        k = t[0]
        if k == 'v':
            if under_list and t[1] in self.flags:
                self.flags[t[1]].add('nolist')
        elif k == 'l':
            self._type_flags(t[1], True)
        elif k == 'g':
            sd = self.structs[t[1]]
            for tp, a in zip(sd.tparams, t[2]):
                inner_list = any(self._var_under_list(ft, tp) for fn, ft in sd.fields)
                self._type_flags(a, under_list or inner_list)

    def _var_under_list(self, t, name, under=False):
        k = t[0]
        if k == 'v':
            return under and t[1] == name
        if k == 'l':
            return self._var_under_list(t[1], name, True)
        if k == 'g':
            return any(self._var_under_list(a, name, under) for a in t[2])
        return False

    def fresh(self):
        self.nloc += 1
        return 'h%d' % self.nloc

    def _shown(self, t):
        """`zeige` is overloaded per type; a value whose type is (a list of) a type parameter must not be bound to a
        Kombination with two type parameters (those are shown by `zeige2`, see Lang.show_word)"""
        while t[0] == 'l':
            t = t[1]
        if t[0] == 'v' and t[1] in self.flags:
            self.flags[t[1]].add('nopaar')

    def vars_of(self, t, assignable=False):
        return [n for n, vt, asg in self.scope if vt == t and (asg or not assignable)]

    # ---- expressions of a wanted type
    def mk(self, t, depth=0, allow_calls=True):
        r = self.rnd
        c = []
        for n in self.vars_of(t):
            c.append((6, var(n)))
        if depth < 2:
            for n, vt, asg in self.scope:
                if vt == L(t):
                    c.append((2, ('index', var(n), lit(ZAHL, '1'))))
                if vt[0] in ('g', 's'):
                    sd = self.structs[vt[1]]
                    s = dict(zip(sd.tparams, vt[2])) if vt[0] == 'g' else {}
                    for fn, ft in sd.fields:
                        if subst(ft, s) == t:
                            c.append((2, ('field', fn, var(n))))
            k = t[0]
            if k == 'l' and t[1][0] != 'l':
                items = [self.mk(t[1], depth + 1) for _ in range(r.randint(1, 2))]
                if all(i is not None for i in items):
                    c.append((2, ('listlit', t[1], items)))
                for n in self.vars_of(t):
                    e = self.mk(t[1], depth + 1)
                    if e is not None:
                        c.append((2, ('concat', var(n), e)))
            elif k in ('g', 's'):
                sd = self.structs[t[1]]
                s = dict(zip(sd.tparams, t[2])) if k == 'g' else {}
                args = [self.mk(subst(ft, s), depth + 1) for fn, ft in sd.fields]
                if all(a is not None for a in args):
                    c.append((3, ('ctor', t[1], args)))
            elif k == 'd':
                e = self.mk(t[2], depth + 1, allow_calls=False)
                if e is not None:
                    c.append((3, ('cast', e, t)))
            elif k == 'p':
                if t == BYTE:
                    c.append((2, ('cast', lit(ZAHL, '9'), BYTE)))
                else:
                    c.append((2, lit(t, r.choice(LITS[t]))))
                if t == ZAHL:
                    for n, vt, asg in self.scope:
                        if vt[0] == 'l':
                            c.append((1, ('len', var(n))))
                    if self.helper is not None:
                        c.append((2, ('call', self.helper.name, [lit(ZAHL, r.choice(['1', '2', '3']))])))
                    if self.counter is not None:
                        c.append((1, var(self.counter)))
            if allow_calls:
                for g in self.callable:
                    e = self.try_call(g, t, depth)
                    if e is not None:
                        c.append((4, e))
            if k in ('v', 'p', 's', 'd') or (k == 'g' and not self._mentions_list_field(t)):
                c.append((1, ('default', t)))
                if k == 'v':
                    pass
        if not c:
            return None
        tot = sum(w for w, _ in c)
        x = r.uniform(0, tot)
        for w, e in c:
            x -= w
            if x <= 0:
                return e
        return c[-1][1]

    def _mentions_list_field(self, t):
        return True   # default values of Kombinationen are left to other checks

    def try_call(self, g, want, depth):
        """call of generic g whose return type can be made `want`"""
        if g.ret is None:
            return None
        b = {}
        if not unify(g.ret, want, b):
            return None
        return self.call_with(g, b, depth)

    def call_with(self, g, b, depth):
        r = self.rnd
        for tp in g.tparams:
            if tp not in b:
                cands = [vt for n, vt, a in self.scope if vt[0] != 'l'] or [ZAHL]
                b[tp] = r.choice(cands + [ZAHL, TEXT])
        gflags = self.unit.flags.get(g.name, {})
        added = []
        for tp in g.tparams:
            for fl in gflags.get(tp, ()):
                bt = b[tp]
                if fl == 'nolist':
                    if bt[0] == 'l':
                        return None
                    if bt[0] == 'v':
                        added.append((bt[1], 'nolist'))
                elif fl == 'num':
                    if bt[0] == 'v':
                        added.append((bt[1], 'num'))
                    elif bt not in (ZAHL, KOMMA):
                        return None
                elif fl == 'prim':
                    if bt[0] == 'v':
                        added.append((bt[1], 'prim'))
                    elif bt[0] != 'p':
                        return None
                elif fl == 'struct':
                    if bt[0] == 'v':
                        added.append((bt[1], 'struct'))
                    elif bt[0] not in ('s', 'g'):
                        return None
                elif fl == 'nopaar':
                    u_ = bt
                    while u_[0] == 'l':
                        u_ = u_[1]
                    if u_[0] == 'v':
                        added.append((u_[1], 'nopaar'))
                    elif u_[0] == 'g' and len(u_[2]) > 1:
                        return None
        args = []
        for pn, pt, ref in g.params:
            at = subst(pt, b)
            if contains_nested_list(at):
                return None
            if ref:
                vs = self.vars_of(at, assignable=True)
                if not vs:
                    return None
                args.append(var(r.choice(vs)))
            else:
                if at == ZAHL and pn == 'n':
                    args.append(lit(ZAHL, r.choice(['0', '1', '2'])))
                    continue
                e = self.mk(at, depth + 1, allow_calls=(depth < 1))
                if e is None:
                    return None
                args.append(e)
        for v_, fl in added:
            if v_ in self.flags:
                self.flags[v_].add(fl)
        kind = 'opcall' if g.operator else 'call'
        return (kind, g.name, args)

    # ---- statements
    def stmt(self, depth=0):
        r = self.rnd
        forms = ['decl', 'decl', 'assign', 'show', 'show', 'note', 'count', 'if_eq', 'repeat', 'foreach', 'voidcall', 'listdecl']
        if self.pure:
            forms = ['decl', 'decl', 'assign', 'assign', 'repeat', 'voidcall', 'listdecl']
        f = r.choice(forms)
        if f == 'decl':
            types = [vt for n, vt, a in self.scope] + [ZAHL, TEXT]
            t = r.choice(types)
            e = self.mk(t, 0)
            if e is None:
                return []
            n = self.fresh()
            self.scope.append((n, t, True))
            return [('decl', n, t, e)]
        if f == 'listdecl':
            cand = [vt for n, vt, a in self.scope if vt[0] != 'l']
            if not cand:
                return []
            el = r.choice(cand)
            t = L(el)
            self._type_flags(t)
            e = self.mk(t, 0)
            if e is None or e[0] != 'listlit':
                items = [self.mk(el, 1) for _ in range(r.randint(1, 3))]
                if any(i is None for i in items):
                    return []
                e = ('listlit', el, items)
            n = self.fresh()
            self.scope.append((n, t, True))
            return [('decl', n, t, e)]
        if f == 'assign':
            vs = [(n, vt) for n, vt, a in self.scope if a and not (vt == ZAHL and n == 'n')]
            if not vs:
                return []
            n, t = r.choice(vs)
            e = self.mk(t, 0)
            if e is None or e == var(n):
                return []
            return [('assign', var(n), e)]
        if f == 'show' and self.allow_show:
            vs = [(n, vt) for n, vt, a in self.scope if not contains_nested_list(vt)]
            if not vs:
                return []
            n, t = r.choice(vs)
            self._shown(t)
            return [('show', var(n))]
        if f == 'note' and self.helper is not None:
            return [('show', ('call', self.helper.name, [lit(ZAHL, r.choice(['1', '5', '9']))]))]
        if f == 'count' and self.counter is not None:
            return [('assign', var(self.counter), ('bin', 'plus', var(self.counter), lit(ZAHL, '1')))]
        if f == 'if_eq' and depth < 1:
            groups = {}
            for n, vt, a in self.scope:
                if vt[0] in ('v', 'p') and vt != BYTE:
                    groups.setdefault(vt, []).append(n)
            cands = [(t, ns) for t, ns in groups.items() if len(ns) >= 2 or t[0] == 'p']
            if not cands:
                return []
            t, ns = r.choice(cands)
            x = var(r.choice(ns))
            if len(ns) >= 2:
                y = var(r.choice([n for n in ns if n != x[1]]))
            else:
                y = lit(t, LITS[t][0]) if t in LITS else None
            if y is None:
                return []
            for tv in tvars(t):
                self.flags[tv].add('prim')
            mark = len(self.scope)
            inner = self.stmt(depth + 1) or [('show', x)]
            del self.scope[mark:]
            inner = [s for s in inner if s[0] != 'decl'] or [('show', x)]
            self._shown(t)
            other = [('show', y)] if r.random() < 0.5 else []
            return [('if', (r.choice(['eq', 'ne']), x, y), inner, other)]
        if f == 'repeat' and depth < 1:
            ls = [(n, vt) for n, vt, a in self.scope if vt[0] == 'l' and a and vt[1][0] != 'l']
            if not ls:
                return []
            n, t = r.choice(ls)
            e = self.mk(t[1], 1, allow_calls=False)
            if e is None:
                return []
            return [('repeat', lit(ZAHL, r.choice(['1', '2', '3'])), [('assign', var(n), ('concat', var(n), e))])]
        if f == 'foreach' and depth < 1:
            ls = [(n, vt) for n, vt, a in self.scope if vt[0] == 'l' and vt[1][0] != 'l']
            if not ls:
                return []
            n, t = r.choice(ls)
            self._shown(t[1])
            return [('foreach', 'e%d' % (self.nloc + 1), t[1], var(n), [('show', var('e%d' % (self.nloc + 1)))])]
        if f == 'voidcall':
            gs = [g for g in self.callable if g.ret is None and not g.operator]
            if not gs:
                return []
            g = r.choice(gs)
            b = {}
            # bind from an assignable variable for the first reference parameter, else freely
            for pn, pt, ref in g.params:
                if ref:
                    vs = [(n, vt) for n, vt, a in self.scope if a]
                    r.shuffle(vs)
                    for n, vt in vs:
                        b2 = dict(b)
                        if unify(pt, vt, b2):
                            b = b2
                            break
                    else:
                        return []
            e = self.call_with(g, b, 0)
            if e is None:
                return []
            return [('expr', e)]
        return []

    def body(self, nstmts, recursion=None):
        out = []
        if recursion is not None:
            base = self.mk(self.ret, 0, allow_calls=False) if self.ret is not None else None
            if self.ret is not None and base is None:
                return None
            out.append(('if', ('lt', var('n'), lit(ZAHL, '1')), [('ret', base)], []))
        for _ in range(nstmts):
            out += self.stmt()
        if recursion is not None:
            g = recursion
            args = []
            for pn, pt, ref in g.params:
                if pn == 'n':
                    args.append(('bin', 'minus', var('n'), lit(ZAHL, '1')))
                else:
                    vs = self.vars_of(pt, assignable=ref)
                    if not vs:
                        return None
                    args.append(var(self.rnd.choice(vs)))
            call = ('call', g.name, args)
            if self.ret is None:
                out.append(('expr', call))
            else:
                out.append(('ret', call))
        elif self.ret is not None:
            e = self.mk(self.ret, 0)
            if e is None:
                return None
            out.append(('ret', e))
        if not out:
            # an empty body is a separate (known) difference between a generic and a plain function: never by accident
            n, t, a = self.scope[0]
            if contains_nested_list(t):
                return None
            if self.pure:
                out.append(('decl', self.fresh(), t, var(n)))
                return out
            self._shown(t)
            out.append(('show', var(n)))
        return out


# ------------------------------------------------------------------ program generator

class Gen:
    def __init__(self, seed, layout_kind, spec_mode, mono, tymod='D'):
        self.seed = seed
        self.layout = Layout(layout_kind)
        self.spec_mode, self.mono = spec_mode, mono
        self.tymod = tymod          # 'D': the pool's type definitions live in the declaring module; 'third': in module `typen`, imported by all
        self.structs = pool_structs()

    # ---- type patterns
    def param_pattern(self, r, X, Y=None):
        c = [(8, X), (3, L(X)), (3, GI('Vektor2', X)), (1, GI('Kiste', X)), (1, L(GI('Vektor2', X))), (1, GI('Paar', X, ZAHL)), (1, GI('Paar', X, X))]
        if Y is not None:
            c += [(3, GI('Paar', X, Y))]
        return self._w(r, c)

    def ret_pattern(self, r, tps):
        X = V(tps[0])
        c = [(6, X), (3, L(X)), (2, GI('Vektor2', X)), (2, ZAHL), (1, TEXT), (1, BOOL), (2, None), (1, GI('Kiste', X))]
        if len(tps) > 1:
            Y = V(tps[1])
            c += [(4, Y), (3, GI('Paar', X, Y)), (2, GI('Paar', Y, X)), (1, L(Y))]
        return self._w(r, c)

    @staticmethod
    def _w(r, c):
        tot = sum(w for w, _ in c)
        x = r.uniform(0, tot)
        for w, e in c:
            x -= w
            if x <= 0:
                return e
        return c[-1][1]

    def concrete_for(self, r, flags, simple_only=False):
        if 'num' in flags:
            return r.choice([ZAHL, KOMMA])
        if 'struct' in flags:
            return r.choice([t for t in STRUCTY if t[0] != 'l' and not ('nopaar' in flags and two_param_top(t))])
        if 'prim' in flags:
            if not simple_only and r.random() < 0.2:
                return r.choices(NAMED_SCALAR[:6], NAMED_SCALAR_W[:6])[0]      # definitions / aliases of primitives can be compared
            return r.choices(BASE[:5], BASE_W[:5])[0]
        base, base_w = BASE, BASE_W
        if not simple_only and r.random() < 0.24:
            # a type definition, a type alias, or a list / an instantiation of one
            if r.random() < 0.5:
                return r.choices(NAMED_SCALAR, NAMED_SCALAR_W)[0]
            cands = [t for t in NAMED_COMPOSITE if not ('nolist' in flags and t[0] == 'l') and not ('nopaar' in flags and two_param_top(t))]
            return r.choice(cands)
        x = r.random()
        if simple_only:
            if x < 0.7 or 'nolist' in flags:
                return r.choices(base, base_w)[0]
            return r.choice(LISTS)
        if x < 0.5:
            return r.choices(base, base_w)[0]
        if x < 0.65 and 'nolist' not in flags:
            return r.choice(LISTS)
        cands = [t for t in STRUCTY if not ('nolist' in flags and t[0] == 'l') and not ('nopaar' in flags and two_param_top(t))]
        return r.choice(cands)

    # ---- one generic function
    def gen_generic(self, r, unit, role, idx, earlier, helper, counter, public, force=None):
        uid = unit.uid
        force = force or {}
        ntp = force.get('ntp', 1 if r.random() < 0.65 else 2)
        names = r.choice([['T', 'R'], ['T', 'R'], ['T', 'U'], ['Art', 'Sorte'], ['K', 'W']])
        tps = names[:ntp]
        params = []
        pn = list(PARAM_NAMES)
        if force.get('counter'):
            params.append(('n', ZAHL, False))
        for i, tp in enumerate(tps):
            pt = self.param_pattern(r, V(tp), V(tps[1 - i]) if ntp == 2 and r.random() < 0.3 else None)
            ref = r.random() < 0.18
            params.append((pn.pop(0), pt, ref))
        extra = r.random()
        if extra < 0.25 and len(params) < 3:
            params.append((pn.pop(0), self.param_pattern(r, V(r.choice(tps))), r.random() < 0.15))
        elif extra < 0.4 and len(params) < 3:
            params.append((pn.pop(0), r.choice([ZAHL, TEXT, S('Punkt'), L(ZAHL), METER, GI('Vektor2', METER), NUMMER]), False))
        if not force.get('counter'):
            r.shuffle(params)
        ret = force['ret'] if 'ret' in force else self.ret_pattern(r, tps)
        # every type parameter of the return type must occur in a parameter (language rule)
        ptv = []
        for p in params:
            tvars(p[1], ptv)
        if ret is not None and any(v not in ptv for v in tvars(ret)):
            ret = V(tps[0])
        tps = [tp for tp in tps if tp in ptv]
        stem = r.choice(STEMS)
        name = '%s_u%d%s' % (stem, uid, 'abcdefgh'[idx])
        alias = make_alias(r, [p[0] for p in params], stmt_like=(ret is None))
        f = FuncDef(name, params, ret, alias, [], tparams=tps, public=public)
        return f

    def fill_body(self, r, unit, f, earlier, helper, counter, recursion=None, nst=None, pure=False):
        for _ in range(6):
            bg = BodyGen(r, self, unit, f.name, f.tparams, f.params, f.ret, earlier, helper, counter, pure=pure)
            body = bg.body(r.randint(1, 4) if nst is None else nst, recursion)
            if body is not None:
                # state and helpers of the declaring module are used on purpose (so that a wrong scope is observable)
                pre = []
                if counter is not None and r.random() < 0.7:
                    pre.append(('assign', var(counter), ('bin', 'plus', var(counter), lit(ZAHL, '1'))))
                if helper is not None and r.random() < 0.6:
                    pre.append(('show', ('call', helper.name, [lit(ZAHL, r.choice(['1', '5', '9']))])))
                if unit.typename is not None and not pure and unit.rt.random() < 0.75:
                    if unit.typename.startswith('Mass'):
                        pre.append(('raw', 'Schreibe (((%s durch 2) als %s) als Text).' % (unit.rt.choice(['7', '9', '15']), unit.typename)))
                    else:
                        tv = 'tb_u%d' % unit.uid
                        pre.append(('raw', 'Der %s %s ist ein %s mit %s.' % (unit.typename, tv, unit.typename, unit.rt.choice(['4', '6']))))
                        pre.append(('raw', 'Schreibe (((bx von %s) durch 4) als Text).' % tv))
                        pre.append(('raw', 'Schreibe (bt von %s).' % tv))
                    pre.append(('raw', "Schreibe '\\n'."))
                f.body = pre + body
                unit.flags[f.name] = bg.flags
                return True
        return False

    # ---- call sites
    def gen_sites(self, r, unit, f, roles, nsites, hidden_main=False, simple_all=False, forced=None, callee=None):
        """hidden_main: main does not import decl, so main cannot name its Kombinationen; simple_all: a public function of mitte
        whose signature mentions a Kombination of decl crashes the code generator when main imports mitte only (plain-module
        defect, not this check's subject) - specialisations of mitte's generics would be such functions"""
        flags = unit.flags[f.name]
        sigmas = []
        for k in range(nsites if forced is None else len(forced)):
            role = roles[k % len(roles)]
            if forced is not None:
                # (role, sigma) given by the caller; callee(ptypes) names the function the model expects the call to resolve to
                role, s = forced[k]
                s = dict(s)
            elif sigmas and r.random() < 0.3:
                s = dict(r.choice(sigmas))      # repeated identical instantiation (often from another module)
            else:
                s = {}
                for tp in f.tparams:
                    s[tp] = self.concrete_for(r, flags.get(tp, ()), simple_only=(simple_all or (hidden_main and role == 'M')))
            if (simple_all or (hidden_main and role == 'M')) and not all(self._simple(t) for t in s.values()):
                continue
            ptypes = [subst(pt, s) for pn, pt, ref in f.params]
            if any(contains_nested_list(t) for t in ptypes) or (f.ret is not None and contains_nested_list(subst(f.ret, s))):
                continue
            if (simple_all or (hidden_main and role == 'M')) and not all(self._simple(t) for t in ptypes + ([subst(f.ret, s)] if f.ret is not None else [])):
                continue
            sigmas.append(s)
            sg = SiteGen(r, self.structs, 'w%d%s%d_' % (unit.uid, role.lower(), len(unit.sites[role])))
            pre, args, after = [], [], []
            for (pn, pt, ref), at in zip(f.params, ptypes):
                if ref:
                    v_ = sg.cvar(at, pre)
                    args.append(v_)
                    after.append(('show', v_))
                elif pn == 'n' and at == ZAHL:
                    args.append(lit(ZAHL, r.choice(['0', '1', '2', '3'])))
                else:
                    args.append(sg.cval(at, pre))
            target = f if callee is None else callee(ptypes)
            call = ('opcall' if f.operator else 'call', target.name, args)
            st = list(pre)
            if f.ret is None:
                st.append(('expr', call))
            elif r.random() < 0.5:
                st.append(('show', call))
            else:
                n = sg.fresh()
                st.append(('decl', n, subst(f.ret, s), call))
                st.append(('show', var(n)))
            st += after
            unit.sites[role].append(st)
        return sigmas

    def site_roles(self, r, frole='D'):
        roles = ['D', 'I', 'M']
        if self.layout.kind == 'hidden' and frole == 'D':
            roles = ['D', 'I']      # main does not import decl
        r.shuffle(roles)
        return roles

    @staticmethod
    def _simple(t):
        return t[0] == 'p' or (t[0] == 'l' and t[1][0] == 'p')

    # ---- units
    def make_unit(self, key, uid, pos):
        """key: (kind, n) ; deterministic in (seed, key, layout, spec/mono irrelevant)"""
        r = random.Random('%d/%s/%s' % (self.seed, key, self.layout.kind))
        kind = key.split(':')[0]
        for attempt in range(8):
            u = Unit(uid, kind)
            u.rt = random.Random('%d/type/%s/%s/%d' % (self.seed, key, self.layout.kind, attempt))
            try:
                ok = getattr(self, 'unit_' + kind)(r, u, pos)
            except TypeErrorInModel:
                ok = False
            if ok:
                return u
        return None

    def _helper(self, u, role, tag, add):
        """private non-generic helper `hilf_uN <x>` (Zahl -> Zahl) of a module"""
        f = FuncDef('hilf_u%d' % u.uid, [('x', ZAHL, False)], ZAHL, '{W} <x>', [('ret', ('bin', 'plus', var('x'), lit(ZAHL, str(add))))])
        return f

    def _common(self, r, u, ngen, recursion=False):
        lay = self.layout
        uid = u.uid
        helper = counter = None
        if r.random() < 0.7:
            helper = self._helper(u, 'D', 'D', 100)
            u.helpers['D'].append(helper)
            u.funcs.append(helper)
            u.feats.add('helper')
        if r.random() < 0.5:
            counter = 'zähler_u%d' % uid
            u.globals['D'].append((counter, ZAHL, lit(ZAHL, '0'), False))
            u.feats.add('counter')
        if u.rt is not None and u.rt.random() < 0.5:
            # a type NAME private to the declaring module; generic bodies convert through it (a name is looked up where the generic
            # function was declared, so an instantiation made for another module must see this meaning of it)
            if u.rt.random() < 0.6:
                u.typename = 'Mass_u%d' % uid
                u.raws['D'].append('Wir nennen eine Zahl auch eine %s.\n' % u.typename)
            else:
                u.typename = 'Bund_u%d' % uid
                u.raws['D'].append(self._bund(u.typename, 'Zahl', '3', '"d"'))
            u.feats.add('private-type-name')
        return helper, counter

    @staticmethod
    def _bund(name, numtype, numdefault, textdefault):
        return ('Wir nennen die Kombination aus\n\tder %s bx mit Standardwert %s,\n\tdem Text bt mit Standardwert %s,\n'
                'einen %s, und erstellen sie so:\n\t"ein %s mit <bx>"\n' % (numtype, numdefault, textdefault, name, name))

    def _register(self, u, role, f, fwd=False):
        u.gens[role].append(('func', f))
        u.funcs.append(f)

    def _shadow(self, r, u, helper, counter):
        """the same names with another meaning in the calling modules"""
        lay = self.layout
        for role in lay.roles_distinct_from_D():
            if lay.mods[role] == lay.mods['D']:
                continue
            if helper is not None and r.random() < 0.6:
                h2 = FuncDef(helper.name + '#' + role, helper.params, helper.ret, helper.alias, [('ret', ('bin', 'mal', var('x'), lit(ZAHL, '-1')))], word=helper.word)
                h2.real_name = helper.name
                u.helpers[role].append(h2)
                u.feats.add('shadow-helper')
            if counter is not None and r.random() < 0.6:
                t = r.choice([ZAHL, TEXT])
                u.globals[role].append((counter, t, lit(t, '7777' if t == ZAHL else '"schatten"'), False))
                u.feats.add('shadow-global')
            if u.typename is not None and u.rt.random() < 0.7:
                other = u.rt.choice(['Kommazahl', 'Kommazahl', 'Text'])
                if u.typename.startswith('Mass'):
                    u.raws[role].append('Wir nennen %s auch eine %s.\n' % ('einen Text' if other == 'Text' else 'eine Kommazahl', u.typename))
                else:
                    u.raws[role].append(self._bund(u.typename, 'Kommazahl', '1,5', '"schatten"'))
                u.feats.add('shadow-type-name')

    def _drivers_counter(self, u, counter):
        if counter is not None:
            u.sites['D'].append([('show', var(counter))])
            if self.layout.kind != 'hidden':
                # read the declaring module's state once more after all call sites of main
                acc = FuncDef('stand_u%d' % u.uid, [], ZAHL, '{W}', [('ret', var(counter))], public=(self.layout.mods['D'] != 'main'))
                u.helpers['D'].append(acc)
                u.funcs.append(acc)
                u.sites['M'].append([('show', ('call', acc.name, []))])

    def unit_plain(self, r, u, pos):
        """1..3 generic functions, later ones may call earlier ones; call sites in every module"""
        lay = self.layout
        helper, counter = self._common(r, u, 0)
        ngen = r.choice([1, 2, 2, 3])
        gens = []
        for i in range(ngen):
            f = self.gen_generic(r, u, 'D', i, gens, helper, counter, public=True)
            if not self.fill_body(r, u, f, list(gens), helper, counter):
                return False
            gens.append(f)
            self._register(u, 'D', f)
        u.feats.add('generics=%d' % ngen)
        roles = self.site_roles(r)
        for f in gens:
            self.gen_sites(r, u, f, roles, r.randint(1, 3), hidden_main=(lay.kind == 'hidden'))
        self._drivers_counter(u, counter)
        self._shadow(r, u, helper, counter)
        return True

    def unit_typedef(self, r, u, pos):
        """ONE generic function - and through its parameter pattern ONE generic Kombination - instantiated in the same program with a
        type definition, with the definition's base type, with an alias of the base (the SAME type as the base) and with an alias of
        the definition, in a random order and from several modules; values of each flow through it and are shown by the overload of
        `zeige` for their type (which prints the definition's name). The definition lives in the pool (module of the generic function
        or a third module, Gen.tymod) or in the CALLING module ('caller': the generic body is then kept free of names private to its
        module, because its specialisation for that type can only be written where the type can be named)."""
        lay = self.layout
        rt = u.rt
        callers = [x for x in lay.roles_distinct_from_D() if not (lay.kind == 'hidden' and x == 'M')]
        place = rt.choice(['pool', 'pool', 'caller']) if callers else 'pool'
        variant = rt.choice(['pattern', 'pattern', 'tolist', 'overload'])
        T = V('T')
        X = None
        if place == 'caller':
            X = rt.choice(callers)
            base = rt.choice([ZAHL, ZAHL, TEXT, KOMMA])
            d = D('Elle_u%d' % u.uid, base, rt.choice('mf'))
            al = A('Zweit_u%d' % u.uid, base, 'f') if rt.random() < 0.7 else None
            ald = A('Spanne_u%d' % u.uid, d, 'f') if rt.random() < 0.4 else None
            u.named[X] = [d] + [x for x in (al, ald) if x is not None]
            helper = counter = None
            pure = True
        else:
            d, base, al, ald = rt.choice(TRIPLES)
            helper, counter = self._common(r, u, 0)
            pure = False
        if variant == 'tolist':
            params, ret = [('a', T, False)], L(T)
        else:
            pat = rt.choice([GI('Vektor2', T), GI('Vektor2', T), GI('Kiste', T), L(GI('Vektor2', T)), GI('Paar', T, ZAHL), GI('Paar', T, T), GI('Paar', TEXT, T)])
            noref = variant == 'overload'
            params = [('a', pat, (not noref) and rt.random() < 0.2)]
            if rt.random() < 0.5:
                params.append(('b', rt.choice([T, T, L(T)]), (not noref) and rt.random() < 0.2))
            ret = rt.choice([T, T, L(T), GI('Vektor2', T), pat, None, ZAHL])
        if ret is None and (pure or variant == 'overload') and not any(p[2] for p in params):
            ret = T
        stem = rt.choice(STEMS)
        f = FuncDef('%s_u%da' % (stem, u.uid), params, ret, make_alias(rt, [p[0] for p in params], stmt_like=(ret is None)), [], tparams=['T'], public=True)
        if not self.fill_body(r, u, f, [], helper, counter, pure=pure):
            return False
        fl = u.flags[f.name]['T']
        if 'prim' in fl and canon(base)[0] != 'p':
            return False
        plain = None
        if variant == 'overload':
            # a NON-generic function with the same alias whose parameters have the types of the instantiation T = definition:
            # a call with the definition must resolve to it, a call with the base type to the generic function
            sd = {'T': d}
            plain = FuncDef('fest_u%d' % u.uid, [(pn, subst(pt, sd), ref) for pn, pt, ref in params], None if ret is None else subst(ret, sd), f.alias, [],
                            public=True, word=f.word)
            if not self.fill_body(r, u, plain, [], None, None, pure=pure):
                return False
            if place == 'caller':
                plain.body = [('show', lit(TEXT, '"feste Fassung"'))] + plain.body     # declared in the calling module: may use its `zeige`
                plain.public = False
                u.helpers[X].append(plain)
                u.funcs.append(plain)
                self._register(u, 'D', f)
            else:
                plain.body = [('show', lit(TEXT, '"feste Fassung"'))] + plain.body
                for g in ([plain, f] if rt.random() < 0.5 else [f, plain]):
                    self._register(u, 'D', g)
            u.feats.add('typedef-overload-vs-generic')
        else:
            self._register(u, 'D', f)
            u.feats.add('typedef-to-list' if variant == 'tolist' else 'typedef-in-kombination-pattern')
        kinds = [d, base] + ([al] if al is not None else []) + ([ald] if ald is not None and rt.random() < 0.6 else [])
        rt.shuffle(kinds)
        if rt.random() < 0.3:
            kinds.append(rt.choice(kinds))
        roles = self.site_roles(r)
        own = set(t[1] for t in u.named[X]) if X else set()
        forced = []
        for i, ty in enumerate(kinds):
            role = X if any(n[1] in own for n in named_in(ty)) else roles[i % len(roles)]
            forced.append((role, {'T': ty}))
        callee = None
        if plain is not None:
            want = [canon(p[1]) for p in plain.params]
            callee = lambda ptypes: plain if [canon(t) for t in ptypes] == want else f
        sig = self.gen_sites(r, u, f, roles, 0, hidden_main=(lay.kind == 'hidden'), forced=forced, callee=callee)
        if len(sig) < 2:
            return False
        u.feats.add('typedef-with-base' + ('-and-alias' if al is not None else ''))
        if place == 'caller':
            u.feats.add('typedef-declared-in-caller')
        if not pure:
            self._drivers_counter(u, counter)
            self._shadow(r, u, helper, counter)
        return True

    def unit_samename(self, r, u, pos):
        """two calling modules each declare a PRIVATE type definition under the same name and instantiate one generic function -
        and through it one generic Kombination - with it: two different types (layout `three` only: mitte and main both import decl)"""
        lay = self.layout
        if lay.kind != 'three':
            return self.unit_typedef(r, u, pos)
        rt = u.rt
        T = V('T')
        name = 'Elle_u%d' % u.uid
        bases = rt.choice([(ZAHL, TEXT), (TEXT, ZAHL), (ZAHL, ZAHL), (KOMMA, ZAHL)])
        di, dm = D(name, bases[0], 'f'), ('d', name, bases[1], 'main')      # distinct tuples even for equal bases
        u.named['I'], u.named['M'] = [di], [dm]
        u.private_named = {di, dm}
        shape = rt.choice(['wrap', 'unwrap', 'local'])
        if shape == 'wrap':
            f = FuncDef('hülle_u%da' % u.uid, [('a', T, False)], GI('Vektor2', T), '{W} <a>',
                        [('ret', ('ctor', 'Vektor2', [var('a'), ('default', T)]))], tparams=['T'], public=True)
        elif shape == 'unwrap':
            f = FuncDef('kern_u%da' % u.uid, [('a', GI('Vektor2', T), False)], T, '{W} <a>', [('ret', ('field', 'vy', var('a')))], tparams=['T'], public=True)
        else:
            f = FuncDef('lokal_u%da' % u.uid, [('a', T, False)], T, '{W} <a>',
                        [('decl', 'h1', GI('Vektor2', T), ('ctor', 'Vektor2', [('default', T), var('a')])), ('ret', ('field', 'vy', var('h1')))], tparams=['T'], public=True)
        u.flags[f.name] = {'T': set()}
        self._register(u, 'D', f)
        forced = [('I', {'T': di}), ('M', {'T': dm})]
        if rt.random() < 0.5:
            forced.append((rt.choice(['D', 'I', 'M']), {'T': rt.choice(bases)}))
        rt.shuffle(forced)
        if len(self.gen_sites(r, u, f, ['I', 'M'], 0, forced=forced)) < 2:
            return False
        u.feats.add('typedef-same-name-in-two-callers')
        u.feats.add('typedef-declared-in-caller')
        return True

    def unit_relay(self, r, u, pos):
        """a generic function of the importing module passes its arguments on to a generic function of the declaring module"""
        lay = self.layout
        helper, counter = self._common(r, u, 0)
        f = self.gen_generic(r, u, 'D', 0, [], helper, counter, public=True)
        if f.ret is None or not self.fill_body(r, u, f, [], helper, counter):
            return False
        self._register(u, 'D', f)
        g = self.gen_generic(r, u, 'I', 1, [f], None, None, public=True, force={'ret': None})
        # return type: whatever a call of f gives
        for _ in range(8):
            bg = BodyGen(r, self, u, g.name, g.tparams, g.params, None, [f], None, None)
            b = {}
            e = bg.call_with(f, b, 0)
            if e is None:
                continue
            rt = subst(f.ret, b)
            ptv = []
            for p in g.params:
                tvars(p[1], ptv)
            if any(v not in ptv for v in tvars(rt)) or contains_nested_list(rt) or pattern_depth(rt) > 1:
                continue
            g.ret = rt
            g.alias = make_alias(r, [p[0] for p in g.params])
            pre = []
            for _ in range(r.randint(0, 2)):
                pre += bg.stmt()
            g.body = pre + [('ret', e)]
            u.flags[g.name] = bg.flags
            break
        else:
            return False
        self._register(u, 'I', g)
        u.feats.add('relay')
        self.gen_sites(r, u, g, ['M', 'I', 'M'], r.randint(1, 3), hidden_main=(lay.kind == 'hidden'), simple_all=(lay.kind == 'hidden'))
        if r.random() < 0.5:
            self.gen_sites(r, u, f, ['D', 'I'], 1)
        self._drivers_counter(u, counter)
        self._shadow(r, u, helper, counter)
        return True

    def unit_recursive(self, r, u, pos):
        """a generic function calling itself with a counter; or two generic functions calling each other"""
        lay = self.layout
        helper, counter = self._common(r, u, 0)
        mutual = r.random() < 0.5
        f = self.gen_generic(r, u, 'D', 0, [], helper, counter, public=True, force={'counter': True})
        if not mutual:
            if not self.fill_body(r, u, f, [], helper, counter, recursion=f, nst=r.randint(0, 2)):
                return False
            self._register(u, 'D', f)
            u.feats.add('recursion')
        else:
            g = FuncDef(f.name[:-1] + 'b', list(f.params), f.ret, make_alias(r, [p[0] for p in f.params], stmt_like=(f.ret is None)), [],
                        tparams=list(f.tparams), public=r.random() < 0.5)
            if not self.fill_body(r, u, f, [], helper, counter, recursion=g, nst=r.randint(0, 2)):
                return False
            u.flags[g.name] = {tp: set() for tp in g.tparams}
            if not self.fill_body(r, u, g, [], helper, counter, recursion=f, nst=r.randint(0, 2)):
                return False
            # both functions instantiate each other: each carries the other's constraints
            for tp in f.tparams:
                m = u.flags[f.name][tp] | u.flags[g.name][tp]
                u.flags[f.name][tp] = set(m)
                u.flags[g.name][tp] = set(m)
            g.forward = True
            u.gens['D'].append(('fwd', g))
            self._register(u, 'D', f)
            self._register(u, 'D', g)
            u.feats.add('mutual-recursion')
        roles = self.site_roles(r)
        self.gen_sites(r, u, f, roles, r.randint(1, 3), hidden_main=(lay.kind == 'hidden'))
        self._drivers_counter(u, counter)
        self._shadow(r, u, helper, counter)
        return True

    def unit_operator(self, r, u, pos):
        """generic operator overload on (instantiated generic) Kombinationen, used directly and from a generic body"""
        lay = self.layout
        op = OPERATORS[pos % len(OPERATORS)]
        helper, counter = self._common(r, u, 0)
        X = V('T')
        shape = r.choice(['vv', 'vx', 'pp', 'tt'])
        if shape == 'vv':
            params = [('a', GI('Vektor2', X), False), ('b', GI('Vektor2', X), False)]
            ret = r.choice([GI('Vektor2', X), X, L(X)])
            tps = ['T']
        elif shape == 'vx':
            params = [('a', GI('Vektor2', X), False), ('b', X, False)]
            ret = r.choice([GI('Vektor2', X), X])
            tps = ['T']
        elif shape == 'pp':
            params = [('a', GI('Paar', X, V('R')), False), ('b', GI('Paar', X, V('R')), False)]
            ret = r.choice([GI('Paar', X, V('R')), GI('Paar', V('R'), X), X, V('R')])
            tps = ['T', 'R']
        else:
            params = [('a', X, False), ('b', X, False)]
            ret = r.choice([X, ZAHL, L(X)])
            tps = ['T']
        f = FuncDef('op_%s_u%d' % (op, u.uid), params, ret, '', [], tparams=tps, public=True, operator=op)
        if not self.fill_body(r, u, f, [], helper, counter, nst=r.randint(0, 2)):
            return False
        if shape == 'tt':
            u.flags[f.name]['T'].add('struct')
        self._register(u, 'D', f)
        u.feats.add('operator-' + shape)
        gens = [f]
        if r.random() < 0.6:
            g = self.gen_generic(r, u, 'D', 1, gens, helper, counter, public=True)
            # make sure g can use the operator: first parameter has the operand shape
            g.params[0] = (g.params[0][0], subst(params[0][1], {'T': V(g.tparams[0]), 'R': V(g.tparams[-1])}), False)
            ptv = []
            for p in g.params:
                tvars(p[1], ptv)
            g.tparams = [tp for tp in g.tparams if tp in ptv]
            if g.ret is not None and any(v not in ptv for v in tvars(g.ret)):
                g.ret = None
                g.alias = make_alias(r, [p[0] for p in g.params], stmt_like=True)
            if self.fill_body(r, u, g, gens, helper, counter):
                self._register(u, 'D', g)
                gens.append(g)
                u.feats.add('operator-in-generic')
        roles = self.site_roles(r)
        for g in gens:
            self.gen_sites(r, u, g, roles, r.randint(1, 3), hidden_main=(lay.kind == 'hidden'))
        self._drivers_counter(u, counter)
        return True

    def unit_innergeneric(self, r, u, pos):
        """a private generic function used by a public one; the calling module has a non-generic function with the same alias"""
        lay = self.layout
        helper, counter = self._common(r, u, 0)
        X = V('T')
        inner = FuncDef('innen_u%d' % u.uid, [('a', X, False)], X, '{W} <a>', [('ret', var('a'))], tparams=['T'])
        u.flags[inner.name] = {'T': set()}
        self._register(u, 'D', inner)
        outer = self.gen_generic(r, u, 'D', 1, [inner], helper, counter, public=True)
        for _ in range(10):
            if not self.fill_body(r, u, outer, [inner], helper, counter):
                return False
            if 'innen_u' in repr(outer.body):
                break
        else:
            return False
        self._register(u, 'D', outer)
        u.feats.add('private-generic')
        for role in lay.roles_distinct_from_D():
            if r.random() < 0.7:
                t = r.choice([ZAHL, TEXT])
                sh = FuncDef(inner.name + '#' + role, [('a', t, False)], t, inner.alias, [('ret', lit(t, '4444' if t == ZAHL else '"schatten"'))], word=inner.word)
                sh.real_name = inner.name
                u.helpers[role].append(sh)
                u.feats.add('shadow-plain-vs-generic')
        roles = ['M', 'I', 'D'] if lay.kind != 'hidden' else ['I', 'D']
        self.gen_sites(r, u, outer, roles, r.randint(2, 3), hidden_main=(lay.kind == 'hidden'))
        self._drivers_counter(u, counter)
        return True

    def unit_paramname(self, r, u, pos):
        """a calling module declares a function whose NAME equals a parameter name of the generic function"""
        lay = self.layout
        if not lay.roles_distinct_from_D():
            return self.unit_plain(r, u, pos)
        helper, counter = self._common(r, u, 0)
        f = self.gen_generic(r, u, 'D', 0, [], helper, counter, public=True)
        pname = 'wert_u%d' % u.uid
        old = f.params[0][0]
        f.params[0] = (pname, f.params[0][1], f.params[0][2])
        f.alias = f.alias.replace('<%s>' % old, '<%s>' % pname)
        if not self.fill_body(r, u, f, [], helper, counter):
            return False
        self._register(u, 'D', f)
        role = r.choice(lay.roles_distinct_from_D() if lay.kind != 'hidden' else ['I'])
        sh = FuncDef(pname + '#' + role, [], ZAHL, 'der_{W}', [('ret', lit(ZAHL, '99'))], word=pname)
        sh.real_name = pname
        u.helpers[role].append(sh)
        u.feats.add('caller-function-named-like-parameter')
        self.gen_sites(r, u, f, [role, 'D'], 2, hidden_main=(lay.kind == 'hidden'))
        return True

    def unit_deepparam(self, r, u, pos):
        """parameter type pattern with a type parameter two Kombinationen deep: (T-Vektor2)-R-Paar"""
        f = FuncDef('tief_u%d' % u.uid, [('a', GI('Paar', GI('Vektor2', V('T')), V('R')), False)], V('R'), '{W} <a>',
                    [('ret', ('field', 'pb', var('a')))], tparams=['T', 'R'], public=True)
        u.flags[f.name] = {'T': set(), 'R': {'nopaar'}}
        self._register(u, 'D', f)
        sg = SiteGen(r, self.structs, 'w%dn_' % u.uid)
        pre = []
        t1, t2 = r.choice([ZAHL, TEXT, KOMMA]), r.choice([ZAHL, TEXT, BOOL])
        e = sg.cval(GI('Paar', GI('Vektor2', t1), t2), pre)
        u.sites[r.choice(['D', 'M'] if self.layout.kind != 'hidden' else ['D', 'I'])].append(pre + [('show', ('call', f.name, [e]))])
        u.feats.add('deep-parameter-pattern')
        return True

    def unit_deepreturn(self, r, u, pos):
        """return type pattern with a type parameter two Kombinationen deep: (T-Vektor2)-Zahl-Paar"""
        f = FuncDef('hoch_u%d' % u.uid, [('a', V('T'), False)], GI('Paar', GI('Vektor2', V('T')), ZAHL), '{W} <a>',
                    [('ret', ('ctor', 'Paar', [('ctor', 'Vektor2', [var('a'), var('a')]), lit(ZAHL, '1')]))], tparams=['T'], public=True)
        u.flags[f.name] = {'T': set()}
        self._register(u, 'D', f)
        sg = SiteGen(r, self.structs, 'w%dn_' % u.uid)
        pre = []
        e = sg.cval(r.choice([ZAHL, TEXT, KOMMA]), pre)
        u.sites[r.choice(['D', 'M'] if self.layout.kind != 'hidden' else ['D', 'I'])].append(pre + [('show', ('call', f.name, [e]))])
        u.feats.add('deep-return-pattern')
        return True

    def unit_emptybody(self, r, u, pos):
        """a generic function returning nothing with an empty body (a plain function may have one)"""
        f = FuncDef('leer_u%d' % u.uid, [('a', V('T'), False)], None, '{W} <a>', [], tparams=['T'], public=True)
        u.flags[f.name] = {'T': set()}
        self._register(u, 'D', f)
        sg = SiteGen(r, self.structs, 'w%dn_' % u.uid)
        pre = []
        e = sg.cval(r.choice([ZAHL, TEXT]), pre)
        u.sites['D'].append(pre + [('expr', ('call', f.name, [e])), ('show', lit(ZAHL, '1'))])
        u.feats.add('empty-body')
        return True

    def unit_nested(self, r, u, pos):
        """`T Liste` with T bound to a list (a list of lists has no surface syntax; M goes through a type alias)"""
        X = V('T')
        f = FuncDef('stapel_u%d' % u.uid, [('a', X, False)], ZAHL, '{W} <a>',
                    [('decl', 'h1', L(X), ('listlit', X, [var('a'), var('a')])), ('ret', ('len', var('h1')))], tparams=['T'], public=True)
        u.flags[f.name] = {'T': set()}
        self._register(u, 'D', f)
        sg = SiteGen(r, self.structs, 'w%dn_' % u.uid)
        pre = []
        t = r.choice(LISTS)
        e = sg.cval(t, pre)
        role = r.choice(['D', 'M'] if self.layout.kind != 'hidden' else ['D', 'I'])
        u.sites[role].append(pre + [('show', ('call', f.name, [e]))])
        u.feats.add('nested-list')
        return True

    # ---- program assembly
    def assemble(self, units):
        lay = self.layout
        pr = Program(self.spec_mode, self.mono)
        pr.structs = self.structs
        kinds = lay.kind
        if kinds == 'one':
            mods = [Module('main', 'M')]
        elif kinds == 'two':
            mods = [Module('decl', 'D'), Module('main', 'M', ['decl'])]
        elif kinds == 'three':
            mods = [Module('decl', 'D'), Module('mitte', 'I', ['decl']), Module('main', 'M', ['decl', 'mitte'])]
        else:
            mods = [Module('decl', 'D'), Module('mitte', 'I', ['decl']), Module('main', 'M', ['mitte'])]
        if self.tymod == 'third':
            # the pool's type definitions and aliases in a module of their own, imported (first) by every module
            for m in mods:
                m.imports.insert(0, 'typen')
            mods.insert(0, Module('typen', 'T'))
        pr.modules = mods
        bymod = {m.name: m for m in mods}
        dmod = bymod[lay.mods['D']]
        roles_of = {}
        for role in ('D', 'I', 'M'):
            roles_of.setdefault(lay.mods[role], []).append(role)

        def declare(m, t, private=False):
            if t in pr.named_mod:
                return
            pr.named_mod[t] = m.name
            if private:
                pr.named_private.add(t)
            m.add('named', t)
        for t in POOL_NAMED:
            declare(bymod['typen'] if self.tymod == 'third' else dmod, t)
        # the units' own type definitions: at the top of their module (before `zeige`, whose overloads mention them)
        for m in mods:
            for u in units:
                for role in roles_of.get(m.name, []):
                    for t in u.named[role]:
                        declare(m, t, private=(t in u.private_named))
        dmod.add('struct', 'Punkt')
        declare(dmod, ORT)
        for n in ('Vektor2', 'Paar', 'Kiste'):
            dmod.add('struct', n)
        main_calls = []
        for m in mods:
            if m.name == 'typen':
                continue
            roles = roles_of.get(m.name, [])
            m.add('zeige')
            for u in units:
                for role in roles:
                    for i, raw in enumerate(u.raws[role]):
                        if i == 0 and not any(it[0] == 'raw' and (' %s.' % u.typename in it[1] or 'einen %s,' % u.typename in it[1]) for it in m.items):
                            m.add('raw', raw)       # one meaning per module (layouts with fewer modules: the declaring module's wins)
            for u in units:
                for role in roles:
                    for g in u.globals[role]:
                        if not any(it[0] == 'global' and it[1] == g[0] for it in m.items):
                            m.add('global', *g)
                    for h in u.helpers[role]:
                        real = getattr(h, 'real_name', h.name)
                        if real in pr.funcs and pr.func_module.get(real) == m.name:
                            continue     # same module as the original (layouts with fewer modules): no shadow possible
                        if real != h.name:
                            # a shadow: same name in another module; registered under a distinct key
                            h2 = FuncDef(real, h.params, h.ret, h.alias, h.body, word=h.word)
                            key = real + '@' + m.name
                            if key in pr.funcs:
                                continue
                            pr.funcs[key] = h2
                            pr.func_module[key] = m.name
                            m.add('func', key)
                        else:
                            pr.add_func(m, h)
            for u in units:
                for role in roles:
                    for it in u.gens[role]:
                        if it[0] == 'fwd':
                            m.add('fwd', it[1].name)
                        else:
                            f = it[1]
                            f.public = f.public and (m is not mods[-1])
                            pr.add_func(m, f)
            if m is not dmod and any(u.named[role] for u in units for role in roles):
                m.add('spechome')
            for u in units:
                for role in roles:
                    if not u.sites[role]:
                        continue
                    if m is mods[-1] and role == 'M':
                        continue
                    dn = 'treibe_%s_u%d' % (role, u.uid)
                    body = [st for grp in u.sites[role] for st in grp]
                    if lay.kind == 'hidden' and role == 'I' and u.sites['D']:
                        body = [('expr', ('call', 'treibe_D_u%d' % u.uid, []))] + body
                    d = FuncDef(dn, [], None, '{W}', body, public=(m is not mods[-1]))
                    pr.add_func(m, d)
            if m is mods[-1]:
                for u in units:
                    st = [('write', lit(TEXT, '"== u%d\\n"' % u.uid))]
                    for role in ('D', 'I'):
                        dn = 'treibe_%s_u%d' % (role, u.uid)
                        if dn in pr.funcs and not (lay.kind == 'hidden' and role == 'D'):
                            st.append(('expr', ('call', dn, [])))
                    if lay.kind == 'hidden' and u.sites['D'] and not u.sites['I']:
                        # nobody reaches the driver of decl from main: give mitte a forwarding driver
                        dn = 'treibe_I_u%d' % u.uid
                        d = FuncDef(dn, [], None, '{W}', [('expr', ('call', 'treibe_D_u%d' % u.uid, []))], public=True)
                        pr.funcs[dn] = d
                        pr.func_module[dn] = 'mitte'
                        bymod['mitte'].add('func', dn)
                        st.append(('expr', ('call', dn, [])))
                    st += [x for grp in u.sites['M'] for x in grp] if 'M' in roles else []
                    m.add('stmts', st)
        return pr


UNIT_KINDS = [('plain', 8), ('relay', 3), ('recursive', 3), ('operator', 3), ('innergeneric', 2), ('typedef', 5)]
SOLO_KINDS = ['paramname', 'nested', 'emptybody', 'deepparam', 'deepreturn', 'samename']     # poison a batch (rejected / not compilable as a whole): always alone


def body_calls(body, acc):
    """names of functions called in a body"""
    def we(e):
        if not isinstance(e, tuple) or not e:
            return
        if e[0] in ('call', 'opcall'):
            acc.add(e[1])
        for x in e[1:]:
            if isinstance(x, tuple):
                we(x)
            elif isinstance(x, list):
                for y in x:
                    we(y)
    for st in body:
        we(st)
    return acc


def site_types(u):
    """the types spelled at the call sites of the unit (declarations, conversions, list literals)"""
    acc = []

    def we(e):
        if not isinstance(e, tuple) or not e:
            return
        if e[0] == 'decl':
            acc.append(e[2])
        elif e[0] == 'cast':
            acc.append(e[2])
        elif e[0] in ('listlit', 'default'):
            acc.append(e[1])
        for x in e[1:]:
            if isinstance(x, tuple) and x and isinstance(x[0], str) and x[0] in ('decl', 'cast', 'listlit', 'default', 'call', 'opcall', 'ctor', 'show', 'expr', 'field',
                                                                                 'index', 'concat', 'bin', 'assign', 'print', 'write', 'len'):
                we(x)
            elif isinstance(x, list):
                for y in x:
                    we(y)
    for role in ('D', 'I', 'M'):
        for grp in u.sites[role]:
            for st in grp:
                we(st)
    return acc


def unit_features(u):
    """features recomputed from what the unit contains (after minimisation: what was needed)"""
    fs = set()
    st = site_types(u)
    if any(defs_in(t) for t in st):
        fs.add('typedef-instantiation')
    if any(n[0] == 'a' for t in st for n in named_in(t)):
        fs.add('alias-instantiation')
    if any(defs_in(t) and t[0] in ('g', 'l') for t in st):
        fs.add('typedef-inside-kombination-or-list')
    for f in u.feats:
        if f.startswith('typedef-'):
            fs.add(f)
    gens = [it[1] for role in ('D', 'I', 'M') for it in u.gens[role] if it[0] == 'func']
    gnames = {g.name for g in gens}
    for f in u.feats:
        if f in ('caller-function-named-like-parameter', 'nested-list', 'empty-body', 'deep-parameter-pattern', 'deep-return-pattern', 'relay'):
            fs.add(f)
    for role in ('I', 'M'):
        for h in u.helpers[role]:
            real = getattr(h, 'real_name', None)
            if real is None:
                continue
            if real in gnames:
                fs.add('caller-has-plain-function-with-alias-of-private-generic')
            elif real.startswith('hilf_'):
                fs.add('caller-shadows-helper')
            elif not real.startswith('wert_'):
                fs.add('caller-shadows-name')
        if u.globals[role]:
            fs.add('caller-shadows-global')
        if u.raws[role]:
            fs.add('caller-shadows-type-name')
    if any(it[0] == 'fwd' for it in u.gens['D']):
        fs.add('mutual-recursion')
    for g in gens:
        if g.operator:
            fs.add('operator-overload')
        if any(p[2] for p in g.params):
            fs.add('reference-parameter')
        called = body_calls(g.body, set())
        if g.name in called:
            fs.add('recursion')
        if (called - {g.name}) & gnames:
            fs.add('generic-calls-generic')
        if len(g.tparams) > 1:
            fs.add('two-type-parameters')
        if not g.public and g.generic:
            fs.add('private-generic')
    fs.add('generics=%d' % len(gens))
    roles = [r for r in ('D', 'I', 'M') if u.sites[r]]
    fs.add('sites=' + '+'.join(roles))
    return fs
