"""C18 Foreign C functions see the published value representation.

Generated extern signatures (arity 0..6, 17 kinds x {by value, Referenz}, 17 return kinds + nichts), one generated C
callee per signature (includes the tree's DDP/ddptypes.h, prints every parameter it receives in a canonical form,
writes known values through every Referenz pointer, scribbles on / releases / replaces its by-value copies, returns
a freshly allocated known value) and a generated DDP caller that passes boundary values, prints result and every
argument after the call. Oracle: identity model (checks/c18_gen.py) line by line; ownership: allocation ledger on
every run (exactly once, true size, nothing live at exit) and valgrind memcheck on the unmodified executable."""
import copy
import json
import os
import random
import re
import shutil

import vlib
from vlib import Check, Scratch, log
from checks import c18_gen as gen

PID = "C18"
NATIVE = os.path.join(vlib.VERIF, "native")

RULE = ("each case = one call of a generated extern function. Signatures: arity 0..6, parameter kinds {Zahl, Kommazahl, Byte, Wahrheitswert, Buchstabe, Text, "
        "Zahlen/Kommazahlen/Byte/Wahrheitswert/Buchstaben/Text/Variablen/Paar Liste, Kombination Paar{Zahl,Text}, Kombination Satz{Byte,Kommazahl,Zahlen Liste,"
        "Buchstabe,Wahrheitswert,Text Liste}, Variable} x {by value, Referenz}, return kind of those or nichts; greedy pair-covering selection of "
        "(position,kind,mode) pairs for 50 % of the budget + seeded random. Argument forms: variable, temporary (result of a DDP function), list element, "
        "Kombination field, the same variable for two parameters. Callee modes for by-value non-primitives: keep / release and leave empty / replace by a fresh "
        "value. Result used: stored, discarded, passed on to another extern. Distinct by (signature, call). Oracle: every line the C callee prints for a "
        "parameter equals the canonical form of the value passed; every argument printed by the caller after the call equals the callee's write (Referenz) or "
        "the unchanged value (by value); the result equals the callee's value; allocation ledger: no wrong-size/double release, nothing live at exit; "
        "valgrind memcheck silent (exit != 97).")
ASSUMPTIONS = [
    "executables run with LOCPATH=/verif/build/locale (de_DE.UTF-8 shim)",
    "Kombinationen are received as C structs with the fields in declaration order and natural alignment (convention of lib/stdlib/source/DDP: Datei, TextBauer, "
    "Treffer/TrefferList); the headers publish no Kombination layout",
    "a Variable is built on the C side only as DDP_EMPTY_ANY or with ddp_deep_copy_any from another Variable: the headers publish no way to obtain a vtable",
    "the dynamic type of a Variable is recognised on the C side by vtable->free_func (ddp_free_string, ddp_free_ddpintlist, ddp_free_ddpstringlist, NULL = primitive "
    "printed as type_size raw bytes); Kombinationen inside a Variable are recognised by size only",
    "texts: NUL-terminated, cap >= strlen+1 (or {NULL,0} when empty); a larger cap is accepted; callee-made texts have cap = strlen+1 as in the stdlib",
    "Kommazahl values: decimal literals with <= 15 significant digits (printed by the caller with %.16g), no -0.0, no NaN/inf",
    "no Kombination default values (a Byte field with `Standardwert 0` crashes the compiler: C02's business)",
    "ASan runtime variant not used: ledger + memcheck decide ownership",
]


def tiers(tier):
    # (signatures, functions per program, calls per function)
    return (102, 6, 3) if tier == "quick" else (2000, 6, 3)


# ------------------------------------------------------------------ building and running one program

def build(spec, workdir):
    """-> (exe path or None, files, blocks, compile Proc)"""
    files, main, blocks = gen.render(spec)
    for rel, text in files.items():
        vlib.write_file(os.path.join(workdir, rel), text)
    cdir = os.path.join(workdir, "mod") if spec.get("variant") == "import" else workdir
    if spec.get("lib") == "a":
        inc = os.path.join(vlib.DDP, "lib", "runtime", "include")
        r = vlib.run(["gcc", "-O2", "-c", "-Wall", "-I" + inc, "-I" + NATIVE, "-o", os.path.join(cdir, "c18callee.o"), os.path.join(cdir, "callee.c")], cwd=cdir, wall_s=120)
        if r.rc != 0:
            return None, files, blocks, r
        r = vlib.run(["ar", "rcs", os.path.join(cdir, "libc18callee.a"), os.path.join(cdir, "c18callee.o")], cwd=cdir, wall_s=60)
        if r.rc != 0:
            return None, files, blocks, r
    exe = os.path.join(workdir, "main")
    if os.path.exists(exe):
        os.unlink(exe)
    # the ledger's shadow table keeps every live address, which hides leaks from memcheck: programs with ledger=false are
    # linked without it and leave the leak verdict to memcheck on the unmodified executable
    r = vlib.kddp_compile(os.path.join(workdir, main), exe, O=spec.get("O", 1), gcc_opts=vlib.ledger_gcc_opts() if spec.get("ledger", True) else None,
                          extra=["--externe-gcc-optionen", "-I" + NATIVE])
    if r.rc != 0 or not os.path.exists(exe):
        return None, files, blocks, r
    return exe, files, blocks, r


def parse_blocks(out):
    """observed lines grouped by their `B name n` ... `E name n` markers"""
    obs = {}
    cur = None
    for line in out.split("\n"):
        if line.startswith("B "):
            cur = line[2:]
            obs[cur] = [line]
        elif cur is not None:
            obs[cur].append(line)
            if line.startswith("E "):
                cur = None
    return obs


class Outcome:
    """everything observed for one program: failures = list of dicts {cls, fi, n, ...}"""

    def __init__(self):
        self.failures = []
        self.inconclusive = False
        self.stdout = self.stderr = self.memcheck = self.ledger = self.compile_err = ""
        self.lines = 0
        self.ledger_events = 0
        self.memchecked = False


def execute(spec, workdir, memcheck=True):
    oc = Outcome()
    exe, files, blocks, cr = build(spec, workdir)
    oc.files = files
    oc.blocks = blocks
    if exe is None:
        if cr.timed_out:
            oc.inconclusive = True
            return oc
        oc.compile_err = (cr.out + "\n" + cr.err)[-6000:]
        m = re.search(r"(Unerwarteter Fehler[^\n]*|Fehler \(\d+\)[^\n]*|error:[^\n]*|undefined reference[^\n]*)", oc.compile_err)
        oc.failures.append({"cls": "compile", "fi": None, "n": None, "detail": (m.group(1) if m else oc.compile_err.strip().split("\n")[0])[:200]})
        return oc
    ledger = os.path.join(workdir, "ledger.txt")
    if os.path.exists(ledger):
        os.unlink(ledger)
    pr = vlib.run_exe(exe, env_extra={"VERIF_LEDGER": ledger})
    if pr.timed_out:
        oc.inconclusive = True
        return oc
    oc.stdout, oc.stderr = pr.out, pr.err
    obs = parse_blocks(pr.out)
    crashed_reported = False
    for fi, n, exp in blocks:
        key = exp[0][0][2:]
        got = obs.get(key)
        if got is None:
            if not crashed_reported:
                oc.failures.append({"cls": "crash" if pr.rc != 0 else "output-missing", "fi": fi, "n": n, "detail": "rc=%s stderr=%s" % (pr.rc, pr.err.strip()[-300:])})
                crashed_reported = True
            continue
        for j, (line, meta) in enumerate(exp):
            oc.lines += 1
            if j >= len(got) or got[j] != line:
                if j >= len(got) and pr.rc != 0 and not crashed_reported:
                    oc.failures.append({"cls": "crash", "fi": fi, "n": n, "detail": "rc=%s after %d lines of the call; stderr=%s" % (pr.rc, j, pr.err.strip()[-300:])})
                    crashed_reported = True
                elif j < len(got) or not crashed_reported:
                    oc.failures.append({"cls": "mismatch:" + meta["what"], "fi": fi, "n": n, "param": meta.get("param"),
                                        "expected": line, "observed": got[j] if j < len(got) else "<missing>"})
                break
        else:
            if len(got) != len(exp):
                oc.failures.append({"cls": "mismatch:extra-lines", "fi": fi, "n": n, "expected": "<end>", "observed": got[len(exp)]})
    if pr.rc != 0 and not crashed_reported:
        oc.failures.append({"cls": "crash", "fi": None, "n": None, "detail": "rc=%s stderr=%s" % (pr.rc, pr.err.strip()[-300:])})
    # ---- ledger: judged online by the interposer, summary at exit
    try:
        with open(ledger) as f:
            oc.ledger = f.read()
    except OSError:
        oc.ledger = ""
    if pr.rc == 0 and spec.get("ledger", True):
        for m in re.finditer(r"^VIOLATION kind=(\S+)", oc.ledger, re.M):
            oc.failures.append({"cls": "ledger:" + m.group(1), "fi": None, "n": None, "detail": m.group(0)})
            break
        m = re.search(r"SUMMARY events=(\d+).*live_blocks=(\d+) live_bytes=(\d+)", oc.ledger)
        if m:
            oc.ledger_events = int(m.group(1))
            if int(m.group(2)) != 0 and not any(f["cls"].startswith("ledger:") for f in oc.failures):
                oc.failures.append({"cls": "ledger:leak", "fi": None, "n": None, "detail": "live_blocks=%s live_bytes=%s at exit" % (m.group(2), m.group(3))})
        elif not crashed_reported:
            oc.failures.append({"cls": "ledger:no-summary", "fi": None, "n": None, "detail": "ledger wrote no summary"})
    # ---- memcheck on the same executable
    if memcheck and pr.rc == 0:
        mr = vlib.run_memcheck(exe)
        if mr.timed_out:
            oc.inconclusive = True
            return oc
        oc.memchecked = True
        oc.memcheck = mr.err[-8000:]
        if mr.rc == 97:
            kinds = re.findall(r"(Invalid free|Invalid read|Invalid write|Mismatched free|Conditional jump|uninitialised|definitely lost|indirectly lost|possibly lost|Source and destination overlap)", mr.err)
            first = kinds[0] if kinds else "error"
            if "lost" in first:
                first = "leak"
            oc.failures.append({"cls": "memcheck:" + first, "fi": None, "n": None, "detail": mr.err.strip()[:600]})
        elif mr.rc != 0:
            oc.failures.append({"cls": "memcheck:rc=%d" % mr.rc, "fi": None, "n": None, "detail": mr.err.strip()[-400:]})
    return oc


# ------------------------------------------------------------------ shrinking a failing program

def _drop_param(fn, i):
    fn = copy.deepcopy(fn)
    del fn["params"][i]
    for call in fn["calls"]:
        del call["args"][i]
        for tbl in ("writes", "repl"):
            new = {}
            for k, v in call.get(tbl, {}).items():
                k = int(k)
                if k == i:
                    continue
                new[str(k - 1 if k > i else k)] = v
            call[tbl] = new

        def fix(w):
            if isinstance(w, list) and len(w) == 2 and w[0] == "copy":
                if w[1] == i:
                    return None
                if w[1] > i:
                    return ["copy", w[1] - 1]
            return w
        for k, p in enumerate(fn["params"]):
            if p["kind"] == "V" and str(k) in call["writes"]:
                call["writes"][str(k)] = fix(call["writes"][str(k)])
        if fn["ret"] == "V":
            call["ret"] = fix(call["ret"])
    return fn


def _keep_params(fn, keep):
    for i in reversed(range(len(fn["params"]))):
        if i not in keep:
            fn = _drop_param(fn, i)
    for call in fn["calls"]:                     # variables no argument refers to any more
        used = {a["var"] for a in call["args"]}
        call["vars"] = [v for v in call["vars"] if v["name"] in used]
    return fn


def _simplify(s, what):
    """one simplification step on a single-function spec; -> changed?"""
    changed = False
    if what == "temp":
        for c in s["fns"][0]["calls"]:
            for a in c["args"]:
                if a.pop("temp", None):
                    changed = True
    elif what == "calc":
        for c in s["fns"][0]["calls"]:
            for a in c["args"]:
                if a.pop("calc", None):
                    changed = True
    elif what == "by":
        for p in s["fns"][0]["params"]:
            if p.get("by", "keep") != "keep":
                p["by"] = "keep"
                changed = True
    elif what == "toplevel":
        for c in s["fns"][0]["calls"]:
            if not c.get("toplevel"):
                c["toplevel"] = True
                changed = True
    elif what == "variant" and s.get("variant") == "import":
        s["variant"] = "direct"
        changed = True
    elif what == "lib" and s.get("lib") == "a":
        s["lib"] = "c"
        changed = True
    return changed


SIMPLIFICATIONS = ("temp", "calc", "by", "toplevel", "variant", "lib")


def shrink(spec, cls, sc, budget=60):
    """greedy reduction of a failing spec keeping the failure class (candidates of one step run in parallel)"""
    state = {"n": 0}

    def fails(s):
        state["n"] += 1
        d = sc.sub("shrink-%d-%d" % (spec.get("id", 0), state["n"]))
        try:
            oc = execute(s, d, memcheck=cls.startswith("memcheck"))
            return any(f["cls"] == cls for f in oc.failures)
        finally:
            shutil.rmtree(d, ignore_errors=True)

    def first_failing(cands):
        cands = cands[:max(0, budget - state["n"])]
        if not cands:
            return None
        for c, bad in zip(cands, vlib.pmap(fails, cands, workers=8)):
            if bad:
                return c
        return None

    cur = copy.deepcopy(spec)
    if len(cur["fns"]) > 1:                      # one function
        got = first_failing([dict(cur, fns=[fn]) for fn in cur["fns"]])
        if got:
            cur = copy.deepcopy(got)
    if len(cur["fns"]) == 1 and len(cur["fns"][0]["calls"]) > 1:      # one call
        cands = []
        for call in cur["fns"][0]["calls"]:
            s = copy.deepcopy(cur)
            s["fns"][0]["calls"] = [copy.deepcopy(call)]
            cands.append(s)
        got = first_failing(cands)
        if got:
            cur = got
    if len(cur["fns"]) == 1:
        fn = cur["fns"][0]
        if len(fn["params"]) > 0:                # no parameter / one parameter / drop one at a time
            cands = [dict(cur, fns=[_keep_params(fn, set())])] + [dict(cur, fns=[_keep_params(fn, {i})]) for i in range(len(fn["params"]))]
            got = first_failing(cands)
            if got:
                cur = copy.deepcopy(got)
            else:
                progress = True
                while progress and len(cur["fns"][0]["params"]) > 2:
                    fn = cur["fns"][0]
                    got = first_failing([dict(cur, fns=[_drop_param(fn, i)]) for i in reversed(range(len(fn["params"])))])
                    progress = got is not None
                    if got:
                        cur = copy.deepcopy(got)
        fn = cur["fns"][0]
        if fn["ret"]:                            # result
            s = copy.deepcopy(cur)
            s["fns"][0]["ret"] = None
            for c in s["fns"][0]["calls"]:
                c["ret"], c["use"] = None, "stmt"
            if first_failing([s]):
                cur = s
        s = copy.deepcopy(cur)                   # argument forms, callee modes, module layout: all at once, else one by one
        if any([_simplify(s, w) for w in SIMPLIFICATIONS]):
            if first_failing([s]):
                cur = s
            else:
                for w in SIMPLIFICATIONS:
                    s = copy.deepcopy(cur)
                    if _simplify(s, w) and first_failing([s]):
                        cur = s
        others = [O for O in (0, 1, 2) if O != cur.get("O")]
        res = vlib.pmap(fails, [dict(cur, O=O) for O in others], workers=2)
        cur["fails_at_O"] = sorted([cur.get("O")] + [O for O, bad in zip(others, res) if bad])
    return cur


def signature_of(spec, f):
    """specific signature of a failure on a (reduced) spec"""
    sig = {"kind": f["cls"]}
    fns = spec["fns"]
    fn = fns[f["fi"]] if f.get("fi") is not None else (fns[0] if len(fns) == 1 else None)
    if fn is not None:
        call = fn["calls"][f["n"]] if f.get("n") is not None and f["n"] < len(fn["calls"]) else (fn["calls"][0] if len(fn["calls"]) == 1 else None)
        sig["signature"] = gen.sig_label(fn)
        if f.get("param") is not None and call is not None:
            sig["param"] = gen.param_label(fn, call, f["param"])
        elif call is not None and len(fns) == 1:
            sig["params"] = ", ".join(gen.param_label(fn, call, i) for i in range(len(fn["params"])))
        if call is not None and fn["ret"]:
            sig["use"] = call["use"]
    else:
        sig["signature"] = "; ".join(gen.sig_label(x) for x in fns)
    sig["O"] = ",".join(str(o) for o in spec.get("fails_at_O", [spec.get("O")]))
    sig["variant"] = spec.get("variant", "direct")
    sig["lib"] = spec.get("lib", "c")
    if f["cls"] == "compile":
        sig["detail"] = re.sub(r"0x[0-9a-f]+|/var/tmp/\S+", "", f.get("detail", ""))[:160]
    return sig


ATTRIBUTED = ("mismatch:", )


def report(chk, spec, oc, f, sc, do_shrink=True):
    """one violation: failures that name their call are cut down to that call, the others are shrunk by re-execution"""
    red = spec
    try:
        if f["cls"].startswith(ATTRIBUTED) and f.get("fi") is not None:
            red = copy.deepcopy(spec)
            fn = red["fns"][f["fi"]]
            fn["calls"] = [fn["calls"][f["n"]]]
            red["fns"] = [fn]
            if f.get("param") is not None:       # try: only the parameter concerned, no result
                small = copy.deepcopy(red)
                sfn = _keep_params(small["fns"][0], {f["param"]})
                sfn["ret"] = None
                for c in sfn["calls"]:
                    c["ret"], c["use"] = None, "stmt"
                small["fns"] = [sfn]
                d = sc.sub("small-%d" % spec.get("id", 0))
                soc = execute(small, d, memcheck=False)
                shutil.rmtree(d, ignore_errors=True)
                if any(x["cls"] == f["cls"] for x in soc.failures):
                    red = small
        elif do_shrink:
            red = shrink(spec, f["cls"], sc)
    except Exception as e:  # a shrinking problem must not hide the finding
        log("[C18] shrink failed: %r" % (e,))
        red = spec
    roc, rf = oc, f
    if red is not spec:
        d = sc.sub("final-%d" % spec.get("id", 0))
        roc = execute(red, d, memcheck=f["cls"].startswith("memcheck"))
        shutil.rmtree(d, ignore_errors=True)
        rf = next((x for x in roc.failures if x["cls"] == f["cls"]), None)
        if rf is None:
            red, roc, rf = spec, oc, f
    sig = signature_of(red, rf)
    if red is spec and not f["cls"].startswith(ATTRIBUTED) and len(spec["fns"]) > 1:
        sig["signature"] = "unattributed: one of the %d functions of program %s" % (len(spec["fns"]), spec.get("id"))
    files = {"spec.json": json.dumps(red, indent=1, ensure_ascii=False), "original_spec.json": json.dumps(spec, ensure_ascii=False)}
    for rel, text in roc.files.items():
        files["program/" + rel] = text
    files["expected.txt"] = "\n".join(line for _, _, exp in roc.blocks for line, _ in exp) + "\n"
    files["observed_stdout.txt"] = roc.stdout
    files["observed_stderr.txt"] = roc.stderr
    files["memcheck.txt"] = roc.memcheck
    files["ledger.txt"] = roc.ledger
    files["compile.txt"] = roc.compile_err
    text = "%s: %s" % (rf["cls"], rf.get("detail") or "expected %r observed %r" % (rf.get("expected"), rf.get("observed")))
    chk.violation(sig, files=files, text=text)


# ------------------------------------------------------------------ entry points

def run(tier):
    vlib.ensure_build(asan=False)
    chk = Check(PID, tier)
    chk.rule = RULE
    chk.assumptions = ASSUMPTIONS
    nsig, per_prog, ncalls = tiers(tier)
    rng = random.Random("c18-%d-%s" % (chk.seed, tier))
    specs, ncells, npairs = gen.make_specs(rng, nsig, per_prog, ncalls)
    chk.count("signatures", sum(len(s["fns"]) for s in specs))
    chk.count("programs", len(specs))
    chk.extra["cells_position_kind_mode_covered"] = "%d of %d" % (ncells, gen.N_CELLS)
    chk.extra["pairs_covered"] = "%d of %d" % (npairs, gen.N_PAIRS)
    with Scratch("c18") as sc:
        def job(spec):
            d = sc.sub("p%d" % spec["id"])
            try:
                oc = execute(spec, d, memcheck=True)
            except Exception as e:
                log("[C18] harness error on program %d: %r" % (spec["id"], e))
                raise
            if not oc.failures:
                shutil.rmtree(d, ignore_errors=True)
            return oc
        outcomes = vlib.pmap(job, specs)
        failing = []
        for spec, oc in zip(specs, outcomes):
            if oc.inconclusive:
                chk.inconclusive += 1
                continue
            bad_calls = {(f["fi"], f["n"]) for f in oc.failures}
            for fi, fn in enumerate(spec["fns"]):
                label = gen.sig_label(fn)
                for n, call in enumerate(fn["calls"]):
                    chk.note_case((label, spec["id"], fi, n))
                    chk.count("use=" + (call["use"]))
                    for i, p in enumerate(fn["params"]):
                        chk.count("param_observations")
                        a = call["args"][i]
                        chk.count("form=" + (a.get("calc") or ("temp" if a.get("temp") else (a["path"][0] if a.get("path") else "var"))))
                    if len({a["var"] for a in call["args"]}) < len(call["args"]):
                        chk.count("calls_with_aliased_arguments")
                chk.count("arity=%d" % len(fn["params"]))
                chk.count("variant=" + spec["variant"])
                chk.count("lib=." + spec["lib"])
                chk.count("O=%d" % spec["O"])
                chk.count("monitor=" + ("ledger+memcheck" if spec.get("ledger", True) else "memcheck on the ledger-free executable"))
            chk.count("lines_compared", oc.lines)
            chk.count("ledger_events", oc.ledger_events)
            if oc.memchecked:
                chk.count("memcheck_runs")
            if not oc.failures and spec["id"] < 3:
                fn = spec["fns"][0]
                chk.sample({"signature": gen.sig_label(fn), "O": spec["O"], "variant": spec["variant"], "lib": spec["lib"],
                            "expected_and_observed": [l for l, _ in oc.blocks[0][2]][:12]}, limit=3)
            if oc.failures:
                failing.append((spec, oc))
        # reports: failures that name their call and parameter are reported at most twice per (class, parameter form) and run;
        # the others are shrunk by re-execution (1 per class, 4 per run); at most 16 reports need re-execution per run.
        # Failures matching a known finding are only counted (no re-execution).
        shrunk = 0
        reexec = 0
        seen_cls = {}
        seen_key = {}
        for spec, oc in failing:
            classes = []
            for f in oc.failures:
                if f["cls"] not in classes:
                    classes.append(f["cls"])
            for cls in classes:
                chk.count("failures:" + cls)
                if cls.startswith(ATTRIBUTED):
                    done = set()
                    for f in oc.failures:        # one per (function, parameter)
                        if f["cls"] != cls or (f["fi"], f.get("param")) in done:
                            continue
                        done.add((f["fi"], f.get("param")))
                        prov = signature_of(spec, f)
                        if chk.match_known(prov) is not None:
                            chk.violation(prov)
                            continue
                        key = (cls, prov.get("param") or prov.get("signature"))
                        seen_key[key] = seen_key.get(key, 0) + 1
                        if seen_key[key] > 2 or reexec >= 16:
                            chk.count("failures_not_reported_individually")
                            continue
                        reexec += 1
                        report(chk, spec, oc, f, sc)
                    continue
                f = next(x for x in oc.failures if x["cls"] == cls)
                do = seen_cls.get(cls, 0) < 1 and shrunk < 4
                seen_cls[cls] = seen_cls.get(cls, 0) + 1
                if do:
                    shrunk += 1
                    report(chk, spec, oc, f, sc, do_shrink=True)
                elif seen_cls[cls] <= 4:
                    report(chk, spec, oc, f, sc, do_shrink=False)
                else:
                    chk.count("failures_not_reported_individually")
    return chk.finish(min_events=50)


def replay(path):
    vlib.ensure_build(asan=False)
    with open(os.path.join(path, "spec.json")) as f:
        spec = json.load(f)
    with Scratch("c18r") as sc:
        rc = 0
        levels = spec.get("fails_at_O") or [spec.get("O", 1)]
        for O in levels:
            oc = execute(dict(spec, O=O), sc.sub("r%d" % O), memcheck=True)
            for fl in oc.failures:
                rc = 1
                print("O=%d %s: %s" % (O, fl["cls"], fl.get("detail") or "expected %r observed %r" % (fl.get("expected"), fl.get("observed"))))
            if oc.inconclusive:
                print("O=%d inconclusive (timeout)" % O)
                rc = rc or 2
        if rc == 0:
            print("replay: no violation on the current tree")
        else:
            print("VIOLATION property=%s replay=%s" % (PID, path))
        return rc
